#!/venv/bin/python
"""Run the repository's pinned test suite (command of /root/.vp/BASELINE.json) and compare with its stable_pass list.
usage: tools/baseline_check.py [pytest args, default: whole suite]   exit 0 iff every stable_pass test that was run passed."""
import json, os, subprocess, sys, tempfile
import xml.etree.ElementTree as ET
base = json.load(open("/root/.vp/BASELINE.json"))
stable = set(base["stable_pass"])
out = tempfile.mktemp(suffix=".xml", dir="/tmp")
cmd = ["/venv/bin/python", "-m", "pytest", "-ra", "-q", "-p", "no:cacheprovider", "--timeout=900",
       "--continue-on-collection-errors", "--junitxml=" + out, "-n", os.environ.get("VP_PYTEST_N", "8")] + sys.argv[1:]
r = subprocess.run(cmd, cwd="/repo", stdout=subprocess.PIPE, stderr=subprocess.STDOUT, text=True)
passed, failed = set(), set()
for tc in ET.parse(out).getroot().iter("testcase"):
    tid = "%s::%s" % (tc.get("classname"), tc.get("name"))
    bad = any(ch.tag in ("failure", "error") for ch in tc)
    skipped = any(ch.tag == "skipped" for ch in tc)
    (failed if bad else passed if not skipped else set()).add(tid)
os.remove(out)
broken = sorted(stable & failed)
missing = sorted(stable - passed - failed) if not sys.argv[1:] else []
print("stable_pass=%d passed=%d failed=%d  stable tests now failing=%d  stable tests not run=%d" % (len(stable), len(passed), len(failed), len(broken), len(missing)))
for t in broken[:20]: print("  BROKEN", t)
for t in missing[:10]: print("  MISSING", t)
sys.exit(1 if broken or missing else 0)
