#!/venv/bin/python
"""Regenerate the generated tables of DESIGN.md (between <!-- BEGIN:x --> / <!-- END:x --> markers) from
known_findings.json, seeded/*/meta.json + seeded/results.json, tools/mutants*.json and evidence/*.json."""
import glob
import json
import os
import re

V = os.path.dirname(os.path.dirname(os.path.abspath(__file__)))


def esc(s):
    return str(s).replace("|", "/").replace("\n", " ")


def findings_table():
    kf = json.load(open(V + "/known_findings.json"))["findings"]
    rows = ["| id | property | what failed | disposition |", "|---|---|---|---|"]
    for f in sorted(kf, key=lambda f: (f["property"], f["id"])):
        what = esc(f.get("what", ""))
        if len(what) > 420:
            what = what[:417] + "..."
        disp = ("**fixed** `/repo %s`" % f["commit"]) if f["status"] == "fixed" else "**known finding**"
        rows.append("| %s | %s | %s | %s |" % (f["id"], f["property"], what, disp))
    n_fixed = sum(1 for f in kf if f["status"] == "fixed")
    rows.append("")
    rows.append("%d findings: %d repaired by `fix:` commits in /repo, %d recorded as known findings." % (len(kf), n_fixed, len(kf) - n_fixed))
    return "\n".join(rows)


FIRST_MISSED = {
    "C01-3": "bookkeeping is now queried after every feed (history of look-ups and feeds)",
    "C01-6": "every chunk is handed over in an array of its own that is overwritten right after the call (reused stream buffer)",
    "C06-5": "new sub-check `integer_inputs` (int64/int32 arrays, integer Series, lists, python ints, with and without zeros == float-typed call)",
    "C09-4": "`lifetime_accumulation`: the same hystereses listed in a second row order (second pass first, interleaved, sorted by P, random) must give the same result",
    "C09-5": "`p_ram_value`: drawn row labels (duplicates as after pd.concat, shuffled, offset); output index == input index",
    "C09-6": "`load_safety_factors`: two-column (load_step, node_id) meshes whose second field is up to 1e4 times the load; gamma_L from the first column only",
    "C15-6": "`vector_call`: load_std arrays mixing exact zeros and positive entries == scalar calls",
    "C05-7": "`batch_vs_alone`: sequences ending in [p, q, r] with r strictly between zero and the first sample, so that the closure of (p, q) is carried into the second pass and booked to the first, followed by second-pass hystereses (the plain lists reached that class in 1 of 300 cases)",
    "C16-4": "`ro_masing`: reversal points of either sign (branches that start in compression), spans up to 2|max_stress|",
    "C17-5": "von Mises against the definition evaluated in rational arithmetic on the very components passed (16 eps), classes `pressure_plus_deviator` / `pressure_offset` (pressure 1e3-1e7 times the deviator)",
    "C09-8": "`lifetime_accumulation`: 1-3 assessment points with drawn row arrangements (hysteresis-major, point-major, interleaved), one point failing within the two passes next to a long-lived one; `cumulative_damage` column checked",
    "C04-9": "`second_pass_random`: the extreme load level reached several times with both signs, the samples differing by 1-3 ulps (0.1*3*1000 vs 300.0)",
    "C10-8": "`batch_independence`/`batch_sequence`: low-cycle class (12-40 large cycles at 2-4 R_m) in which the highest loaded point reaches damage sum 1 within the two recorded passes",
    "C10-9": "the per-node-maxima request passed as numpy bool or integer 1 as well as the literal True",
    "C13-7": "falsy string level names (name pool with the empty string) in `align_random` / `align_exhaustive`",
    "C13-8": "one held `Broadcaster` instance per object: broadcast, overwrite a value of the signal in place, broadcast again (`scalar_array`, `repeat_history`)",
    "C14-7": "collectives with repeated index labels (`dup_plain`, `dup_named`, `dup_multi`), both descriptions, with and without cycles; the held collective must keep exactly the rows it was made from",
    "C14-9": "int64-count histograms in `rebin_conserves`; the int64 output of `range_histogram` fed straight into `rebin_histogram`",
    "C18-7": "new sub-check `closed_int_cycles` (int64 / Int64 / int32 / uint32 cycle counts incl. small ones == float64 storage; cycles x 2^e)",
    "C18-8": "new sub-check `history_transition` (one FatigueData object: analyse, set the transition, analyse again == fresh object)",
    "C01-9": "every partition is fed a second time with each chunk in another container kind / dtype (float64, int64, list, float32, Series)",
    "C02-8": "the same signal at another order of magnitude (exact scaling by 2^200, 2^520, 2^-200) in `reference_random` / `fkm_random`",
    "C06-7": "new sub-check `sb_retry` (Seeger-Beste with K_p 20-50 at rtol = tol = 1e-10 on ramps of 50-120 loads, where the per-element retry of the vectorised secant is entered)",
    "C20-7": "new sub-check `sparse_sets` (widely spread node / element ids, shared nodes, sets of 24-60 members stored in scrambled order)",
    "C02-1": "signal kind `decimal` (values single precision cannot represent, with exact ties)",
    "C02-3": "operator `near_plateau` (neighbour 1 ulp / 1e-12 / 1e-9 away: no plateau)",
    "C03-3": "new sub-check `nan_chunked` (NaN clause combined with chunked feeding)",
    "C05-2": "reference over 2-4 passes (pass numbers beyond 2)",
    "C05-3": "edge-rich batches: integer loads with |max| = number of bins, every load and range on a class edge",
    "C07-1": "new sub-check `setter_history` (law object changed through its public setters between builds)",
    "C09-2": "assessment-point labels other than 0..n-1 in `lifetime_accumulation`",
    "C10-1": "long plateaus (3-5 equal samples) at the end of refined sequences; 64 cases",
    "C10-2": "per-point gradients large enough for n_bm > 1 (G = 5, 12, 30)",
    "C10-3": "new sub-check `batch_sequence` (call history: second batch with same parameters and largest point)",
    "C15-1": "tolerance tightened from 1e-3 relative to the conditioning bound of a correct double evaluation of Phi(z)",
    "C15-2": "new sub-check `vector_call` (array arguments == scalar calls)",
    "C16-2": "integer-typed containers (python int, np.int64, integer arrays, lists of ints) in all Ramberg-Osgood / Hooke sub-checks",
    "C17-3": "call-history relation in `accessor`: evaluate, derive a frame through pandas, evaluate again",
    "C19-1": "mixed tet + brick meshes (both element orders) in both gradient sub-checks",
    "C19-3": "new sub-check `mapping_held_accessor` (two sources with equal index through one held accessor)",
    "C13-1": "placeholder-looking level names (`level_0`, `index`, ...) next to unnamed levels",
    "C13-2": "same name set in different level order with positionally coinciding tuples in `woehler_downstream`",
    "C18-1": "duplicated / non-default row labels in `zones` and the permutation relation",
    "C18-2": "call-history sub-check: series B analysed after a one-mixed-level series A == B in a fresh state",
}


SEED_DEPENDENT = {
    "C20-1": "mixed meshes whose mean node count equals that of the lowest-id element are constructed on purpose after added generator classes had shifted the random stream",
    "C20-2": "a node set and an element set with the same name on one geometry, both filtered through one held importer in both orders, is now constructed on purpose (about 30 cases per run instead of 3-7); detected at seeds 1-3",
    "C14-5": "nested source classes (coarse classes lying over several fine ones) drawn in half of the 1-D cases after added generator classes had shifted the random stream; detected at seeds 1-3",
}


def seeded_table():
    res = {}
    rp = V + "/seeded/results.json"
    if os.path.exists(rp):
        res = json.load(open(rp))
    rows = ["| id | property | files | what the change does / what it needs to manifest | repo tests with the change | result (quick tier) | caught by |",
            "|---|---|---|---|---|---|---|"]
    n = det = 0
    for d in sorted(glob.glob(V + "/seeded/*/meta.json")):
        sid = os.path.basename(os.path.dirname(d))
        m = json.load(open(d))
        r = res.get(sid, {})
        what = esc(m.get("what", ""))
        needs = esc(m.get("needs", ""))
        txt = what[:260] + ("..." if len(what) > 260 else "")
        if needs:
            txt += " *Needs:* " + needs[:200] + ("..." if len(needs) > 200 else "")
        files = ", ".join(os.path.basename(f) for f in m.get("files", []))
        tests = "stable tests unaffected" if r.get("stable_tests_broken") == 0 else ("%s stable tests broken" % r.get("stable_tests_broken") if "stable_tests_broken" in r else "see meta")
        check = r.get("check", "not run")
        if sid in FIRST_MISSED:
            check += " (missed at first; strengthened: %s)" % FIRST_MISSED[sid]
        if sid in SEED_DEPENDENT:
            check += " (detection was seed dependent; strengthened: %s)" % SEED_DEPENDENT[sid]
        if m.get("neutralised_by"):
            check = "DETECTED before a later repair of /repo; **neutralised by it**: " + esc(m["neutralised_by"])[:330]
        if m.get("outside_properties"):
            check += " - **outside the listed properties**: " + esc(m["outside_properties"])[:400]
        by = esc(r.get("by", ""))[:150]
        rows.append("| %s | %s | %s | %s | %s | %s | %s |" % (sid, m.get("property"), files, txt, tests, check, by))
        n += 1
        det += 1 if (r.get("check") == "DETECTED" and not m.get("neutralised_by")) else 0
    rows.append("")
    rows.append("%d seeded changes kept, %d detected by the quick tier of the registered checks at seed 1 (%d of them only after the check was strengthened); "
                "%d are recorded as outside the listed properties, %d were neutralised by a later repair of /repo." % (
        n, det, sum(1 for k in FIRST_MISSED if res.get(k, {}).get("check") == "DETECTED"),
        sum(1 for d in glob.glob(V + "/seeded/*/meta.json") if json.load(open(d)).get("outside_properties")),
        sum(1 for d in glob.glob(V + "/seeded/*/meta.json") if json.load(open(d)).get("neutralised_by"))))
    return "\n".join(rows)


def mutants_table():
    muts = json.load(open(V + "/tools/mutants.json"))
    for fn in sorted(glob.glob(V + "/tools/mutants.d/*.json")):
        muts += json.load(open(fn))
    by = {}
    for m in muts:
        by.setdefault(m["property"], []).append(m)
    rows = ["| property | hand-written mutants | files touched |", "|---|---|---|"]
    for p in sorted(by):
        files = sorted(set(os.path.basename(m["file"]) for m in by[p]))
        rows.append("| %s | %d | %s |" % (p, len(by[p]), ", ".join(files)))
    rows.append("")
    rows.append("%d mutants in total; `tools/mutation_run.py --prop Cxx` re-runs them (all are killed by the quick tier; mutants that "
                "turned out to be behaviourally equivalent under the property were replaced and are named in the builders' notes in the JSON files)." % len(muts))
    return "\n".join(rows)


def evidence_table():
    rows = ["| property | sub-checks | evaluations | distinct non-trivial | wall s | known findings reported |", "|---|---|---|---|---|---|"]
    for fn in sorted(glob.glob(V + "/evidence/C*.json")):
        e = json.load(open(fn))
        c = e["coverage"]
        kfl = [l.split()[2] for l in c.get("known_findings_reported", [])]
        rows.append("| %s | %d | %d | %d | %.0f | %s |" % (e["property_id"], len([k for k in c["per_subcheck"] if k != "replay"]), c["evaluations"],
                                                         c["distinct_nontrivial"], e["wall_s"], ", ".join(kfl) or "-"))
    return "\n".join(rows)


def main():
    p = V + "/DESIGN.md"
    s = open(p).read()
    for key, fn in (("findings", findings_table), ("seeded", seeded_table), ("mutants", mutants_table), ("evidence", evidence_table)):
        pat = re.compile(r"(<!-- BEGIN:%s -->\n)(.*?)(<!-- END:%s -->)" % (key, key), re.S)
        if not pat.search(s):
            print("marker for", key, "not found")
            continue
        s = pat.sub(lambda m: m.group(1) + fn() + "\n" + m.group(3), s)
    open(p, "w").write(s)
    print("DESIGN.md tables regenerated")


if __name__ == "__main__":
    main()
