#!/venv/bin/python
"""Import breaker output /tmp/out-<cNN>/change<k>.diff, demo<k>.py, meta<k>.json into /verif/seeded/<CNN>-<k>/."""
import json, os, shutil, sys
src, prop = sys.argv[1], sys.argv[2]
tests = sys.argv[3:] 
for k in (1, 2, 3, 4):
    d = os.path.join(src, "change%d.diff" % k)
    if not os.path.exists(d):
        continue
    out = "/verif/seeded/%s-%d" % (prop, k + int(os.environ.get("SEED_OFFSET", "0")))
    os.makedirs(out, exist_ok=True)
    shutil.copy(d, out + "/patch.diff")
    shutil.copy(os.path.join(src, "demo%d.py" % k), out + "/demo.py")
    mp = os.path.join(src, "meta%d.json" % k)
    meta = json.load(open(mp)) if os.path.exists(mp) else {}
    meta.update({"property": prop, "demo": "demo.py", "tests": tests or meta.get("tests", []), "origin": "fresh sub-agent given only the property text and a scratch worktree"})
    if "files" not in meta:
        meta["files"] = [l[6:].strip() for l in open(d) if l.startswith("+++ b/")]
    json.dump(meta, open(out + "/meta.json", "w"), indent=1)
    print(out, meta.get("files"))
