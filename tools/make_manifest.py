#!/venv/bin/python
"""Regenerate MANIFEST.json from tools/manifest_src.json (claimed checks + not_applicable) and validate it."""
import json, os, sys
VERIF = os.path.dirname(os.path.dirname(os.path.abspath(__file__)))
src = json.load(open(os.path.join(VERIF, "tools", "manifest_src.json")))
props = [json.loads(l) for l in open(os.path.join(VERIF, "properties.jsonl"))]
ids = [p["id"] for p in props]
checks = []
for pid in ids:
    c = src["checks"].get(pid)
    if not c:
        continue
    checks.append({
        "property_id": pid,
        "quick_cmd": "/venv/bin/python -m vp.run --property %s --tier quick" % pid,
        "thorough_cmd": "/venv/bin/python -m vp.run --property %s --tier thorough" % pid,
        "evidence_file": "/verif/evidence/%s.json" % pid,
        "replay_cmd_template": "/venv/bin/python -m vp.run --property %s --replay {path}" % pid,
        "engine": "vp",
        "level_claimed": {"category": "exploration", "text": c["text"], "design_ref": "DESIGN.md section 3, %s" % pid},
        "level_note": c["note"],
        "technique": c["technique"],
    })
na = [{"property_id": pid, "reason": src["not_applicable"].get(pid, "check not built yet in this round (planned, see DESIGN.md section 3)")}
      for pid in ids if pid not in src["checks"]]
m = {
    "version": 1,
    "setup_cmd": "/venv/bin/python -m vp.setup",
    "hooks": {"guard": "PYLIFE_VERIF", "enable": "no source hooks are needed: every property is observed through public API; checks import /repo/src directly and rebuild the Cython kernel from the working tree",
              "baseline_off_cmd": "cd /repo && /venv/bin/python -m pytest -ra -q -p no:cacheprovider --timeout=900 --continue-on-collection-errors",
              "source_commits": [], "add_only": True},
    "engines": [{"name": "vp", "path": "/verif/vp", "serves_properties": [c["property_id"] for c in checks],
                 "kind_free_text": "Hypothesis-driven generated-input search (sharded over 16 processes), bounded-exhaustive enumeration of small domains, reference models / metamorphic oracles, replay files"}],
    "checks": checks,
    "notes": src.get("notes", ""),
    "not_applicable": na,
}
json.dump(m, open(os.path.join(VERIF, "MANIFEST.json"), "w"), indent=1)
try:
    import jsonschema
    jsonschema.validate(m, json.load(open("/root/.vp/MANIFEST.schema.json")))
    print("MANIFEST.json valid;", len(checks), "checks,", len(na), "not claimed")
except ImportError:
    print("jsonschema not available; written unvalidated")
