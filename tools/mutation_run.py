#!/venv/bin/python
"""Sensitivity validation: apply a deliberate break to a scratch copy of the repository
sources and expect the property's check to report a violation.

usage: tools/mutation_run.py [--tier quick] [--tests] [--only ID[,ID]] [--prop Cxx]

Mutants live in tools/mutants.json: {id, property, file, find, replace, note, tests?}.
The scratch copy lives under /tmp/vp-mut-<pid> and is removed afterwards; nothing is
written to /repo, and failing cases / evidence of these runs go to the scratch dir.
"""
import argparse, json, os, shutil, subprocess, sys, time

VERIF = os.path.dirname(os.path.dirname(os.path.abspath(__file__)))


def main():
    ap = argparse.ArgumentParser()
    ap.add_argument("--tier", default="quick")
    ap.add_argument("--tests", action="store_true", help="also run the mutant's listed repo tests (they must pass)")
    ap.add_argument("--only")
    ap.add_argument("--prop")
    ap.add_argument("--scale", default="1")
    args = ap.parse_args()
    muts = json.load(open(os.path.join(VERIF, "tools", "mutants.json")))
    md = os.path.join(VERIF, "tools", "mutants.d")
    for fn in sorted(os.listdir(md)) if os.path.isdir(md) else []:
        if fn.endswith(".json"):
            muts += json.load(open(os.path.join(md, fn)))
    if args.only:
        ids = set(args.only.split(","))
        muts = [m for m in muts if m["id"] in ids]
    if args.prop:
        muts = [m for m in muts if m["property"] == args.prop]
    results = []
    for m in muts:
        scratch = "/tmp/vp-mut-%d" % os.getpid()
        shutil.rmtree(scratch, ignore_errors=True)
        os.makedirs(scratch)
        try:
            shutil.copytree("/repo/src", scratch + "/src", ignore=shutil.ignore_patterns("__pycache__"))
            path = os.path.join(scratch, "src", m["file"])
            text = open(path).read()
            if text.count(m["find"]) != m.get("count", 1):
                results.append((m["id"], "BAD-PATCH (find matches %d times)" % text.count(m["find"]), 0))
                continue
            open(path, "w").write(text.replace(m["find"], m["replace"]))
            env = dict(os.environ, VP_REPO=scratch, VP_FOUND_DIR=scratch + "/found", VP_EVIDENCE_DIR=scratch + "/evidence",
                       VP_SCALE=args.scale)
            tests_ok = None
            if args.tests and m.get("tests"):
                if m["file"].endswith(".pyx"):
                    so = subprocess.run(["/venv/bin/python", "-c", "from vp import build; print(build.kernel_path())"],
                                        cwd=VERIF, env=env, capture_output=True, text=True).stdout.strip().splitlines()[-1]
                    for fn in os.listdir(scratch + "/src/pylife"):
                        if fn.startswith("rainflow_ext") and fn.endswith(".so"):
                            shutil.copy(so, scratch + "/src/pylife/" + fn)
                shutil.copytree("/repo/tests", scratch + "/tests", ignore=shutil.ignore_patterns("__pycache__"))
                for fn in ("setup.cfg", "pyproject.toml"):
                    shutil.copy("/repo/" + fn, scratch + "/" + fn)
                xml = scratch + "/junit.xml"
                r = subprocess.run(["/venv/bin/python", "-m", "pytest", "-q", "-p", "no:cacheprovider", "-n", "8", "--junitxml=" + xml] + m["tests"],
                                   cwd=scratch, env=dict(env, PYTHONPATH=scratch + "/src"), capture_output=True, text=True)
                import xml.etree.ElementTree as ET
                stable = set(json.load(open("/root/.vp/BASELINE.json"))["stable_pass"])
                broken = []
                for tc in ET.parse(xml).getroot().iter("testcase"):
                    tid = "%s::%s" % (tc.get("classname"), tc.get("name"))
                    if tid in stable and any(ch.tag in ("failure", "error") for ch in tc):
                        broken.append(tid)
                tests_ok = not broken
                if broken:
                    print("   stable tests broken by the mutant:", broken[:3])
            t0 = time.time()
            r = subprocess.run(["/venv/bin/python", "-m", "vp.run", "--property", m["property"], "--tier", args.tier],
                               cwd=VERIF, env=env, capture_output=True, text=True)
            dt = time.time() - t0
            verdict = {1: "KILLED", 0: "SURVIVED", 2: "HARNESS-ERROR"}.get(r.returncode, "rc=%d" % r.returncode)
            first = next((l for l in r.stdout.splitlines() if l.startswith("  sub-check")), "")
            if r.returncode not in (0, 1):
                print(r.stdout[-800:], r.stderr[-1500:])
            results.append((m["id"], verdict + ("" if tests_ok is None else " tests_pass=%s" % tests_ok), dt, first.strip()[:150]))
        finally:
            shutil.rmtree(scratch, ignore_errors=True)
        print(*results[-1], flush=True)
    bad = [r for r in results if not r[1].startswith("KILLED")]
    print("%d mutants, %d killed" % (len(results), len(results) - len(bad)))
    return 1 if bad else 0


if __name__ == "__main__":
    sys.exit(main())
