#!/venv/bin/python
"""Small helpers to register findings and manifest entries (development tool).
  reg.py finding <id> <property> fixed <commit> "<what failed>" [subcheck] [class]
  reg.py finding <id> <property> known "<what fails>" [subcheck] [class]
  reg.py check <property> "<technique>" "<level text>" "<level note>"
"""
import json, os, sys
V = os.path.dirname(os.path.dirname(os.path.abspath(__file__)))
def finding(a):
    fid, prop, status = a[0], a[1], a[2]
    kf = json.load(open(V + "/known_findings.json"))
    kf["findings"] = [f for f in kf["findings"] if f["id"] != fid]
    if status == "fixed":
        commit, what = a[3], a[4]; rest = a[5:]
        e = {"id": fid, "property": prop, "status": "fixed", "commit": commit,
             "line": "fixed: property=%s %s %s" % (prop, commit, what), "what": what}
    else:
        what = a[3]; rest = a[4:]
        e = {"id": fid, "property": prop, "status": "known", "what": what}
    if rest: e["subcheck"] = rest[0]
    if len(rest) > 1: e["class"] = rest[1]
    # attach witnesses from replays
    rd = V + "/replays/" + prop
    w = []
    for fn in sorted(os.listdir(rd)) if os.path.isdir(rd) else []:
        if fn.endswith(".json"):
            d = json.load(open(os.path.join(rd, fn)))
            if d.get("expect") == "finding:" + fid:
                w.append("replays/%s/%s" % (prop, fn))
    e["witness_files"] = w
    kf["findings"].append(e)
    json.dump(kf, open(V + "/known_findings.json", "w"), indent=1)
    print("registered", fid, status, "witnesses:", w)
def check(a):
    prop, tech, text, note = a
    p = V + "/tools/manifest_src.json"
    m = json.load(open(p))
    m["checks"][prop] = {"technique": tech, "text": text, "note": note}
    json.dump(m, open(p, "w"), indent=1)
    os.system("/venv/bin/python %s/tools/make_manifest.py" % V)
{"finding": finding, "check": check}[sys.argv[1]](sys.argv[2:])
