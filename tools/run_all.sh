#!/bin/bash
# usage: tools/run_all.sh [tier] [seed]      runs every registered check in /verif against /repo, prints one line per property.
# With seed 1 (default) the evidence files under /verif/evidence are rewritten; other seeds write to a scratch evidence dir.
cd "$(dirname "$0")/.."
tier=${1:-quick}; seed=${2:-1}
if [ "$seed" != "1" ]; then export VP_EVIDENCE_DIR=/tmp/vp-evidence-seed$seed; fi
rc=0
for p in $(/venv/bin/python -c "import json;print(' '.join(c['property_id'] for c in json.load(open('MANIFEST.json'))['checks']))"); do
  out=$(VERIF_SEED=$seed /venv/bin/python -m vp.run --property $p --tier $tier 2>&1); code=$?
  echo "$p seed=$seed exit=$code $(echo "$out" | grep -E "tier=" | sed 's/.*evaluations/evaluations/')"
  echo "$out" | grep -E "^VIOLATION|^HARNESS|^  sub-check" | cut -c1-300
  if [ $code -ne 0 ]; then rc=1; fi
done
[ "$seed" != "1" ] && rm -rf /tmp/vp-evidence-seed$seed
exit $rc
