#!/venv/bin/python
"""Run the registered checks against the seeded breaking changes kept under /verif/seeded/<id>/.

For each seeded change: copy /repo's sources to a scratch tree under /tmp, apply patch.diff there, then
  (a) run the demonstration (must FAIL with the change; with --verify also: must PASS on the unchanged sources),
  (b) with --tests run the repository tests named in meta.json against the changed tree (must not break stable tests),
  (c) run the property's check (quick tier by default) with VP_REPO pointing at the scratch tree: expect exit 1.
The scratch tree is removed afterwards.  Nothing is written to /repo.

usage: tools/seeded_run.py [--only id[,id]] [--tier quick|thorough] [--verify] [--tests] [--seed N]
"""
import argparse, json, os, shutil, subprocess, sys, time
VERIF = os.path.dirname(os.path.dirname(os.path.abspath(__file__)))
SEEDED = os.path.join(VERIF, "seeded")


def scratch_tree(patch=None):
    d = "/tmp/vp-seed-%d" % os.getpid()
    shutil.rmtree(d, ignore_errors=True)
    os.makedirs(d)
    shutil.copytree("/repo/src", d + "/src", ignore=shutil.ignore_patterns("__pycache__"))
    shutil.copytree("/repo/tests", d + "/tests", ignore=shutil.ignore_patterns("__pycache__"))
    for fn in ("setup.cfg", "pyproject.toml"):
        shutil.copy("/repo/" + fn, d + "/" + fn)
    if patch:
        r = subprocess.run(["patch", "-p1", "-s", "-d", d, "-i", patch], capture_output=True, text=True)
        if r.returncode != 0:
            raise RuntimeError("patch does not apply: " + r.stdout + r.stderr)
    return d


def rebuild_kernel_into(d, env):
    so = subprocess.run(["/venv/bin/python", "-c", "from vp import build; print(build.kernel_path())"], cwd=VERIF, env=env,
                        capture_output=True, text=True).stdout.strip().splitlines()[-1]
    for fn in os.listdir(d + "/src/pylife"):
        if fn.startswith("rainflow_ext") and fn.endswith(".so"):
            shutil.copy(so, d + "/src/pylife/" + fn)


def main():
    ap = argparse.ArgumentParser()
    ap.add_argument("--only"); ap.add_argument("--tier", default="quick"); ap.add_argument("--verify", action="store_true")
    ap.add_argument("--tests", action="store_true"); ap.add_argument("--seed", default="1"); ap.add_argument("--scale", default="1")
    a = ap.parse_args()
    ids = sorted(x for x in os.listdir(SEEDED) if os.path.isdir(os.path.join(SEEDED, x)) and os.path.exists(os.path.join(SEEDED, x, "meta.json")))
    if a.only:
        ids = [i for i in ids if i in a.only.split(",")]
    rows = []
    for sid in ids:
        sd = os.path.join(SEEDED, sid)
        meta = json.load(open(os.path.join(sd, "meta.json")))
        prop = meta["property"]
        row = {"id": sid, "property": prop}
        d = None
        try:
            if a.verify:
                d0 = scratch_tree(None)
                r = subprocess.run(["/venv/bin/python", os.path.join(sd, meta.get("demo", "demo.py"))], env=dict(os.environ, PYTHONPATH=d0 + "/src"),
                                   capture_output=True, text=True, cwd=d0)
                row["demo_on_unchanged"] = "pass" if r.returncode == 0 else "FAIL"
                shutil.rmtree(d0, ignore_errors=True)
            d = scratch_tree(os.path.join(sd, "patch.diff"))
            env = dict(os.environ, VP_REPO=d, VP_FOUND_DIR=d + "/found", VP_EVIDENCE_DIR=d + "/evidence", VERIF_SEED=a.seed, VP_SCALE=a.scale)
            if any(f.endswith(".pyx") for f in meta.get("files", [])):
                rebuild_kernel_into(d, env)
            r = subprocess.run(["/venv/bin/python", os.path.join(sd, meta.get("demo", "demo.py"))], env=dict(os.environ, PYTHONPATH=d + "/src"),
                               capture_output=True, text=True, cwd=d)
            row["demo_with_change"] = "fails" if r.returncode != 0 else "PASSES"
            if a.tests and meta.get("tests"):
                xml = d + "/junit.xml"
                subprocess.run(["/venv/bin/python", "-m", "pytest", "-q", "-p", "no:cacheprovider", "-n", "8", "--junitxml=" + xml] + meta["tests"],
                               cwd=d, env=dict(os.environ, PYTHONPATH=d + "/src"), capture_output=True, text=True)
                import xml.etree.ElementTree as ET
                stable = set(json.load(open("/root/.vp/BASELINE.json"))["stable_pass"])
                broken = [("%s::%s" % (tc.get("classname"), tc.get("name"))) for tc in ET.parse(xml).getroot().iter("testcase")
                          if ("%s::%s" % (tc.get("classname"), tc.get("name"))) in stable and any(ch.tag in ("failure", "error") for ch in tc)]
                row["stable_tests_broken"] = len(broken)
            t0 = time.time()
            # the property the change was seeded against, plus related properties whose checks are documented to see it
            for cp in [prop] + [c for c in meta.get("also_checked_by", []) if c != prop]:
                r = subprocess.run(["/venv/bin/python", "-m", "vp.run", "--property", cp, "--tier", a.tier], cwd=VERIF, env=env, capture_output=True, text=True)
                verdict = {1: "DETECTED", 0: "MISSED", 2: "HARNESS-ERROR"}.get(r.returncode, "rc=%d" % r.returncode)
                row.setdefault("per_check", {})[cp] = verdict
                if verdict == "DETECTED" or "check" not in row:
                    row["check"] = verdict
                    row["by"] = cp + ": " + next((l.strip()[:160] for l in r.stdout.splitlines() if l.startswith("  sub-check")), "")
                if r.returncode == 2:
                    row["stderr"] = r.stderr[-600:]
                if verdict == "DETECTED":
                    break
            row["wall_s"] = round(time.time() - t0, 1)
        except Exception as e:  # noqa
            row["error"] = str(e)[:300]
        finally:
            if d:
                shutil.rmtree(d, ignore_errors=True)
        rows.append(row)
        print(json.dumps(row), flush=True)
        if a.tier == "quick":
            rp = os.environ.get("VP_SEEDED_RESULTS", os.path.join(SEEDED, "results.json"))
            try:
                allr = json.load(open(rp))
            except Exception:  # noqa
                allr = {}
            keep = {k: v for k, v in row.items() if k not in ("stderr",)}
            if "demo_on_unchanged" not in keep and sid in allr:
                for k in ("demo_on_unchanged", "stable_tests_broken"):
                    if k in allr[sid]:
                        keep.setdefault(k, allr[sid][k])
            allr[sid] = keep
            json.dump(allr, open(rp, "w"), indent=1, sort_keys=True)
    missed = [r for r in rows if r.get("check") != "DETECTED"]
    print("%d seeded changes, %d detected" % (len(rows), len(rows) - len(missed)))
    return 1 if missed else 0


if __name__ == "__main__":
    sys.exit(main())
