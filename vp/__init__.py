"""Verification machinery for the 20 pyLife properties (property-based testing / fuzzing)."""
