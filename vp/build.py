"""Locate the code under test and rebuild the Cython rainflow kernel from it.

The repository is used from its working tree (``/repo/src`` or ``$VP_REPO/src``).
The compiled kernel ``pylife.rainflow_ext`` is rebuilt from the working-tree
``extension.pyx`` (cached by content hash under ``/verif/.build``) and loaded
under its module name *before* ``pylife.stress.rainflow`` is imported, so a
stale ``.so`` lying in the source tree is never used.
"""

import hashlib
import importlib.machinery
import importlib.util
import os
import re
import subprocess
import sys
import sysconfig

VERIF = os.path.dirname(os.path.dirname(os.path.abspath(__file__)))
REPO = os.environ.get("VP_REPO", "/repo")
SRC = os.path.join(REPO, "src")
BUILD = os.path.join(VERIF, ".build")
PYX = os.path.join(SRC, "pylife", "stress", "rainflow", "extension.pyx")


def use_repo():
    """Make ``import pylife`` resolve to the tree under test."""
    if SRC in sys.path:
        sys.path.remove(SRC)
    sys.path.insert(0, SRC)
    deps = os.path.join(VERIF, ".deps")
    if os.path.isdir(deps) and deps not in sys.path:
        sys.path.append(deps)


def _strip_unchecked(text):
    """The 'checked' variant: bounds checking and wraparound left on."""
    text = re.sub(r"^@cython\.boundscheck\(False\).*$", "", text, flags=re.M)
    text = re.sub(r"^@cython\.wraparound\(False\).*$", "", text, flags=re.M)
    return text


def kernel_path(variant="plain"):
    with open(PYX, "rb") as f:
        raw = f.read()
    sha = hashlib.sha256(raw + variant.encode() + sys.version.encode()).hexdigest()[:20]
    d = os.path.join(BUILD, sha)
    so = os.path.join(d, "rainflow_ext.so")
    if os.path.exists(so):
        return so
    os.makedirs(d, exist_ok=True)
    tmp = os.path.join(d, "tmp-%d" % os.getpid())
    os.makedirs(tmp, exist_ok=True)
    text = raw.decode()
    if variant == "checked":
        text = _strip_unchecked(text)
    pyx = os.path.join(tmp, "rainflow_ext.pyx")
    with open(pyx, "w") as f:
        f.write(text)
    import numpy
    subprocess.run([sys.executable, "-m", "cython", "-3", pyx], check=True,
                   stdout=subprocess.PIPE, stderr=subprocess.PIPE)
    cfile = os.path.join(tmp, "rainflow_ext.c")
    out = os.path.join(tmp, "rainflow_ext.so")
    subprocess.run(["gcc", "-O2", "-shared", "-fPIC", "-w",
                    "-I" + sysconfig.get_paths()["include"],
                    "-I" + numpy.get_include(), cfile, "-o", out], check=True,
                   stdout=subprocess.PIPE, stderr=subprocess.PIPE)
    os.replace(out, so)
    for fn in os.listdir(tmp):
        os.remove(os.path.join(tmp, fn))
    os.rmdir(tmp)
    return so


def load_kernel(variant="plain"):
    """Build (if needed) and load the kernel as ``pylife.rainflow_ext``."""
    use_repo()
    so = kernel_path(variant)
    import pylife  # noqa: F401  (package must exist before the submodule is registered)
    if "pylife.stress.rainflow" in sys.modules and variant != getattr(sys.modules.get("pylife.rainflow_ext"), "_vp_variant", None):
        raise RuntimeError("pylife.stress.rainflow imported before the kernel was loaded")
    loader = importlib.machinery.ExtensionFileLoader("pylife.rainflow_ext", so)
    spec = importlib.util.spec_from_file_location("pylife.rainflow_ext", so, loader=loader)
    mod = importlib.util.module_from_spec(spec)
    loader.exec_module(mod)
    mod._vp_variant = variant
    sys.modules["pylife.rainflow_ext"] = mod
    pylife.rainflow_ext = mod
    return mod
