"""Sub-check registry, sharded Hypothesis driver, evidence and exit codes.

A property is a conjunction of clauses; each clause is a *sub-check*:

    @subcheck("C01", "chunked_threepoint", strategy=lambda tier: ..., quick=4000, thorough=200000)
    def run(case, ctx): ...   # plain function, raises Violation

``case`` is a JSON-serialisable value produced by a Hypothesis strategy (or by
an exhaustive enumerator), so that a saved case replays without the library.
All random choices come from Hypothesis; the seed of worker i is derived from
VERIF_SEED, the property, the sub-check and i.
"""

import hashlib
import itertools
import json
import math
import multiprocessing
import os
import sys
import time
import traceback

from . import build

VERIF = build.VERIF
REPLAYS = os.path.join(VERIF, "replays")
FOUND = os.environ.get("VP_FOUND_DIR")          # where new failing cases are written (default replays/<id>/found)
EVIDENCE = os.environ.get("VP_EVIDENCE_DIR", os.path.join(VERIF, "evidence"))
KNOWN_FILE = os.path.join(VERIF, "known_findings.json")

REGISTRY = {}          # property -> {name: Subcheck}
NT_RULES = {}          # property -> text of the non-trivial rule


class Violation(Exception):
    """The property does not hold for this case."""

    def __init__(self, msg, bucket=None, **details):
        super().__init__(msg)
        self.msg = msg
        self.bucket = bucket or msg.split(":")[0][:60]
        self.details = details


class Skip(Exception):
    """Case is outside the domain of the clause (counted as a discard)."""


class HarnessError(Exception):
    pass


class Ctx:
    def __init__(self, known_active):
        self.labels = set()
        self.is_nontrivial = False
        self._known_active = known_active
        self.excluded = []
        self.tolerated = []

    def label(self, *names):
        self.labels.update(names)

    def nontrivial(self, flag=True):
        if flag:
            self.is_nontrivial = True

    def skip(self, reason):
        raise Skip(reason)

    def known(self, fid):
        """True if finding ``fid`` is listed as *known* (not fixed): the caller then
        routes the case to the exclusion counter instead of the oracle."""
        if fid in self._known_active:
            self.excluded.append(fid)
            return True
        return False

    def tolerate(self, what):
        """Count an outcome the contract allows (e.g. a documented exception)."""
        self.tolerated.append(what)


class Subcheck:
    def __init__(self, prop, name, run, strategy=None, enumerate_=None, quick=0, thorough=0,
                 shards=16, doc="", setup=None, crash_guard=False, fuzz=None):
        self.crash_guard = crash_guard
        self.fuzz = fuzz           # fuzz(case_bytes) -> case : decoder for the atheris (coverage-guided) driver
        self.prop, self.name, self.run = prop, name, run
        self.strategy, self.enumerate = strategy, enumerate_
        self.budget = {"quick": quick, "thorough": thorough}
        self.shards = shards
        self.doc = doc
        self.setup = setup


def subcheck(prop, name, strategy=None, enumerate_=None, quick=0, thorough=0, shards=16, doc="",
             setup=None, crash_guard=False, fuzz=None):
    def deco(fn):
        REGISTRY.setdefault(prop, {})[name] = Subcheck(prop, name, fn, strategy, enumerate_,
                                                       quick, thorough, shards, doc, setup, crash_guard, fuzz)
        return fn
    return deco


def nontrivial_rule(prop, text):
    NT_RULES[prop] = text


# ---------------------------------------------------------------------------

def jsonable(x):
    import numpy as np
    if isinstance(x, dict):
        return {str(k): jsonable(v) for k, v in x.items()}
    if isinstance(x, (list, tuple)):
        return [jsonable(v) for v in x]
    if isinstance(x, (np.integer,)):
        return int(x)
    if isinstance(x, (np.floating,)):
        return float(x)
    if isinstance(x, np.bool_):
        return bool(x)
    if isinstance(x, np.ndarray):
        return jsonable(x.tolist())
    return x


def case_digest(case):
    return hashlib.sha1(json.dumps(jsonable(case), sort_keys=True).encode()).hexdigest()[:16]


def derive_seed(seed, *parts):
    h = hashlib.sha256(("%d|" % seed + "|".join(str(p) for p in parts)).encode()).digest()
    return int.from_bytes(h[:8], "big")


def load_known():
    if not os.path.exists(KNOWN_FILE):
        return []
    with open(KNOWN_FILE) as f:
        return json.load(f).get("findings", [])


def _in_pylife(tb):
    for fr in traceback.extract_tb(tb):
        fn = fr.filename.replace("\\", "/")
        if "/pylife/" in fn and "/vp/" not in fn:
            return True
    return False


def _innermost_pylife_frame(tb):
    last = None
    for fr in traceback.extract_tb(tb):
        if "/pylife/" in fr.filename:
            last = "%s:%s" % (os.path.basename(fr.filename), fr.name)
    return last


def execute(sc, case, known_active):
    """Run one case. Returns (status, ctx, info) with status in ok/skip/violation/error."""
    ctx = Ctx(known_active)
    if sc.crash_guard:
        _note_current(case)
    try:
        sc.run(case, ctx)
        return "ok", ctx, None
    except Skip as s:
        return "skip", ctx, str(s)
    except Violation as v:
        return "violation", ctx, {"msg": v.msg, "bucket": v.bucket, "details": jsonable(v.details)}
    except (KeyboardInterrupt, SystemExit, MemoryError):
        raise
    except Exception as e:  # noqa
        tb = sys.exc_info()[2]
        text = "".join(traceback.format_exception(type(e), e, tb))[-3000:]
        if _in_pylife(tb):
            return "violation", ctx, {
                "msg": "unexpected %s from pyLife: %s" % (type(e).__name__, str(e)[:300]),
                "bucket": "exc:%s@%s" % (type(e).__name__, _innermost_pylife_frame(tb)),
                "details": {"traceback": text}}
        return "error", ctx, text


class Stats:
    def __init__(self):
        self.evaluations = 0
        self.nontrivial = set()
        self.discards = {}
        self.labels = {}
        self.excluded = {}
        self.tolerated = {}
        self.samples = []
        self.failures = {}     # bucket -> {case, info}
        self.errors = []
        self.exhaustive = False
        self.wall = 0.0

    def note(self, case, status, ctx, info, digest=None):
        self.evaluations += 1
        for fid in ctx.excluded:
            self.excluded[fid] = self.excluded.get(fid, 0) + 1
        for t in ctx.tolerated:
            self.tolerated[t] = self.tolerated.get(t, 0) + 1
        if status == "skip":
            self.discards[info] = self.discards.get(info, 0) + 1
            return
        for lab in ctx.labels:
            self.labels[lab] = self.labels.get(lab, 0) + 1
        if status == "error":
            if len(self.errors) < 3:
                self.errors.append({"case": jsonable(case), "traceback": info})
            return
        if ctx.is_nontrivial and not ctx.excluded:
            d = digest or case_digest(case)
            if d not in self.nontrivial:
                self.nontrivial.add(d)
                if len(self.samples) < 2:
                    self.samples.append(jsonable(case))
        if status == "violation":
            b = info["bucket"]
            size = len(json.dumps(jsonable(case)))
            old = self.failures.get(b)
            if old is None or size < old["size"]:
                self.failures[b] = {"case": jsonable(case), "info": info, "size": size}

    def merge(self, o):
        self.evaluations += o.evaluations
        self.nontrivial |= o.nontrivial
        for a, b in ((self.discards, o.discards), (self.labels, o.labels), (self.excluded, o.excluded),
                     (self.tolerated, o.tolerated)):
            for k, v in b.items():
                a[k] = a.get(k, 0) + v
        self.samples = (self.samples + o.samples)[:3]
        for b, f in o.failures.items():
            if b not in self.failures or f["size"] < self.failures[b]["size"]:
                self.failures[b] = f
        self.errors = (self.errors + o.errors)[:3]
        self.wall = max(self.wall, o.wall)


def _import_prop(prop):
    build.use_repo()
    import importlib
    importlib.import_module("vp.props.%s" % prop.lower())


_CURRENT = {"path": None}


def _note_current(case):
    """Crash guard: remember the case being executed so that a dying worker leaves a witness."""
    p = _CURRENT["path"]
    if p:
        try:
            with open(p, "w") as f:
                json.dump(jsonable(case), f)
        except Exception:  # noqa
            pass


def _worker(args):
    prop, name, shard, nshards, n, seed, tier, known_active, shrink_s = args
    t0 = time.time()
    st = Stats()
    try:
        _import_prop(prop)
        sc = REGISTRY[prop][name]
        if sc.setup:
            sc.setup()
        if sc.fuzz is not None:
            from . import fuzzdrv
            fuzzdrv.run_fuzz_shard(sc, st, n, derive_seed(seed, prop, name, shard) % (2 ** 31 - 1) + 1, tier, known_active, shard)
        elif sc.enumerate is not None:
            it = itertools.islice(sc.enumerate(tier), shard, None, nshards)
            for case in it:
                status, ctx, info = execute(sc, case, known_active)
                st.note(case, status, ctx, info)
            st.exhaustive = True
        else:
            _run_hypothesis(sc, st, n, derive_seed(seed, prop, name, shard), tier, known_active, shrink_s)
    except Exception as e:  # noqa
        st.errors.append({"case": None, "traceback": "".join(traceback.format_exception(type(e), e, e.__traceback__))[-3000:]})
    st.wall = time.time() - t0
    return (prop, name, st)


def _run_hypothesis(sc, st, n, seed, tier, known_active, shrink_s):
    import hypothesis
    from hypothesis import HealthCheck, Phase, given, settings
    import hypothesis.internal.conjecture.engine as eng
    eng.MAX_SHRINKING_SECONDS = shrink_s

    class _Fail(Exception):
        pass

    last = {}

    @hypothesis.seed(seed)
    @settings(max_examples=n, database=None, deadline=None, derandomize=False,
              report_multiple_bugs=False, print_blob=False,
              suppress_health_check=[HealthCheck.too_slow, HealthCheck.data_too_large,
                                     HealthCheck.filter_too_much, HealthCheck.large_base_example],
              phases=[Phase.generate, Phase.shrink])
    @given(sc.strategy(tier))
    def test(case):
        status, ctx, info = execute(sc, case, known_active)
        st.note(case, status, ctx, info)
        if status == "violation":
            last["case"], last["info"] = case, info
            raise _Fail(info["bucket"])

    try:
        test()
    except _Fail:
        # Hypothesis replays the minimal failing example last: make it the bucket's witness
        b = last["info"]["bucket"]
        case = jsonable(last["case"])
        st.failures[b] = {"case": case, "info": last["info"], "size": len(json.dumps(case))}
    except hypothesis.errors.Unsatisfiable as e:
        st.errors.append({"case": None, "traceback": "generator unsatisfiable: %s" % e})


# ---------------------------------------------------------------------------

def _replay_task(args):
    """Replay one witness file in a worker (witnesses are replayed with exclusions OFF so that they exercise the oracle)."""
    _, prop, path = args[:3]
    _import_prop(prop)
    with open(path) as f:
        doc = json.load(f)
    sc = REGISTRY[prop][doc["subcheck"]]
    if sc.setup:
        sc.setup()
    status, ctx, info = execute(sc, doc["case"], frozenset())
    return ("__replay__", path, status, info, sorted(ctx.labels), ctx.is_nontrivial)


def _child(conn, args, curfile):
    _CURRENT["path"] = curfile
    try:
        res = _replay_task(args) if args[0] == "__replay__" else _worker(args)
        conn.send(res)
    finally:
        conn.close()


def _schedule(tasks, procs, tier):
    """Run tasks in up to ``procs`` processes. A worker that dies (segfault in the code under
    test) or hangs does not take the run down: its last case is recovered from its crash-guard
    file.  Returns (results, crashes, timeouts)."""
    import tempfile
    guard_s = float(os.environ.get("VP_TASK_TIMEOUT", "1500" if tier == "quick" else "14400"))
    ctx_mp = multiprocessing.get_context("fork")
    work = tempfile.mkdtemp(prefix="vp-run-")
    pending = list(tasks)
    running = {}
    results, crashes, timeouts = [], [], []
    serial = 0

    def last_case(cur):
        try:
            with open(cur) as f:
                return json.load(f)
        except Exception:  # noqa
            return None

    try:
        while pending or running:
            while pending and len(running) < procs:
                t = pending.pop(0)
                serial += 1
                cur = os.path.join(work, "cur-%d.json" % serial)
                a, b = ctx_mp.Pipe(duplex=False)
                p = ctx_mp.Process(target=_child, args=(b, t, cur))
                p.start()
                b.close()
                running[p.pid] = (p, a, t, cur, time.time())
            time.sleep(0.02)
            for pid in list(running):
                p, a, t, cur, t0 = running[pid]
                if a.poll():
                    try:
                        results.append(a.recv())
                    except EOFError:
                        p.join()
                        crashes.append(((t[0], t[1], t[2]), -p.exitcode if p.exitcode and p.exitcode < 0 else p.exitcode, last_case(cur)))
                    else:
                        p.join()
                    a.close()
                    del running[pid]
                elif not p.is_alive():
                    p.join()
                    if a.poll():
                        results.append(a.recv())
                    else:
                        crashes.append(((t[0], t[1], t[2]), -p.exitcode if p.exitcode and p.exitcode < 0 else p.exitcode, last_case(cur)))
                    a.close()
                    del running[pid]
                elif time.time() - t0 > guard_s:
                    p.kill()
                    p.join()
                    timeouts.append(((t[0], t[1], t[2]), last_case(cur)))
                    a.close()
                    del running[pid]
    finally:
        for p, a, t, cur, t0 in running.values():
            p.kill()
        import shutil
        shutil.rmtree(work, ignore_errors=True)
    return results, crashes, timeouts


def _replay_subprocess(prop, path):
    import subprocess
    r = subprocess.run([sys.executable, "-m", "vp.run", "--property", prop, "--replay", path],
                       cwd=VERIF, stdout=subprocess.PIPE, stderr=subprocess.PIPE, timeout=600)
    return r.returncode


def run_replay_file(prop, path, known_active=frozenset()):
    """Replay one saved case; returns (status, info)."""
    with open(path) as f:
        doc = json.load(f)
    sc = REGISTRY[prop][doc["subcheck"]]
    if sc.setup:
        sc.setup()
    status, ctx, info = execute(sc, doc["case"], known_active)
    return status, info, doc


def write_replay(prop, name, failure, seed, tier):
    d = os.path.join(FOUND, prop) if FOUND else os.path.join(REPLAYS, prop, "found")
    os.makedirs(d, exist_ok=True)
    doc = {"property": prop, "subcheck": name, "case": failure["case"],
           "message": failure["info"]["msg"], "bucket": failure["info"]["bucket"],
           "details": failure["info"].get("details"), "seed": seed, "tier": tier}
    path = os.path.join(d, "%s-%s.json" % (name, case_digest([name, failure["case"]])[:12]))
    with open(path, "w") as f:
        json.dump(doc, f, indent=1, sort_keys=True)
    return path


def run_property(prop, tier, seed, only=None, procs=None, scale=1.0):
    """Run every sub-check of ``prop``. Returns the exit code."""
    t0 = time.time()
    procs = procs or int(os.environ.get("VP_PROCS", "16"))
    _import_prop(prop)
    subs = REGISTRY.get(prop, {})
    if not subs:
        print("no sub-checks registered for", prop)
        return 2
    findings = load_known()      # ids are unique; a finding may be referenced by the checks of a related property
    known_active = frozenset(f["id"] for f in findings if f.get("status") == "known") | \
        frozenset(x for x in os.environ.get("VP_ASSUME_KNOWN", "").split(",") if x)   # development aid only
    shrink_s = 20 if tier == "quick" else 120

    violations = []     # (subcheck, replay path, msg)
    harness_errors = []
    known_lines = []
    per = {}

    # ---- replay tier -----------------------------------------------------
    replay_stats = Stats()
    rdir = os.path.join(REPLAYS, prop)
    replay_files = sorted(fn for fn in (os.listdir(rdir) if os.path.isdir(rdir) else []) if fn.endswith(".json"))
    n_replayed = 0
    rtasks, rdocs = [], {}
    for fn in replay_files:
        path = os.path.join(rdir, fn)
        with open(path) as f:
            doc = json.load(f)
        if only and doc["subcheck"] not in only:
            continue
        sc = subs.get(doc["subcheck"])
        if sc is None:
            harness_errors.append("replay %s names unknown sub-check %s" % (fn, doc["subcheck"]))
            continue
        if doc.get("bucket") == "crash":
            # a saved interpreter crash is replayed in its own process
            rc = _replay_subprocess(prop, path)
            n_replayed += 1
            replay_stats.evaluations += 1
            if rc not in (0,):
                violations.append((doc["subcheck"], path, "saved crash witness fails again (exit %s)" % rc))
            continue
        rdocs[path] = (fn, doc)
        rtasks.append(("__replay__", prop, path))
    rresults, rcrashes, rtimeouts = _schedule(rtasks, procs, tier) if rtasks else ([], [], [])
    for key, sig, case in rcrashes:
        harness_errors.append("a replay worker died with signal %s (%s)" % (sig, key[1]))
    for key, case in rtimeouts:
        harness_errors.append("a replay worker made no progress within the wall-clock guard (%s)" % (key[1],))
    reported_known = set()
    for _, path, status, info, labels, nontriv in sorted(rresults, key=lambda r: r[1]):
        fn, doc = rdocs[path]
        expect = doc.get("expect", "pass")
        ctx = Ctx(frozenset())
        ctx.labels, ctx.is_nontrivial = set(labels), nontriv
        replay_stats.note(doc["case"], "ok" if status == "violation" and expect != "pass" else status, ctx, info)
        n_replayed += 1
        if expect.startswith(("known:", "finding:")):
            fid = expect.split(":", 1)[1]
            entry = next((f for f in findings if f["id"] == fid), None)
            if entry is None:
                harness_errors.append("replay %s expects unknown finding %s" % (fn, fid))
            elif entry.get("status") == "known":
                if status == "violation":
                    if fid not in reported_known:
                        reported_known.add(fid)
                        known_lines.append("KNOWN-FINDING: property=%s %s %s" % (prop, fid, entry.get("what", "")))
                else:
                    print("NOTE: witness %s of known finding %s no longer fails (status=%s); entry should become 'fixed'" % (fn, fid, status))
            else:  # fixed: suppresses nothing
                if status == "violation":
                    violations.append((doc["subcheck"], path, "fixed finding %s is back: %s" % (fid, info["msg"])))
        elif status == "violation":
            violations.append((doc["subcheck"], path, info["msg"]))
        if status == "error":
            harness_errors.append("replay %s: %s" % (fn, info))
    per["replay"] = replay_stats

    # ---- generated tiers -------------------------------------------------
    tasks = []
    for name, sc in subs.items():
        if only and name not in only:
            continue
        if sc.enumerate is not None:
            ns = min(sc.shards, procs)
            for i in range(ns):
                tasks.append((prop, name, i, ns, 0, seed, tier, known_active, shrink_s))
        else:
            budget = int(math.ceil(sc.budget[tier] * scale))
            if budget <= 0:
                continue
            ns = max(1, min(sc.shards, procs, budget // 20 or 1))
            for i in range(ns):
                tasks.append((prop, name, i, ns, int(math.ceil(budget / ns)), seed, tier, known_active, shrink_s))
    results, crashes, timeouts = _schedule(tasks, procs, tier)
    for (tprop, tname, shard), sig, case in crashes:
        # a worker died (signal): confirm with the case it was executing, in a fresh process
        if case is None:
            harness_errors.append("%s shard %d: worker died with signal %s before any case" % (tname, shard, sig))
            continue
        f = {"case": case, "info": {"msg": "interpreter crashed (signal %s) while executing this case" % sig,
                                    "bucket": "crash", "details": None}}
        path = write_replay(prop, tname, f, seed, tier)
        rc = _replay_subprocess(prop, path)
        if rc < 0 or rc >= 128:
            violations.append((tname, path, f["info"]["msg"] + " (reproduced in a fresh process)"))
        elif rc == 1:
            violations.append((tname, path, "worker crashed; replay of the case reports a violation"))
        else:
            os.remove(path)
            harness_errors.append("%s shard %d: worker died with signal %s; case does not reproduce it" % (tname, shard, sig))
    for (tprop, tname, shard), case in timeouts:
        harness_errors.append("%s shard %d: no progress within the wall-clock guard (inconclusive); last case: %s"
                              % (tname, shard, json.dumps(case)[:400]))
    for _, name, st in results:
        if name not in per:
            per[name] = st
        else:
            ex = per[name].exhaustive or st.exhaustive
            per[name].merge(st)
            per[name].exhaustive = ex

    for name, st in per.items():
        for b, f in sorted(st.failures.items()):
            path = write_replay(prop, name, f, seed, tier)
            violations.append((name, path, f["info"]["msg"]))
        for e in st.errors:
            harness_errors.append("%s: %s" % (name, e["traceback"]))
        if name != "replay" and st.evaluations:
            nd = sum(st.discards.values())
            if nd > 0.5 * st.evaluations:
                harness_errors.append("%s: %d of %d cases discarded (%s) - generator unhealthy" % (name, nd, st.evaluations, st.discards))

    # ---- evidence --------------------------------------------------------
    wall = time.time() - t0
    total_eval = sum(st.evaluations for st in per.values())
    nt = set()
    for name, st in per.items():
        nt |= set(name + ":" + d for d in st.nontrivial)
    samples = []
    for name, st in per.items():
        for s in st.samples[:2]:
            samples.append({"subcheck": name, "case": s})
    ev = {
        "property_id": prop, "tier": tier, "seed": int(seed), "level": "exploration",
        "coverage": {
            "evaluations": total_eval,
            "distinct_nontrivial": len(nt),
            "rule": NT_RULES.get(prop, "") + "  Distinct = different sha1 of the canonical JSON of the case, per sub-check; cases excluded as known findings or discarded are not counted.",
            "samples": samples[:40],
            "per_subcheck": {
                name: {"evaluations": st.evaluations, "distinct_nontrivial": len(st.nontrivial),
                       "discards": st.discards, "labels": dict(sorted(st.labels.items())),
                       "excluded_known": st.excluded, "tolerated_by_contract": st.tolerated,
                       "exhaustive": st.exhaustive, "wall_s": round(st.wall, 2),
                       "violations": len(st.failures)}
                for name, st in per.items()},
            "replayed_files": n_replayed,
            "known_findings_reported": known_lines,
        },
        "assumptions": ASSUMPTIONS.get(prop, []),
        "wall_s": round(wall, 2),
        "violations": len(violations),
    }
    os.makedirs(EVIDENCE, exist_ok=True)
    with open(os.path.join(EVIDENCE, "%s.json" % prop), "w") as f:
        json.dump(ev, f, indent=1, sort_keys=True, default=str)

    for line in known_lines:
        print(line)
    print("%s tier=%s seed=%s evaluations=%d distinct_nontrivial=%d wall=%.1fs" % (prop, tier, seed, total_eval, len(nt), wall))
    for name, st in per.items():
        print("  %-34s eval=%-8d nontrivial=%-7d discards=%-6d excluded=%s%s" % (
            name, st.evaluations, len(st.nontrivial), sum(st.discards.values()), st.excluded or 0,
            " EXHAUSTIVE" if st.exhaustive else ""))
    if harness_errors:
        for e in harness_errors[:5]:
            print("HARNESS-ERROR:", e, file=sys.stderr)
    for name, path, msg in violations:
        print("VIOLATION property=%s replay=%s" % (prop, path))
        print("  sub-check %s: %s" % (name, msg))
    if violations:
        return 1
    if harness_errors:
        return 2
    return 0


ASSUMPTIONS = {}


def assumptions(prop, items):
    ASSUMPTIONS[prop] = list(items)
