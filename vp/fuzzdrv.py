"""Coverage-guided driver (atheris / libFuzzer) for sub-checks that define a byte decoder ``fuzz=``.

The decoder turns raw fuzzer bytes into the same JSON case the Hypothesis strategy would produce, the
oracle is the sub-check's ordinary ``run``: the semantic check sits inside the fuzz target.  Each shard is a
separate process (``python -m vp.fuzzdrv ...``) with its own fresh corpus directory, ``-runs=N -seed=S``;
the target dumps its counters to a JSON file which the parent merges.  If atheris is not installed the shard
is reported as skipped (harness note), never as a pass with fabricated counts.
"""

import json
import os
import subprocess
import sys
import tempfile
import shutil

from . import build


def run_fuzz_shard(sc, st, runs, seed, tier, known_active, shard):
    work = tempfile.mkdtemp(prefix="vp-fuzz-")
    out = os.path.join(work, "stats.json")
    corpus = os.path.join(work, "corpus")
    os.makedirs(corpus)
    # even shards start from a few small valid inputs (if the decoder provides them), odd shards from an empty corpus
    if shard % 2 == 0:
        for i, blob in enumerate(getattr(sc.fuzz, "seeds", [])):
            with open(os.path.join(corpus, "seed-%d" % i), "wb") as f:
                f.write(blob)
    try:
        env = dict(os.environ, PYTHONHASHSEED="0")
        cmd = [sys.executable, "-m", "vp.fuzzdrv", sc.prop, sc.name, str(runs), str(seed), tier, out, corpus,
               ",".join(sorted(known_active))]
        r = subprocess.run(cmd, cwd=build.VERIF, env=env, stdout=subprocess.PIPE, stderr=subprocess.STDOUT, text=True,
                           timeout=6 * 3600)
        if not os.path.exists(out):
            st.errors.append({"case": None, "traceback": "fuzz shard produced no statistics (exit %s): %s" % (r.returncode, r.stdout[-1500:])})
            return
        with open(out) as f:
            d = json.load(f)
        st.evaluations += d["evaluations"]
        st.nontrivial |= set(d["nontrivial"])
        for a, b in ((st.labels, d["labels"]), (st.discards, d["discards"]), (st.excluded, d["excluded"]), (st.tolerated, d["tolerated"])):
            for k, v in b.items():
                a[k] = a.get(k, 0) + v
        st.samples = (st.samples + d["samples"])[:3]
        for b, f_ in d["failures"].items():
            st.failures[b] = f_
        for e in d["errors"]:
            st.errors.append(e)
        st.labels["fuzz:libfuzzer_cov=%s" % d.get("cov", "?")] = 1
    finally:
        shutil.rmtree(work, ignore_errors=True)


def _dump(st, path, extra):
    d = {"evaluations": st.evaluations, "nontrivial": sorted(st.nontrivial), "labels": st.labels, "discards": st.discards,
         "excluded": st.excluded, "tolerated": st.tolerated, "samples": st.samples, "failures": st.failures,
         "errors": st.errors}
    d.update(extra)
    tmp = path + ".tmp"
    with open(tmp, "w") as f:
        json.dump(d, f)
    os.replace(tmp, path)


def main(argv):
    prop, name, runs, seed, tier, out, corpus, known = argv[:8]
    runs, seed = int(runs), int(seed)
    known_active = frozenset(x for x in known.split(",") if x)
    import warnings
    warnings.filterwarnings("ignore")
    build.use_repo()
    from . import core
    st = core.Stats()
    try:
        import atheris
    except ImportError:
        st.errors.append({"case": None, "traceback": "atheris is not installed (run the setup command); fuzz shard skipped"})
        _dump(st, out, {})
        return 0
    import importlib
    mod_name = "vp.props.%s" % prop.lower()
    # instrument the pyLife modules the property is anchored in (they are imported by the property module)
    with atheris.instrument_imports(include=["pylife.stress.rainflow", "pylife.stress.rainflow.general",
                                             "pylife.stress.rainflow.fkm", "pylife.stress.rainflow.threepoint",
                                             "pylife.stress.rainflow.fourpoint", "pylife.stress.rainflow.fkm_nonlinear",
                                             "pylife.stress.rainflow.recorders"], enable_loader_override=False):
        importlib.import_module(mod_name)
    sc = core.REGISTRY[prop][name]
    if sc.setup:
        sc.setup()
    state = {"n": 0}

    def test_one_input(data):
        state["n"] += 1
        case = sc.fuzz(data, tier)
        if case is not None:
            status, ctx, info = core.execute(sc, case, known_active)
            st.note(case, status, ctx, info)
            if status == "violation":
                _dump(st, out, {})
                raise RuntimeError("violation: " + info["msg"])
        if state["n"] % 500 == 0 or state["n"] >= runs:
            _dump(st, out, {})

    args = [sys.argv[0], "-runs=%d" % runs, "-seed=%d" % seed, "-max_len=256", "-print_final_stats=0",
            "-artifact_prefix=%s/" % os.path.dirname(out), corpus]
    _dump(st, out, {})
    atheris.Setup(args, test_one_input)
    atheris.Fuzz()
    return 0


if __name__ == "__main__":
    sys.exit(main(sys.argv[1:]))
