"""Hypothesis strategies and plain builders for small finite-element meshes (no pyLife import).

A *mesh case* is a JSON-serialisable dict

    kind    "hex" | "tet5" | "tet6"     8-node bricks, or every brick cell split into 5 / 6 tetrahedra
            | "mixed"                    per cell (case["cells"][c] in hex/tet5/tet6) a brick or its split into tetrahedra:
                                         bricks and tetrahedra in one table, sharing the grid nodes
    n       [nx, ny, nz]                 cells per direction (block mesh)
    pert    [] | [[dx,dy,dz]] * N        node displacement in units of the cell size, |component| <= 0.15
    A, t    3x3 matrix, 3-vector         x = A @ (grid + pert) + t
    nid     [N ints]                     node id of grid node k   (k = i + (nx+1) * (j + (ny+1) * kk))
    eid     [E ints]                     element id of element e
    rows    {"mode", "perm"}             order of the DataFrame rows (see ``row_order``)
    levels  "ne" | "en"                  order of the two index levels: (node_id, element_id) or (element_id, node_id)

Why 0.15: every cell edge vector of the reference block is a unit vector +- a difference of two node
displacements, i.e. its own component is >= 0.7 and the two others are <= 0.3 in magnitude.  The Jacobian of the
trilinear map at a brick corner (its columns are the three edges meeting there) is therefore strictly
diagonally dominant and cannot be singular; the same bound keeps every tetrahedron of the 5- and 6-tet
splits non-degenerate (edge matrix = unimodular pattern + perturbation of spectral norm <= 0.9 < 1).
With 0.2 (the figure of the design) a singular corner Jacobian is possible, which the property excludes
("non-degenerate mesh").
"""

import math

from hypothesis import strategies as st

HEX_LOCAL = [(0, 0, 0), (1, 0, 0), (1, 1, 0), (0, 1, 0), (0, 0, 1), (1, 0, 1), (1, 1, 1), (0, 1, 1)]   # Ansys/Abaqus order
PERT_MAX = 0.15

_TET5 = [[(0, 0, 0), (1, 1, 0), (1, 0, 1), (0, 1, 1)],
         [(1, 0, 0), (0, 0, 0), (1, 1, 0), (1, 0, 1)],
         [(0, 1, 0), (0, 0, 0), (1, 1, 0), (0, 1, 1)],
         [(0, 0, 1), (0, 0, 0), (1, 0, 1), (0, 1, 1)],
         [(1, 1, 1), (1, 1, 0), (1, 0, 1), (0, 1, 1)]]
_PERMS3 = [(0, 1, 2), (0, 2, 1), (1, 0, 2), (1, 2, 0), (2, 0, 1), (2, 1, 0)]


def _unit(a):
    return tuple(1 if i == a else 0 for i in range(3))


def _add(p, q):
    return tuple(x + y for x, y in zip(p, q))


_TET6 = []
for _p in _PERMS3:
    _v1 = _unit(_p[0])
    _TET6.append([(0, 0, 0), _v1, _add(_v1, _unit(_p[1])), (1, 1, 1)])


def _vol6(p0, p1, p2, p3):
    a = [p1[i] - p0[i] for i in range(3)]
    b = [p2[i] - p0[i] for i in range(3)]
    c = [p3[i] - p0[i] for i in range(3)]
    return (a[0] * (b[1] * c[2] - b[2] * c[1]) - a[1] * (b[0] * c[2] - b[2] * c[0]) + a[2] * (b[0] * c[1] - b[1] * c[0]))


def node_count(n):
    return (n[0] + 1) * (n[1] + 1) * (n[2] + 1)


def nodes_per_element(kind):
    return 8 if kind == "hex" else 4


def element_count(kind, n):
    cells = n[0] * n[1] * n[2]
    return cells * {"hex": 1, "tet5": 5, "tet6": 6}[kind]


def grid_nodes(n):
    """Grid index triples of the nodes in node order k = i + (nx+1) * (j + (ny+1) * kk)."""
    return [(i, j, k) for k in range(n[2] + 1) for j in range(n[1] + 1) for i in range(n[0] + 1)]


def _nindex(n, ijk):
    return ijk[0] + (n[0] + 1) * (ijk[1] + (n[1] + 1) * ijk[2])


def connectivity(kind, n, cells=None):
    """List of elements, each a list of grid-node numbers in the node order pyLife documents
    (bricks: bottom face counter-clockwise, then top face; tetrahedra: positively oriented).
    kind "mixed": cells[c] names the kind of cell c (cells numbered i fastest, then j, then k)."""
    elements = []
    c = 0
    for k in range(n[2]):
        for j in range(n[1]):
            for i in range(n[0]):
                ckind = cells[c] if kind == "mixed" else kind
                c += 1
                if ckind == "hex":
                    elements.append([_nindex(n, (i + a, j + b, k + cc)) for a, b, cc in HEX_LOCAL])
                    continue
                template = _TET5 if ckind == "tet5" else _TET6
                mirror = ckind == "tet5" and (i + j + k) % 2 == 1     # alternate so that face diagonals match
                for tet in template:
                    loc = [((1 - a) if mirror else a, b, cc) for a, b, cc in tet]
                    if _vol6(*loc) < 0:
                        loc[2], loc[3] = loc[3], loc[2]
                    elements.append([_nindex(n, (i + a, j + b, k + cc)) for a, b, cc in loc])
    return elements


def elements_of(case):
    return connectivity(case["kind"], case["n"], case.get("cells"))


def mixed_element_count(n, cells):
    return sum({"hex": 1, "tet5": 5, "tet6": 6}[c] for c in cells)


def coordinates(case):
    """Node coordinates (list of [x, y, z]) in grid-node order."""
    n, A, t = case["n"], case["A"], case["t"]
    pert = case.get("pert") or []
    out = []
    for idx, (i, j, k) in enumerate(grid_nodes(n)):
        p = [float(i), float(j), float(k)]
        if pert:
            p = [p[d] + pert[idx][d] for d in range(3)]
        out.append([A[r][0] * p[0] + A[r][1] * p[1] + A[r][2] * p[2] + t[r] for r in range(3)])
    return out


def on_boundary(n):
    """Per grid node: does it carry a grid index on the block boundary?"""
    return [i in (0, n[0]) or j in (0, n[1]) or k in (0, n[2]) for i, j, k in grid_nodes(n)]


def row_order(case):
    """The (element number, local node number) pairs in the order of the DataFrame rows.

    blocks       element blocks in the order rows['perm'] (a permutation of the elements), node order kept
    interleaved  rows of different elements are interleaved; the relative order of the rows of one element is kept
                 (rows['perm'] is a permutation of all rows; row r of the result belongs to the element that owns
                 row perm[r] of the block-ordered table)
    shuffled     rows['perm'] is an arbitrary permutation of all rows (within-element order destroyed)
    """
    con = elements_of(case)
    mode, perm = case["rows"]["mode"], case["rows"]["perm"]
    base = [(e, a) for e in range(len(con)) for a in range(len(con[e]))]
    if mode == "blocks":
        return [(e, a) for e in perm for a in range(len(con[e]))]
    if mode == "interleaved":
        nxt = [0] * len(con)
        out = []
        for r in perm:
            e = base[r][0]
            out.append((e, nxt[e]))
            nxt[e] += 1
        return out
    if mode == "shuffled":
        return [base[r] for r in perm]
    raise ValueError(mode)


def is_interleaved(case):
    seen, last = set(), None
    for e, _ in row_order(case):
        if e != last and e in seen:
            return True
        seen.add(e)
        last = e
    return False


def mesh_rows(case):
    """Rows of the mesh table: list of dicts node_id, element_id, gnode (grid node number), x, y, z."""
    xyz = coordinates(case)
    con = elements_of(case)
    rows = []
    for e, a in row_order(case):
        g = con[e][a]
        rows.append({"node_id": case["nid"][g], "element_id": case["eid"][e], "gnode": g,
                     "x": xyz[g][0], "y": xyz[g][1], "z": xyz[g][2]})
    return rows


def min_edge(case):
    """Shortest distance between two nodes of one element (length scale of the mesh)."""
    xyz = coordinates(case)
    best = float("inf")
    for el in elements_of(case):
        for i in range(len(el)):
            for j in range(i):
                d = math.dist(xyz[el[i]], xyz[el[j]])
                best = min(best, d)
    return best


# ----------------------------------------------------------------------------- strategies

ID_CLASSES = ["identity", "perm", "offset", "gaps", "perm", "arbitrary", "zero_based", "perm", "arbitrary"]   # repeats = weights


@st.composite
def id_maps(draw, n, classes=ID_CLASSES):
    """n distinct integer ids.  identity: 1..n in order; offset: k+1..k+n; zero_based: 0..n-1; gaps: increasing
    with holes; perm: 1..n in random order; arbitrary: any distinct ids in any order."""
    cls = draw(st.sampled_from(classes))
    if cls == "identity":
        return list(range(1, n + 1))
    if cls == "offset":
        k = draw(st.sampled_from([1, 2, 10, 100, 1000, 100000]))
        return list(range(k + 1, k + n + 1))
    if cls == "zero_based":
        return list(range(n))
    if cls == "gaps":
        start = draw(st.integers(1, 3))
        steps = draw(st.lists(st.integers(1, 4), min_size=n - 1, max_size=n - 1)) if n > 1 else []
        if steps and all(s == 1 for s in steps) and start == 1:
            steps[draw(st.integers(0, len(steps) - 1))] = 2
        out = [start]
        for s in steps:
            out.append(out[-1] + s)
        return out
    if cls == "perm":
        return list(draw(st.permutations(list(range(1, n + 1)))))
    return draw(st.lists(st.integers(1, 10 ** 6), min_size=n, max_size=n, unique=True))


def id_class(ids):
    """Label of an id list (derived from the list, so that it survives shrinking)."""
    n = len(ids)
    s = sorted(ids)
    if s == list(range(1, n + 1)):
        return "ids_1..N_in_order" if ids == s else "ids_1..N_permuted"
    if s == list(range(s[0], s[0] + n)):
        return ("ids_contiguous_from_%d" % s[0]) if s[0] in (0,) else "ids_contiguous_offset"
    return "ids_with_gaps" if ids == s else "ids_with_gaps_unordered"


def contiguous_from_one(ids):
    return sorted(ids) == list(range(1, len(ids) + 1))


@st.composite
def affine_maps(draw, max_stretch=4.0):
    """x -> A x + t with A = R (D + E): D positive diagonal (stretch between 1/max_stretch and max_stretch, relative
    to a common scale), |E_ij| <= 0.25 * min(D) (so D + E is strictly diagonally dominant: never singular),
    R a rotation from three angles.  A third of the maps are the identity."""
    if draw(st.integers(0, 2)) == 0:
        return {"A": [[1.0, 0.0, 0.0], [0.0, 1.0, 0.0], [0.0, 0.0, 1.0]], "t": [0.0, 0.0, 0.0]}
    scale = draw(st.sampled_from([1.0, 1.0, 1e-3, 0.05, 25.0, 1e3]))
    d = [draw(st.floats(1.0 / max_stretch, max_stretch)) for _ in range(3)]
    dmin = min(d)
    M = [[d[r] if r == c else draw(st.floats(-0.25, 0.25)) * dmin for c in range(3)] for r in range(3)]
    if draw(st.booleans()):
        a, b, c = [draw(st.floats(-math.pi, math.pi)) for _ in range(3)]
    else:
        a = b = c = 0.0
    ca, sa, cb, sb, cc, sc = math.cos(a), math.sin(a), math.cos(b), math.sin(b), math.cos(c), math.sin(c)
    Rz = [[ca, -sa, 0.0], [sa, ca, 0.0], [0.0, 0.0, 1.0]]
    Ry = [[cb, 0.0, sb], [0.0, 1.0, 0.0], [-sb, 0.0, cb]]
    Rx = [[1.0, 0.0, 0.0], [0.0, cc, -sc], [0.0, sc, cc]]

    def mm(P, Q):
        return [[sum(P[r][k] * Q[k][c] for k in range(3)) for c in range(3)] for r in range(3)]
    A = mm(mm(Rz, Ry), mm(Rx, M))
    A = [[scale * v for v in row] for row in A]
    t = [scale * draw(st.floats(-10.0, 10.0)) for _ in range(3)]
    return {"A": A, "t": t}


def displacements(n_nodes, step=None):
    """n_nodes displacement vectors, |component| <= PERT_MAX.  With ``step`` the components are integer multiples of it
    (either exactly zero or at least ``step``): no node is *almost* in the plane of its neighbours, so a triangulation of the
    nodes has no simplices flatter than ``step``."""
    if step is None:
        comp = st.floats(-PERT_MAX, PERT_MAX)
    else:
        kmax = int(PERT_MAX / step)
        comp = st.integers(-kmax, kmax).map(lambda k: k * step)
    return st.lists(st.lists(comp, min_size=3, max_size=3), min_size=n_nodes, max_size=n_nodes)


@st.composite
def block_meshes(draw, kinds=("hex",), row_modes=("blocks",), max_cells=27, want_interior=False,
                 max_stretch=4.0, nmax=3, pert_step=None):
    kind = draw(st.sampled_from(list(kinds)))
    if want_interior and draw(st.integers(0, 3)) > 0:
        n = [draw(st.integers(2, nmax)) for _ in range(3)]
    else:
        n = [draw(st.integers(1, nmax)) for _ in range(3)]
    while n[0] * n[1] * n[2] > max_cells:
        n[n.index(max(n))] -= 1
    N = node_count(n)
    cells = None
    if kind == "mixed":
        if n[0] * n[1] * n[2] < 2:
            n[draw(st.integers(0, 2))] = 2
            N = node_count(n)
        ncell = n[0] * n[1] * n[2]
        tet = draw(st.sampled_from(["tet5", "tet6"]))
        cells = [draw(st.sampled_from(["hex", tet])) for _ in range(ncell)]
        if len(set(cells)) < 2:              # both element types, in either order
            cells[draw(st.integers(0, ncell - 1))] = tet if cells[0] == "hex" else "hex"
        E = mixed_element_count(n, cells)
        nrows = sum(len(el) for el in connectivity("mixed", n, cells))
    else:
        E = element_count(kind, n)
        nrows = E * nodes_per_element(kind)
    if draw(st.integers(0, 3)) == 0:
        pert = []
    else:
        pert = draw(displacements(N, pert_step))
    aff = draw(affine_maps(max_stretch))
    nid = draw(id_maps(N))
    eid = draw(id_maps(E))
    mode = draw(st.sampled_from(list(row_modes)))
    if mode == "blocks":
        perm = list(draw(st.permutations(list(range(E))))) if draw(st.booleans()) else list(range(E))
    else:
        perm = list(draw(st.permutations(list(range(nrows)))))
    out = {"kind": kind, "n": n, "pert": pert, "A": aff["A"], "t": aff["t"], "nid": nid, "eid": eid,
            "rows": {"mode": mode, "perm": perm}, "levels": draw(st.sampled_from(["ne", "en"]))}
    if cells is not None:
        out["cells"] = cells
    return out


def geometry_is_plain(case):
    ident = case["A"] == [[1.0, 0.0, 0.0], [0.0, 1.0, 0.0], [0.0, 0.0, 1.0]] and case["t"] == [0.0, 0.0, 0.0]
    return ident and not case.get("pert")


def numbering_is_plain(case):
    E = len(case["eid"])
    return (case["nid"] == list(range(1, len(case["nid"]) + 1)) and case["eid"] == list(range(1, E + 1))
            and case["rows"]["mode"] == "blocks" and case["rows"]["perm"] == list(range(E)))


@st.composite
def linear_fields(draw):
    """g . x + c with coefficients on a coarse decimal grid (some zero); c of the size of g . x."""
    comp = st.one_of(st.sampled_from([0.0, 1.0, -1.0]), st.integers(-2000, 2000).map(lambda i: i / 16.0),
                     st.floats(-1e3, 1e3).map(lambda v: round(v, 3) + 0.0))
    g = [draw(comp) for _ in range(3)]
    c = draw(st.one_of(st.just(0.0), st.integers(-800, 800).map(lambda i: i / 8.0)))
    return {"g": g, "c": c}
