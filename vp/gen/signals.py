"""Hypothesis strategies for load signals and their partitions into chunks."""

from hypothesis import strategies as st

from ..refs import rainflow_ref as ref

KINDS = ["int2", "int5", "int40", "grid", "dyadic", "float", "decimal"]


def _elements(kind):
    if kind == "int2":
        return st.integers(-2, 2).map(float)
    if kind == "int5":
        return st.integers(-5, 5).map(float)
    if kind == "int40":
        return st.integers(-40, 40).map(float)
    if kind == "grid":
        return st.integers(-2000, 2000).map(lambda i: i / 8.0)
    if kind == "dyadic":
        return st.tuples(st.integers(-4096, 4096), st.integers(-20, 20)).map(lambda t: t[0] * 2.0 ** t[1])
    if kind == "decimal":
        # values that are not representable in single precision, with many exactly repeated values (ties)
        return st.integers(-30, 30).map(lambda i: i / 10.0)
    if kind == "float":
        return st.floats(-1e9, 1e9, allow_nan=False, allow_infinity=False, width=64).map(
            lambda x: round(x, 6) + 0.0)
    raise ValueError(kind)


@st.composite
def signals(draw, min_size=1, max_size=60, kinds=KINDS, exact_only=False):
    """A list of floats with forced structure: plateaus (also at reversals and at the
    ends), monotone runs, repeated extremes, constant signals, short signals."""
    if exact_only:
        kinds = [k for k in kinds if k not in ("float", "decimal")]
    kind = draw(st.sampled_from(kinds))
    shape = draw(st.sampled_from(["plain", "plain", "plain", "short", "constant", "long"]))
    if shape == "short":
        base = draw(st.lists(_elements(kind), min_size=min_size, max_size=max(min_size, 3)))
    elif shape == "constant":
        n = draw(st.integers(min_size, max(min_size, 6)))
        base = [draw(_elements(kind))] * n
    elif shape == "long":
        base = draw(st.lists(_elements(kind), min_size=max(min_size, min(20, max_size)), max_size=max_size))
    else:
        base = draw(st.lists(_elements(kind), min_size=min_size, max_size=max(min_size, max_size // 2)))
    op_names = ["plateau", "plateau_rev", "mono", "repeat_ext", "end_plateau", "start_plateau"]
    if not exact_only:
        op_names = op_names + ["near_plateau", "near_plateau"]
    ops = draw(st.lists(st.sampled_from(op_names), max_size=3))
    sig = list(base)
    for op in ops:
        if len(sig) >= max_size:
            break
        if op == "plateau":
            pos = draw(st.integers(0, len(sig) - 1))
            k = draw(st.integers(1, 4))
            sig[pos:pos] = [sig[pos]] * k
        elif op == "plateau_rev":
            rev = ref.interior_reversals(sig)
            if rev:
                pos = rev[draw(st.integers(0, len(rev) - 1))][0]
                k = draw(st.integers(1, 4))
                sig[pos:pos] = [sig[pos]] * k
        elif op == "near_plateau":
            # an almost-repeated value (difference 1 ulp ... 1e-9): NOT a plateau, the comparison must stay exact
            rev = ref.interior_reversals(sig)
            pos = rev[draw(st.integers(0, len(rev) - 1))][0] if rev and draw(st.booleans()) else draw(st.integers(0, len(sig) - 1))
            x = sig[pos]
            # relative to max(1, |x|): never denormal (the reversal test multiplies two differences; |diff| >= 1e-17 here)
            delta = draw(st.sampled_from([2.3e-16, -2.3e-16, 1e-12, 1e-9, -1e-9])) * max(1.0, abs(x))
            y = x + delta
            sig.insert(pos + draw(st.integers(0, 1)), y)
        elif op == "end_plateau":
            sig.extend([sig[-1]] * draw(st.integers(1, 3)))
        elif op == "start_plateau":
            sig[0:0] = [sig[0]] * draw(st.integers(1, 3))
        elif op == "mono" and len(sig) >= 2:
            pos = draw(st.integers(0, len(sig) - 2))
            a, b = sig[pos], sig[pos + 1]
            k = draw(st.integers(1, 3))
            ins = [a + (b - a) * (j / (k + 1.0)) for j in range(1, k + 1)]
            sig[pos + 1:pos + 1] = ins
        elif op == "repeat_ext":
            ext = max(sig) if draw(st.booleans()) else min(sig)
            pos = draw(st.integers(0, len(sig)))
            sig[pos:pos] = [ext]
    return [float(x) + 0.0 for x in sig[:max_size]]


@st.composite
def cuts_for(draw, sig):
    """Cut positions (sorted, in 1..n-1) for a signal; dense / sparse / all and cuts forced
    on, before and after a reversal and inside plateaus."""
    n = len(sig)
    if n < 2:
        return []
    mode = draw(st.sampled_from(["sparse", "dense", "all", "targeted", "one"]))
    cuts = set()
    if mode == "all":
        cuts = set(range(1, n))
    elif mode == "one":
        cuts = {draw(st.integers(1, n - 1))}
    elif mode == "dense":
        cuts = set(c for c in range(1, n) if draw(st.booleans()))
    else:
        cuts = set(draw(st.lists(st.integers(1, n - 1), max_size=4)))
    if mode == "targeted":
        rev = [i for i, _ in ref.interior_reversals(sig)]
        if rev:
            t = rev[draw(st.integers(0, len(rev) - 1))]
            for c in (t - 1, t, t + 1, t + 2):
                if 1 <= c <= n - 1 and draw(st.booleans()):
                    cuts.add(c)
        plateaus = [i for i in range(1, n) if sig[i] == sig[i - 1]]
        if plateaus:
            p = plateaus[draw(st.integers(0, len(plateaus) - 1))]
            for c in (p - 1, p, p + 1):
                if 1 <= c <= n - 1 and draw(st.booleans()):
                    cuts.add(c)
    return sorted(cuts)


@st.composite
def chunked_signals(draw, min_size=1, max_size=60, **kw):
    sig = draw(signals(min_size=min_size, max_size=max_size, **kw))
    cuts = draw(cuts_for(sig))
    return {"signal": sig, "cuts": cuts}


def split(sig, cuts):
    edges = [0] + list(cuts) + [len(sig)]
    return [sig[a:b] for a, b in zip(edges[:-1], edges[1:])]
