"""Shared helpers for C04/C05/C10: run the FKM-nonlinear HCM detector the way the assessment does."""

import numpy as np
import pandas as pd

from .. import build

build.load_kernel("plain")

import pylife.materiallaws.notch_approximation_law as NAL  # noqa: E402
import pylife.materiallaws.notch_approximation_law_seegerbeste as NALSB  # noqa: E402
import pylife.stress.rainflow.fkm_nonlinear as FN  # noqa: E402
import pylife.stress.rainflow.recorders as REC  # noqa: E402

_LAWS = {}


def binned_law(kind="EN", E=206e3, K=1184.0, n=0.187, K_p=3.5, max_load=100.0, bins=100):
    """A cached Binned law (table construction is the expensive part)."""
    key = (kind, E, K, n, K_p, max_load if np.isscalar(max_load) else tuple(np.asarray(max_load).tolist()), bins)
    if key not in _LAWS:
        if len(_LAWS) > 200:
            _LAWS.clear()
        if kind == "EN":
            law = NAL.ExtendedNeuber(E, K, n, K_p)
        else:
            law = NALSB.SeegerBeste(E, K, n, K_p)
        _LAWS[key] = (law, NAL.Binned(law, max_load, bins))
    return _LAWS[key]


def run_two_pass(loads, binned, passes=2):
    """process_hcm_first + process_hcm_second exactly as assessment_nonlinear_standard does.
    loads: list of floats or a pd.Series (single point) / multi-indexed Series (several points)."""
    rec = REC.FKMNonlinearRecorder()
    det = FN.FKMNonlinearDetector(recorder=rec, notch_approximation_law=binned)
    seq = loads if isinstance(loads, pd.Series) else pd.Series(np.asarray(loads, dtype=np.float64))
    det.process_hcm_first(seq)
    for _ in range(passes - 1):
        det.process_hcm_second(seq)
    return det, rec


def rows(rec):
    df = rec.collective
    return df
