"""Shared helpers for the rainflow properties C01-C03: run the real detectors."""

import contextlib

import numpy as np

from .. import build

build.load_kernel("plain")

import pylife.stress.rainflow as RF  # noqa: E402
import pylife.stress.rainflow.threepoint as _tp  # noqa: E402
import pylife.stress.rainflow.fourpoint as _fp  # noqa: E402

DETECTORS = ("threepoint", "fourpoint", "fkm")
_checked = {}


def make(det):
    if det == "threepoint":
        return RF.ThreePointDetector(recorder=RF.FullRecorder())
    if det == "fourpoint":
        return RF.FourPointDetector(recorder=RF.FullRecorder())
    if det == "fkm":
        return RF.FKMDetector(recorder=RF.FullRecorder())
    raise ValueError(det)


def snapshot(det, d):
    """Everything the property observes, as plain Python data."""
    r = d.recorder
    out = {
        "values_from": [float(x) for x in r.values_from],
        "values_to": [float(x) for x in r.values_to],
        "residuals": [float(x) for x in d.residuals],
    }
    if det != "fkm":
        out["index_from"] = [int(x) for x in r.index_from]
        out["index_to"] = [int(x) for x in r.index_to]
        out["residual_index"] = [int(x) for x in d.residual_index]
    return out


def run_chunks(det, chunks, as_array=True, on_step=None, final_flush=False):
    """Feed the chunks one call each.  Every chunk is handed over in an array of its own which is overwritten
    right after the call (the streaming pattern of reading each block into a buffer that is reused): a detector
    that keeps a view of the caller's array instead of a copy sees the overwritten data in its next call."""
    d = make(det)
    for k, c in enumerate(chunks):
        if as_array:
            buf = np.array(c, dtype=np.float64)
            if final_flush and k == len(chunks) - 1:
                d.process(buf, flush=True)
            else:
                d.process(buf)
            buf[0::2] = 9.5e5
            buf[1::2] = -9.5e5
        else:
            d.process(c)
        if on_step is not None:
            on_step(k, d)
    return d


def mixed_representations(chunks):
    """One container kind per chunk, a pure function of the chunks: float64 array, int64 array (whole numbers only),
    python list (of ints if whole), float32 array (only if every value is exactly representable) or pandas Series."""
    import pandas as pd
    out = []
    for k, c in enumerate(chunks):
        whole = all(float(x).is_integer() and abs(x) < 2 ** 31 for x in c)
        f32 = all(float(np.float32(x)) == x for x in c)
        kind = (k + len(c) + int(abs(c[0]) * 4) % 7) % 5
        if kind == 1 and whole:
            out.append(("int64", np.array([int(x) for x in c], dtype=np.int64)))
        elif kind == 2:
            out.append(("list", [int(x) for x in c] if whole else list(c)))
        elif kind == 3 and f32:
            out.append(("float32", np.array(c, dtype=np.float32)))
        elif kind == 4:
            out.append(("series", pd.Series(np.array(c, dtype=np.float64))))
        else:
            out.append(("float64", np.array(c, dtype=np.float64)))
    return out


def run_chunks_mixed(det, chunks):
    """Feed the chunks in mixed container kinds / dtypes (a chunked file read infers int for a whole-numbered block)."""
    d = make(det)
    kinds = []
    for kind, obj in mixed_representations(chunks):
        kinds.append(kind)
        d.process(obj)
    return d, kinds


def run_whole(det, sig):
    return run_chunks(det, [sig])


@contextlib.contextmanager
def checked_kernel():
    """Swap in the loops of the bounds-checked build of the same source."""
    if "mod" not in _checked:
        import importlib.machinery
        import importlib.util
        so = build.kernel_path("checked")
        loader = importlib.machinery.ExtensionFileLoader("vpchk.rainflow_ext", so)
        spec = importlib.util.spec_from_file_location("vpchk.rainflow_ext", so, loader=loader)
        mod = importlib.util.module_from_spec(spec)
        loader.exec_module(mod)
        _checked["mod"] = mod
    mod = _checked["mod"]
    old = (_tp.threepoint_loop, _fp.fourpoint_loop)
    _tp.threepoint_loop, _fp.fourpoint_loop = mod.threepoint_loop, mod.fourpoint_loop
    try:
        yield
    finally:
        _tp.threepoint_loop, _fp.fourpoint_loop = old
