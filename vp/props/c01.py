"""C01 - rainflow counting is independent of how the signal is chunked."""

import itertools

import numpy as np
from hypothesis import strategies as st

from ..core import Violation, subcheck, nontrivial_rule, assumptions
from ..gen import signals as gs
from ..refs import rainflow_ref as ref
from . import _rf

nontrivial_rule("C01", "Non-trivial: the signal is fed in >= 2 chunks and the one-piece run has >= 1 closed "
                       "cycle or >= 3 residual points.")
assumptions("C01", [
    "chunks are non-empty (the property says so)",
    "signal values |x| <= 1e9 with resolution >= 1e-6, so that the reversal test diff*diff<0 cannot underflow",
    "the one-piece run of the same detector is the reference (metamorphic oracle); its correctness is C02",
])

KEYS = ("values_from", "values_to", "index_from", "index_to", "residuals", "residual_index")


def rounding_unstable(sig):
    """F20 class: the four-point rule evaluated with rounded double differences and in exact rational arithmetic
    disagree on this signal, i.e. some |x - y| <= |u - v| decision is a tie only because a difference was rounded."""
    tps = ref.turning_points(sig)
    return ref.fourpoint(tps, exact=True) != ref.fourpoint(tps)


def _compare(det, got, want, where, ctx=None, sig=None):
    for k in KEYS:
        if k in want and got[k] != want[k]:
            if ctx is not None and det == "threepoint" and sig is not None and rounding_unstable(sig) and ctx.known("F20"):
                return
            raise Violation("%s: %s differs %s: chunked %r, one piece %r" % (det, k, where, got[k], want[k]),
                            bucket="%s:%s" % (det, k))


def _classify(sig, cuts, ctx):
    n = len(sig)
    rev = set(i for i, _ in ref.interior_reversals(sig))
    ctx.label("chunks=%s" % (len(cuts) + 1 if len(cuts) < 4 else "5+"))
    if n < 3:
        ctx.label("short_signal")
    for c in cuts:
        if c in rev:
            ctx.label("cut_before_reversal")   # chunk starts with the reversal sample
        if c - 1 in rev:
            ctx.label("cut_after_reversal")    # chunk ends with the reversal sample
        if c + 1 in rev:
            ctx.label("cut_one_before_reversal")
        if sig[c] == sig[c - 1]:
            ctx.label("cut_inside_plateau")
    edges = [0] + list(cuts) + [n]
    if any(b - a == 1 for a, b in zip(edges[:-1], edges[1:])) and cuts:
        ctx.label("chunk_of_length_1")


def check_chunked(sig, cuts, ctx, detectors=_rf.DETECTORS, prefixes=True):
    chunks = gs.split(sig, cuts)
    _classify(sig, cuts, ctx)
    n_chunks = len(chunks)
    stride = max(1, n_chunks // 24)
    for det in detectors:
        whole = _rf.snapshot(det, _rf.run_whole(det, sig))
        if len(cuts) >= 1 and (len(whole["values_from"]) >= 1 or len(whole["residuals"]) >= 3):
            ctx.nontrivial()
        if whole["values_from"]:
            ctx.label("has_cycles")

        lens = []

        def on_step(k, d, det=det, lens=lens):
            lens.append(len(chunks[k]))
            # (b) prefix invariant: live state == fresh one-piece run on what has been fed so far
            if prefixes and (k % stride == 0 or k == n_chunks - 1) and k < n_chunks - 1:
                upto = sum(lens)
                _compare(det, _rf.snapshot(det, d), _rf.snapshot(det, _rf.run_whole(det, sig[:upto])),
                         "after chunk %d (prefix of %d samples)" % (k, upto), ctx, sig)
                if det != "fkm":
                    # the bookkeeping is queried between feeds, too (a history of look-ups and feeds)
                    check_bookkeeping(det, d, chunks[:k + 1], sig[:upto])

        d = _rf.run_chunks(det, chunks, on_step=on_step)
        got = _rf.snapshot(det, d)
        _compare(det, got, whole, "at the end", ctx, sig)

        if len(cuts) >= 1:
            # (d) the same partition with every chunk in another container kind / dtype
            dm, kinds = _rf.run_chunks_mixed(det, chunks)
            if len(set(kinds)) > 1:
                ctx.label("mixed_chunk_dtypes")
            _compare(det, _rf.snapshot(det, dm), whole, "at the end with chunk kinds %r" % (kinds,), ctx, sig)

        if det == "fkm":
            continue
        # (c) chunk bookkeeping
        check_bookkeeping(det, d, chunks, sig)


def check_bookkeeping(det, d, chunks, sig):
    """recorder.chunks == chunk lengths; every reported global index maps to the chunk / local position holding that sample."""
    rec = d.recorder
    got = _rf.snapshot(det, d)
    n_chunks = len(chunks)
    if [int(x) for x in rec.chunks] != [len(c) for c in chunks]:
        raise Violation("%s: recorder.chunks %r != chunk lengths %r" % (det, list(rec.chunks), [len(c) for c in chunks]),
                        bucket="%s:chunks" % det)
    pairs = list(zip(got["index_from"], got["values_from"])) + list(zip(got["index_to"], got["values_to"])) \
        + list(zip(got["residual_index"], got["residuals"]))
    if pairs:
        gidx = np.array([p[0] for p in pairs], dtype=np.int64)
        cnum, cloc = rec.chunk_local_index(gidx)
        for (g, v), c, l in zip(pairs, cnum, cloc):
            ok = 0 <= g < len(sig) and 0 <= c < n_chunks and 0 <= l < len(chunks[int(c)]) \
                and chunks[int(c)][int(l)] == sig[g] == v
            if not ok:
                raise Violation("%s: global index %d (value %r) maps to chunk %d pos %d which does not hold that sample (after %d chunks)"
                                % (det, g, v, c, l, n_chunks), bucket="%s:chunk_local_index" % det)


@subcheck("C01", "chunked_random", strategy=lambda tier: gs.chunked_signals(1, 60 if tier == "quick" else 400),
          quick=6000, thorough=300000, crash_guard=True,
          doc="random structured signals x random/targeted partitions; end-to-end and prefix invariant; chunk bookkeeping")
def chunked_random(case, ctx):
    check_chunked(case["signal"], case["cuts"], ctx)


def _enum(tier):
    alpha = (-1.0, 0.0, 1.0, 2.0) if tier == "quick" else (-2.0, -1.0, 0.0, 1.0, 2.0)
    nmax = 6 if tier == "quick" else 7
    for n in range(1, nmax + 1):
        for sig in itertools.product(alpha, repeat=n):
            yield {"signal": list(sig)}


@subcheck("C01", "chunked_exhaustive", enumerate_=_enum, crash_guard=True,
          doc="all signals over a small alphabet up to length 6 (7) x ALL partitions, end-to-end equality")
def chunked_exhaustive(case, ctx):
    sig = case["signal"]
    n = len(sig)
    wholes = {det: _rf.snapshot(det, _rf.run_whole(det, sig)) for det in _rf.DETECTORS}
    if n >= 2 and any(len(w["values_from"]) >= 1 or len(w["residuals"]) >= 3 for w in wholes.values()):
        ctx.nontrivial()
    for mask in range(1 << (n - 1)):
        cuts = [i + 1 for i in range(n - 1) if mask >> i & 1]
        chunks = gs.split(sig, cuts)
        for det in _rf.DETECTORS:
            got = _rf.snapshot(det, _rf.run_chunks(det, chunks))
            _compare(det, got, wholes[det], "for cuts %r" % (cuts,))


@subcheck("C01", "checked_kernel", strategy=lambda tier: gs.chunked_signals(1, 60 if tier == "quick" else 300),
          quick=1500, thorough=60000, crash_guard=True,
          doc="same runs with the bounds-checked build of extension.pyx: no IndexError, identical output")
def checked_kernel(case, ctx):
    sig, cuts = case["signal"], case["cuts"]
    chunks = gs.split(sig, cuts)
    for det in ("threepoint", "fourpoint"):
        plain = _rf.snapshot(det, _rf.run_chunks(det, chunks))
        with _rf.checked_kernel():
            try:
                chk = _rf.snapshot(det, _rf.run_chunks(det, chunks))
            except IndexError as e:
                raise Violation("%s: out-of-bounds access in the kernel (checked build): %s" % (det, e),
                                bucket="%s:oob" % det)
        if len(cuts) >= 1 and (plain["values_from"] or len(plain["residuals"]) >= 3):
            ctx.nontrivial()
        _compare(det, chk, plain, "between plain and bounds-checked kernel")


@subcheck("C01", "final_flush", strategy=lambda tier: gs.chunked_signals(1, 40 if tier == "quick" else 300),
          quick=3000, thorough=100000, crash_guard=True,
          doc="the documented flush=True on the LAST feed (forces processing of the last sample): chunked == one piece")
def final_flush(case, ctx):
    sig, cuts = case["signal"], case["cuts"]
    chunks = gs.split(sig, cuts)
    _classify(sig, cuts, ctx)
    for det in _rf.DETECTORS:
        whole = _rf.snapshot(det, _rf.run_chunks(det, [sig], final_flush=True))
        got = _rf.snapshot(det, _rf.run_chunks(det, chunks, final_flush=True))
        if len(cuts) >= 1 and (whole["values_from"] or len(whole["residuals"]) >= 3):
            ctx.nontrivial()
        _compare(det, got, whole, "at the end (flush=True on the last feed)", ctx, sig)
        plain = _rf.snapshot(det, _rf.run_whole(det, sig))
        ctx.label("flush_closed_more" if len(whole["values_from"]) > len(plain["values_from"]) else "flush_closed_nothing")
        if det != "fkm" and len(whole["residuals"]) != len(plain["residuals"]):
            ctx.label("flush_changed_residual")


@st.composite
def _histories(draw, tier):
    """A feeding history: chunks are drawn one after the other (stateful form)."""
    kind = draw(st.sampled_from(["int2", "int5", "grid"]))
    n = draw(st.integers(1, 12 if tier == "quick" else 40))
    chunks = [draw(st.lists(gs._elements(kind), min_size=1, max_size=5)) for _ in range(n)]
    return {"chunks": chunks}


@subcheck("C01", "feed_history", strategy=_histories, quick=2500, thorough=100000, crash_guard=True,
          doc="model-based history: feed(chunk) repeatedly; invariant after EVERY step: live detectors == fresh one-piece run on the accumulated prefix")
def feed_history(case, ctx):
    chunks = case["chunks"]
    sig = [x for c in chunks for x in c]
    cuts = list(itertools.accumulate(len(c) for c in chunks))[:-1]
    _classify(sig, cuts, ctx)
    for det in _rf.DETECTORS:
        acc = []

        def on_step(k, d, det=det, acc=acc):
            acc.extend(chunks[k])
            _compare(det, _rf.snapshot(det, d), _rf.snapshot(det, _rf.run_whole(det, acc)),
                     "after feed #%d" % k, ctx, sig)
            if det != "fkm":
                check_bookkeeping(det, d, chunks[:k + 1], acc)
        d = _rf.run_chunks(det, chunks, on_step=on_step)
        s = _rf.snapshot(det, d)
        if len(chunks) >= 2 and (s["values_from"] or len(s["residuals"]) >= 3):
            ctx.nontrivial()


def decode_bytes(data, tier=None):
    """Fuzzer bytes -> case.  Byte 0 selects the value alphabet; every further byte is one sample (low 5 bits)
    with bit 7 meaning 'cut after this sample'."""
    if len(data) < 2:
        return None
    mode = data[0] % 3
    sig, cuts = [], []
    for b in data[1:201]:
        v = b & 0x1F
        if mode == 0:
            x = float(v % 5 - 2)
        elif mode == 1:
            x = float(v % 17 - 8)
        else:
            x = (v - 16) / 8.0
        sig.append(x)
        if b & 0x80:
            cuts.append(len(sig))
    cuts = [c for c in cuts if c < len(sig)]
    return {"signal": sig, "cuts": cuts}


decode_bytes.seeds = [bytes([1]) + bytes([(v + 8) | (0x80 if i % 3 == 0 else 0) for i, v in enumerate((2, -3, 5, -1, 3, -4, 4, -2))]), bytes([2] + [16] * 6)]


@subcheck("C01", "chunked_fuzz", fuzz=decode_bytes, quick=0, thorough=400000, crash_guard=True,
          doc="coverage-guided (atheris/libFuzzer, pylife.stress.rainflow instrumented): bytes -> (signal, cuts); same oracle as chunked_random")
def chunked_fuzz(case, ctx):
    check_chunked(case["signal"], case["cuts"], ctx)
