"""C02 - detectors realise the counting definitions and lose no turning point."""

import itertools
from collections import Counter

import numpy as np
from hypothesis import strategies as st

from ..core import Violation, subcheck, nontrivial_rule, assumptions
from ..gen import signals as gs
from ..refs import rainflow_ref as ref
from . import _rf

nontrivial_rule("C02", "Non-trivial: the reference counts >= 2 closed cycles, or the signal has a tie "
                       "(two equal neighbouring ranges, an absolute value equal to the running maximum, a plateau at a reversal).")
assumptions("C02", [
    "reference models in vp/refs/rainflow_ref.py are written from the property statement (four-point rule, "
    "turning-point convention, Clormann-Seeger HCM flow chart) in plain Python",
    "reference and detectors compare the same double-precision differences |x - y| of the same samples, so every <= decision "
    "sees the same numbers for any float64 signal; signals include decimals that single precision cannot represent, values one "
    "ulp / 1e-12 / 1e-9 beside a neighbour (no plateau), |x| <= 1e9",
])


def _labels(sig, tps, ctx):
    vals = [v for _, v in tps]
    ranges = [abs(a - b) for a, b in zip(vals[:-1], vals[1:])]
    tie = False
    if any(a == b for a, b in zip(ranges[:-1], ranges[1:])) or len(set(ranges)) < len(ranges):
        ctx.label("equal_ranges")
        tie = True
    rev = ref.interior_reversals(sig)
    m = 0.0
    for _, v in rev:
        if abs(v) == m and m > 0:
            ctx.label("abs_tie_with_running_max")
            tie = True
        m = max(m, abs(v))
    for i, _ in rev:
        if i + 1 < len(sig) and sig[i + 1] == sig[i]:
            ctx.label("plateau_at_reversal")
            tie = True
    if len(set(sig)) == 1:
        ctx.label("constant")
    return tie


def check_fourpoint(sig, ctx):
    tps = ref.turning_points(sig)
    cycles, resid = ref.fourpoint(tps)
    if ref.fourpoint(tps, exact=True) != (cycles, resid):
        # two ranges differ by less than the rounding of a difference: the textbook rule in exact arithmetic and in
        # double precision disagree, no implementation can be held to either (counted, not asserted)
        ctx.skip("a <= decision depends on the rounding of a difference")
    tie = _labels(sig, tps, ctx)
    if len(cycles) >= 2 or tie:
        ctx.nontrivial()
    got = _rf.snapshot("fourpoint", _rf.run_whole("fourpoint", sig))
    want = {
        "values_from": [c[0][1] for c in cycles], "values_to": [c[1][1] for c in cycles],
        "index_from": [c[0][0] for c in cycles], "index_to": [c[1][0] for c in cycles],
        "residuals": [v for _, v in resid], "residual_index": [i for i, _ in resid],
    }
    for k, w in want.items():
        if got[k] != w:
            raise Violation("fourpoint: %s = %r, four-point rule on the turning points gives %r" % (k, got[k], w),
                            bucket="fourpoint:%s" % k)
    # three-point: same multiset of cycles (with their indices), same residual
    g3 = _rf.snapshot("threepoint", _rf.run_whole("threepoint", sig))
    m3 = Counter(zip(g3["values_from"], g3["values_to"], g3["index_from"], g3["index_to"]))
    m4 = Counter(zip(want["values_from"], want["values_to"], want["index_from"], want["index_to"]))
    # a cycle is an unordered pair of turning points for the multiset comparison
    norm = lambda m: Counter({tuple(sorted(((k[2], k[0]), (k[3], k[1])))): v for k, v in m.items()})  # noqa: E731
    if norm(m3) != norm(m4):
        raise Violation("threepoint: cycle multiset %r != four-point reference %r" % (sorted(m3.elements()), sorted(m4.elements())),
                        bucket="threepoint:multiset")
    if g3["residuals"] != want["residuals"] or g3["residual_index"] != want["residual_index"]:
        raise Violation("threepoint: residual %r @%r != reference %r @%r" % (g3["residuals"], g3["residual_index"],
                                                                           want["residuals"], want["residual_index"]),
                        bucket="threepoint:residual")
    # validity predicates, independent of the reference's counting rule
    tp_index = Counter(i for i, _ in tps)
    for det, g in (("fourpoint", got), ("threepoint", g3)):
        used = Counter(g["index_from"]) + Counter(g["index_to"]) + Counter(g["residual_index"])
        if used != tp_index:
            raise Violation("%s: turning points used %r, turning points of the signal %r" % (det, sorted(used.elements()), sorted(tp_index.elements())),
                            bucket="%s:each_turn_once" % det)
        for idx, val in list(zip(g["index_from"], g["values_from"])) + list(zip(g["index_to"], g["values_to"])) + \
                list(zip(g["residual_index"], g["residuals"])):
            if not (0 <= idx < len(sig)) or sig[idx] != val:
                raise Violation("%s: index %d reported with value %r but the sample is %r" % (det, idx, val, sig[idx] if 0 <= idx < len(sig) else None),
                                bucket="%s:index_value" % det)


def fkm_tie_class(rev):
    """F02 class: some reversal's absolute value equals the running maximum of the absolute values
    of the earlier reversals (an absolute-value tie)."""
    m = None
    for v in rev:
        if m is not None and abs(v) == m:
            return True
        m = abs(v) if m is None else max(m, abs(v))
    return False


def check_fkm(sig, ctx):
    rev = [v for _, v in ref.interior_reversals(sig)]
    cycles, resid = ref.hcm_clormann_seeger(rev)
    if ref.hcm_clormann_seeger(rev, exact=True) != (cycles, resid):
        ctx.skip("a >= decision depends on the rounding of a difference")
    tie = fkm_tie_class(rev)
    if tie:
        ctx.label("abs_tie_with_running_max")
    if len(cycles) >= 2 or tie:
        ctx.nontrivial()
    if tie and ctx.known("F02"):
        return
    d = _rf.run_whole("fkm", sig)
    got = list(zip((float(x) for x in d.recorder.values_from), (float(x) for x in d.recorder.values_to)))
    gres = [float(x) for x in d.residuals]
    if got != cycles:
        raise Violation("fkm: cycles %r, Clormann-Seeger HCM on the reversals %r gives %r" % (got, rev, cycles), bucket="fkm:cycles")
    if gres != resid:
        raise Violation("fkm: residuals %r, HCM reference %r (reversals %r)" % (gres, resid, rev), bucket="fkm:residuals")
    used = Counter(v for c in got for v in c) + Counter(gres)
    if used != Counter(rev):
        raise Violation("fkm: reversal values used %r != reversals %r" % (sorted(used.elements()), sorted(rev)), bucket="fkm:each_turn_once")


def check_find_turns(sig, ctx):
    idx, vals = _rf.RF.find_turns(np.asarray(sig, dtype=np.float64))
    want = ref.interior_reversals(sig)
    if [int(i) for i in idx] != [i for i, _ in want] or [float(v) for v in vals] != [v for _, v in want]:
        raise Violation("find_turns: %r / %r, reference reversals %r" % (list(idx), list(vals), want), bucket="find_turns")


def _magnitude(sig, ctx):
    """The signal at another order of magnitude (exact scaling by a power of two, chosen as a pure function of the
    signal): the counting rules compare ranges, whose squares or products must not be what the implementation relies on."""
    e = (0, 0, 0, 200, 520, -200)[(len(sig) + int(abs(sig[0]) * 4) % 5) % 6]
    if e:
        ctx.label("scaled_by_2^%d" % e)
        return [x * 2.0 ** e for x in sig]
    return sig


def _sig(tier):
    return gs.signals(min_size=2, max_size=50 if tier == "quick" else 300, exact_only=False)


@subcheck("C02", "reference_random", strategy=lambda tier: _sig(tier).map(lambda s: {"signal": s}),
          quick=8000, thorough=400000, crash_guard=True,
          doc="four-point == reference (cycles, order, indices, residual); three-point same multiset+residual; every turning point used once; index addresses value; find_turns == reference reversals")
def reference_random(case, ctx):
    sig = _magnitude(case["signal"], ctx)
    check_find_turns(sig, ctx)
    check_fourpoint(sig, ctx)


@subcheck("C02", "fkm_random", strategy=lambda tier: _sig(tier).map(lambda s: {"signal": s}),
          quick=8000, thorough=400000,
          doc="FKM detector == Clormann-Seeger HCM on the interior reversals")
def fkm_random(case, ctx):
    check_fkm(_magnitude(case["signal"], ctx), ctx)


def _enum(tier):
    if tier == "quick":
        specs = [((-2.0, -1.0, 0.0, 1.0, 2.0), 6), ((-1.0, 0.0, 1.0), 8)]
    else:
        specs = [((-3.0, -2.0, -1.0, 0.0, 1.0, 2.0, 3.0), 7), ((-2.0, -1.0, 0.0, 1.0, 2.0), 9)]
    done = []
    for alpha, nmax in specs:
        for n in range(2, nmax + 1):
            for sig in itertools.product(alpha, repeat=n):
                if any(n <= m and set(sig) <= set(al) for al, m in done):
                    continue
                yield {"signal": list(sig)}
        done.append((alpha, nmax))


@subcheck("C02", "reference_exhaustive", enumerate_=_enum, crash_guard=True,
          doc="all integer signals over small alphabets (the tie regime), all three detectors against the references")
def reference_exhaustive(case, ctx):
    sig = case["signal"]
    check_find_turns(sig, ctx)
    check_fourpoint(sig, ctx)
    check_fkm(sig, ctx)


def decode_bytes(data, tier=None):
    from .c01 import decode_bytes as d
    case = d(data)
    if case is None or len(case["signal"]) < 2:
        return None
    return {"signal": case["signal"]}


@subcheck("C02", "reference_fuzz", fuzz=decode_bytes, quick=0, thorough=400000, crash_guard=True,
          doc="coverage-guided (atheris/libFuzzer): bytes -> signal; all three detectors against the references")
def reference_fuzz(case, ctx):
    sig = case["signal"]
    check_find_turns(sig, ctx)
    check_fourpoint(sig, ctx)
    check_fkm(sig, ctx)
