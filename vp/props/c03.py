"""C03 - the rainflow result depends only on the reversal sequence (symmetries)."""

import warnings

import numpy as np
import pandas as pd
from hypothesis import strategies as st

from ..core import Violation, subcheck, nontrivial_rule, assumptions
from ..gen import signals as gs
from ..refs import rainflow_ref as ref
from . import _rf

nontrivial_rule("C03", "Non-trivial: the base signal yields >= 1 closed cycle and the derived input differs from the base "
                       "(>= 1 inserted sample / NaN / non-default index / a != 1 or b != 0).")
assumptions("C03", [
    "refinement never appends samples after the last sample (the 'last sample' residual is positional by definition)",
    "general affine maps are asserted only when no two turning-point ranges of the base are closer than 1e-9 relative "
    "(otherwise rounding may legitimately flip a <= decision); such cases are counted as discards",
    "NaNs are never the first or last sample (the property says so)",
])


def _snap(det, sig):
    return _rf.snapshot(det, _rf.run_whole(det, sig))


def _has_cycle(sig):
    return len(ref.fourpoint_signal(sig)[0]) >= 1


# ---------------------------------------------------------------- refinement
@st.composite
def _refinements(draw, tier):
    sig = draw(gs.signals(min_size=2, max_size=30 if tier == "quick" else 150, exact_only=True))
    out, pos = [], []
    n = len(sig)
    for i, x in enumerate(sig):
        pos.append(len(out))
        out.append(x)
        if i == n - 1:
            break
        nxt = sig[i + 1]
        mode = draw(st.sampled_from(["none", "none", "repeat", "between", "both"]))
        if mode in ("repeat", "both"):
            out.extend([x] * draw(st.integers(1, 3)))
        if mode in ("between", "both") and nxt != x:
            k = draw(st.integers(1, 3))
            pts = []
            lo, hi = x, nxt
            for _ in range(k):
                mid = (lo + hi) / 2.0
                if not (min(x, nxt) < mid < max(x, nxt)) or mid in (lo, hi):
                    break
                pts.append(mid)
                lo = mid
                if draw(st.booleans()):
                    pts.append(mid)       # plateau on the monotone segment
            out.extend(pts)
    return {"signal": sig, "refined": out, "map": pos}


@subcheck("C03", "refinement", strategy=_refinements, quick=4000, thorough=150000, crash_guard=True,
          doc="insert non-reversal samples (strictly between neighbours, repeats after a sample): same values, indices move with the samples")
def refinement(case, ctx):
    sig, fine, mp = case["signal"], case["refined"], case["map"]
    if len(fine) > len(sig) and _has_cycle(sig):
        ctx.nontrivial()
    if any(fine[i] == fine[i - 1] for i in range(1, len(fine))) :
        ctx.label("plateau_inserted")
    for det in _rf.DETECTORS:
        a, b = _snap(det, sig), _snap(det, fine)
        for k in ("values_from", "values_to", "residuals"):
            if a[k] != b[k]:
                raise Violation("%s: %s changed by non-reversal samples: base %r, refined %r" % (det, k, a[k], b[k]), bucket="refine:%s:%s" % (det, k))
        if det != "fkm":
            for k in ("index_from", "index_to", "residual_index"):
                want = [mp[i] for i in a[k]]
                if b[k] != want:
                    raise Violation("%s: %s of the refined signal %r, expected the moved indices %r" % (det, k, b[k], want), bucket="refine:%s:%s" % (det, k))


# ---------------------------------------------------------------- negation
@subcheck("C03", "negation", strategy=lambda tier: gs.signals(2, 40 if tier == "quick" else 200).map(lambda s: {"signal": s}),
          quick=3000, thorough=100000, crash_guard=True, doc="negated signal -> negated values, same indices (all detectors)")
def negation(case, ctx):
    sig = case["signal"]
    neg = [-x + 0.0 for x in sig]
    if _has_cycle(sig):
        ctx.nontrivial()
    for det in _rf.DETECTORS:
        a, b = _snap(det, sig), _snap(det, neg)
        for k in a:
            want = [-x + 0.0 for x in a[k]] if k in ("values_from", "values_to", "residuals") else a[k]
            if b[k] != want:
                raise Violation("%s: %s of the negated signal %r, expected %r" % (det, k, b[k], want), bucket="negation:%s:%s" % (det, k))


# ---------------------------------------------------------------- affine
@st.composite
def _affine(draw, tier):
    exact = draw(st.booleans())
    nmax = 30 if tier == "quick" else 120
    if exact:
        sig = draw(gs.signals(2, nmax, kinds=["int5", "int40", "grid"], exact_only=True))
        # powers of two far from 1 as well: a comparison with an ABSOLUTE tolerance shows at small or large scales
        k = draw(st.one_of(st.integers(-6, 10), st.integers(-40, 30)))
        a = 2.0 ** k
        b = float(draw(st.integers(-4000, 4000))) / 8.0 if -6 <= k <= 10 else 0.0
    else:
        sig = [i / 1000.0 for i in draw(st.lists(st.integers(-10**6, 10**6), min_size=2, max_size=nmax, unique=True))]
        a = draw(st.floats(1e-3, 1e3, allow_nan=False))
        b = draw(st.floats(-1e6, 1e6, allow_nan=False))
    return {"signal": sig, "a": a, "b": b, "exact": exact}


@subcheck("C03", "affine", strategy=_affine, quick=4000, thorough=150000, crash_guard=True,
          doc="y = a x + b, a > 0: three/four-point values map the same way, indices unchanged")
def affine(case, ctx):
    sig, a, b = case["signal"], case["a"], case["b"]
    ctx.label("exact" if case["exact"] else "general")
    if not case["exact"]:
        vals = sorted(set(v for _, v in ref.turning_points(sig)))
        rng = sorted(abs(x - y) for i, x in enumerate(vals) for y in vals[:i])
        scale = max(rng) if rng else 0.0
        if any(r2 - r1 <= 1e-9 * scale for r1, r2 in zip(rng[:-1], rng[1:])) or (rng and rng[0] <= 1e-9 * scale):
            ctx.skip("general affine map with near-equal ranges (rounding may flip a decision)")
        # ranges between *all* turning points, not only distinct values: duplicates give exact ties
        tv = [v for _, v in ref.turning_points(sig)]
        if len(set(tv)) != len(tv):
            ctx.skip("general affine map with repeated turning-point values")
    mapped = [a * x + b for x in sig]
    if _has_cycle(sig) and (a != 1.0 or b != 0.0):
        ctx.nontrivial()
    for det in ("threepoint", "fourpoint"):
        s0, s1 = _snap(det, sig), _snap(det, mapped)
        for k in s0:
            want = [a * x + b for x in s0[k]] if k in ("values_from", "values_to", "residuals") else s0[k]
            if s1[k] != want:
                raise Violation("%s: %s under y=%r*x+%r: %r, expected %r" % (det, k, a, b, s1[k], want), bucket="affine:%s:%s" % (det, k))


# ---------------------------------------------------------------- NaN
@st.composite
def _with_nans(draw, tier):
    sig = draw(gs.signals(2, 30 if tier == "quick" else 120))
    n = len(sig)
    k = draw(st.integers(1, 4))
    out = list(sig)
    # positions are insertion points strictly inside the signal
    mode = draw(st.sampled_from(["random", "at_reversal", "consecutive"]))
    rev = [i for i, _ in ref.interior_reversals(sig)]
    for _ in range(k):
        m = len(out)
        if mode == "at_reversal" and rev:
            r = rev[draw(st.integers(0, len(rev) - 1))]
            # find current position of original sample r: count non-nan
            cnt, p = -1, 0
            for p, v in enumerate(out):
                if v is not None:
                    cnt += 1
                    if cnt == r:
                        break
            ins = min(max(1, p + draw(st.integers(0, 1))), m - 1)
        else:
            ins = draw(st.integers(1, m - 1))
        reps = draw(st.integers(2, 3)) if mode == "consecutive" else 1
        out[ins:ins] = [None] * reps
    return {"signal": sig, "with_nan": out}


@subcheck("C03", "nan_dropped", strategy=_with_nans, quick=3000, thorough=100000, crash_guard=True,
          doc="interior NaNs: UserWarning, values as for the cleaned signal, indices are positions in the ORIGINAL array")
def nan_dropped(case, ctx):
    sig = case["signal"]
    raw = [float("nan") if v is None else v for v in case["with_nan"]]
    keep = [i for i, v in enumerate(case["with_nan"]) if v is not None]
    if _has_cycle(sig):
        ctx.nontrivial()
    for det in _rf.DETECTORS:
        clean = _snap(det, sig)
        with warnings.catch_warnings(record=True) as w:
            warnings.simplefilter("always")
            got = _snap(det, raw)
        if not any(issubclass(x.category, UserWarning) and "NaN" in str(x.message) for x in w):
            raise Violation("%s: NaN samples dropped without the documented UserWarning" % det, bucket="nan:%s:warning" % det)
        for k in clean:
            want = clean[k] if k in ("values_from", "values_to", "residuals") else [keep[i] for i in clean[k]]
            if got[k] != want:
                raise Violation("%s: %s with NaNs %r, expected %r (signal %r)" % (det, k, got[k], want, raw), bucket="nan:%s:%s" % (det, k))


@st.composite
def _with_nans_chunked(draw, tier):
    case = draw(_with_nans(tier))
    raw = case["with_nan"]
    n = len(raw)
    # cuts such that every chunk starts and ends with a real sample (the NaN clause holds per chunk)
    ok = [c for c in range(1, n) if raw[c - 1] is not None and raw[c] is not None]
    cuts = sorted(set(draw(st.lists(st.sampled_from(ok), max_size=4)))) if ok else []
    case["cuts"] = cuts
    return case


@subcheck("C03", "nan_chunked", strategy=_with_nans_chunked, quick=2500, thorough=80000, crash_guard=True,
          doc="NaN clause combined with chunked feeding (every chunk starts and ends with a real sample): values as for the cleaned signal, indices are positions in the ORIGINAL array")
def nan_chunked(case, ctx):
    sig = case["signal"]
    raw = [float("nan") if v is None else v for v in case["with_nan"]]
    keep = [i for i, v in enumerate(case["with_nan"]) if v is not None]
    cuts = case["cuts"]
    if _has_cycle(sig) and cuts:
        ctx.nontrivial()
    ctx.label("chunks=%d" % (len(cuts) + 1))
    edges = [0] + cuts + [len(raw)]
    chunks = [raw[a:b] for a, b in zip(edges[:-1], edges[1:])]
    if any(any(x != x for x in c[1:-1]) and len(c) >= 3 and c[-1] == next((y for y in reversed(c[:-1]) if y == y), None) for c in chunks):
        ctx.label("nan_inside_trailing_plateau")
    # the cleaned signal is fed in the corresponding chunks (chunk independence itself is C01)
    clean_cuts = [sum(1 for i in keep if i < c) for c in cuts]
    clean_chunks = [ch for ch in gs.split(sig, [c for c in clean_cuts if 0 < c < len(sig)]) if ch]
    for det in _rf.DETECTORS:
        clean = _rf.snapshot(det, _rf.run_chunks(det, clean_chunks))
        with warnings.catch_warnings():
            warnings.simplefilter("ignore")
            got = _rf.snapshot(det, _rf.run_chunks(det, chunks))
        for k in clean:
            want = clean[k] if k in ("values_from", "values_to", "residuals") else [keep[i] for i in clean[k]]
            if got[k] != want:
                raise Violation("%s: %s with NaNs fed in chunks %r: %r, expected %r" % (det, k, chunks, got[k], want), bucket="nanchunk:%s:%s" % (det, k))


# ---------------------------------------------------------------- Series index types
@st.composite
def _series(draw, tier):
    sig = draw(gs.signals(2, 30 if tier == "quick" else 120))
    kind = draw(st.sampled_from(["shuffled_int", "negative_int", "float", "datetime", "string", "offset_int", "duplicate_int"]))
    perm = draw(st.permutations(range(len(sig))))
    return {"signal": sig, "index_kind": kind, "perm": list(perm)}


def _make_index(kind, perm):
    n = len(perm)
    if kind == "shuffled_int":
        return pd.Index(perm)
    if kind == "negative_int":
        return pd.Index([-(p + 1) for p in perm])
    if kind == "offset_int":
        return pd.Index([p + 1 for p in range(n)])
    if kind == "duplicate_int":
        return pd.Index([p % 2 for p in range(n)])
    if kind == "float":
        return pd.Index([p * 0.5 - 3.0 for p in perm])
    if kind == "datetime":
        return pd.DatetimeIndex(pd.Timestamp("2020-01-01") + pd.to_timedelta(list(perm), unit="s"))
    if kind == "string":
        return pd.Index(["s%03d" % p for p in perm])
    raise ValueError(kind)


@subcheck("C03", "series_index", strategy=_series, quick=2500, thorough=60000, crash_guard=True,
          doc="pd.Series with integer (shuffled, negative, offset, duplicate), float, datetime, string index == its value array")
def series_index(case, ctx):
    sig = case["signal"]
    ser = pd.Series(sig, index=_make_index(case["index_kind"], case["perm"]), dtype=np.float64)
    ctx.label(case["index_kind"])
    if _has_cycle(sig):
        ctx.nontrivial()
    for det in _rf.DETECTORS:
        a = _snap(det, sig)
        d = _rf.make(det)
        d.process(ser)
        b = _rf.snapshot(det, d)
        if a != b:
            k = next(k for k in a if a[k] != b[k])
            raise Violation("%s: Series with %s index gives %s %r, value array gives %r" % (det, case["index_kind"], k, b[k], a[k]),
                            bucket="series:%s:%s" % (det, k))
        # two chunks as Series, too
        if len(sig) >= 4:
            h = len(sig) // 2
            d2 = _rf.make(det)
            d2.process(ser.iloc[:h]).process(ser.iloc[h:])
            c = _rf.snapshot(det, d2)
            # compared with the value array fed in the SAME two chunks (chunk independence itself is C01)
            a2 = _rf.snapshot(det, _rf.run_chunks(det, [sig[:h], sig[h:]]))
            if a2 != c:
                k = next(k for k in a2 if a2[k] != c[k])
                raise Violation("%s: Series (%s index) fed in two chunks gives %s %r, value array fed in the same chunks %r" % (det, case["index_kind"], k, c[k], a2[k]),
                                bucket="series2:%s:%s" % (det, k))
