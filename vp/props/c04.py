"""C04 - the second HCM pass counts exactly the steady-state hystereses of the sequence."""

import itertools
from collections import Counter

import numpy as np
from hypothesis import strategies as st

from ..core import Violation, subcheck, nontrivial_rule, assumptions
from ..refs import rainflow_ref as ref
from . import _hcm

nontrivial_rule("C04", "Non-trivial: the periodic reference has >= 2 cycles, or the junction of the two passes is not a plain "
                       "reversal (last sample not a reversal of the repeated sequence, trailing/leading plateau, first == last, "
                       "last sample between zero and the first sample).")
assumptions("C04", [
    "loads are small integers times a scale (exact arithmetic, far from the 1e-12 guards in the detector)",
    "the notch law is a vehicle only (Binned(ExtendedNeuber) sized to the largest |load|): loads pass through unmodified",
    "reference: plain-Python periodic four-point rainflow in vp/refs/rainflow_ref.py",
    "prepending samples changes the physical start of the history, so that operator is compared on pass 2 only",
])


def _is_reversal_at(seq_ext, pos):
    """Is the run of equal values containing position ``pos`` a strict reversal of seq_ext?"""
    v = seq_ext[pos]
    i = pos
    while i > 0 and seq_ext[i - 1] == v:
        i -= 1
    j = pos
    while j + 1 < len(seq_ext) and seq_ext[j + 1] == v:
        j += 1
    if i == 0 or j == len(seq_ext) - 1:
        return False
    return (v - seq_ext[i - 1]) * (seq_ext[j + 1] - v) < 0


def junction(seq):
    """Classify the junction last -> first of the repeated sequence.
    t_real: the last sample is a reversal of the repeated sequence (last -> first);
    t_zero: it is a reversal when a zero is put between the runs (last -> 0 -> first)."""
    first, last = seq[0], seq[-1]
    n = len(seq)
    labels = set()
    if seq[-1] == seq[-2]:
        labels.add("trailing_plateau")
    if seq[0] == seq[1]:
        labels.add("leading_plateau")
    if first == last:
        labels.add("first_eq_last")
    t_real = _is_reversal_at([0.0] + list(seq) + list(seq), n)
    t_zero = _is_reversal_at([0.0] + list(seq) + [0.0] + list(seq), n)
    labels.add("last_is_periodic_reversal" if t_real else "last_not_periodic_reversal")
    labels.add("last_turns_towards_zero" if t_zero else "last_not_turn_towards_zero")
    if min(0.0, first) < last < max(0.0, first):
        labels.add("last_between_zero_and_first")
    if last * first < 0:
        labels.add("last_first_opposite_sign")
    m = max(abs(v) for v in seq)
    if abs(first) == m:
        labels.add("starts_at_max")
    if abs(last) == m:
        labels.add("ends_at_max")
    return labels, t_real, t_zero


def counted(seq, scale=1.0, ulps=None):
    loads = [x * scale for x in seq]
    for i, k in (ulps or []):
        loads[i] = loads[i] * (1.0 + k * 2.0 ** -52)
    law, binned = _hcm.binned_law("EN", max_load=max(abs(x) for x in loads), bins=100)
    det, rec = _hcm.run_two_pass(loads, binned)
    df = rec.collective
    rows = list(zip(df["loads_min"].tolist(), df["loads_max"].tolist(),
                    [bool(x) for x in df["is_closed_hysteresis"]], df["run_index"].tolist()))
    return rows


def residual_F01_class(seq):
    """Known residual of F01 (see DESIGN.md): the last sample is a reversal of the repeated sequence
    but no reversal towards the initial zero (it lies on the zero side of its predecessor)."""
    labels, t_real, t_zero = junction(seq)
    return t_real and not t_zero


def _nominal(rows, seq, scale):
    """Map recorded loads that differ from a nominal level by rounding only (<= 1e-12 relative) back to the level."""
    levels = sorted(set(x * scale for x in seq) | set(-x * scale for x in seq) | {0.0})   # half loops are symmetric about zero
    top = max(abs(x) for x in levels)

    def snap(v):
        t = min(levels, key=lambda u: abs(u - v))
        if abs(t - v) > 1e-12 * top:
            raise Violation("recorded load %r is none of the load levels %r of the sequence" % (v, levels), bucket="foreign_level")
        return t
    return [(snap(lo), snap(hi), closed, run) for lo, hi, closed, run in rows]


def check_second_pass(seq, scale, ctx, ulps=None):
    labels, t_real, t_zero = junction(seq)
    ctx.label(*labels)
    if ulps:
        ctx.label("extreme_level_off_by_ulps")
    want = Counter((lo * scale, hi * scale) for lo, hi in ref.periodic_cycles(seq))
    plain = labels <= {"last_is_periodic_reversal", "last_turns_towards_zero", "last_first_opposite_sign",
                       "starts_at_max", "ends_at_max"}
    if sum(want.values()) >= 2 or not plain:
        ctx.nontrivial()
    rows = counted(seq, scale, ulps)
    if ulps:
        # samples of the extreme level that differ by a few ulps (0.1*3*1000 vs 300.0) are the same load level
        rows = _nominal(rows, seq, scale)
    got = Counter((lo, hi) for lo, hi, closed, run in rows if run == 2)
    if got != want:
        if residual_F01_class(seq) and ctx.known("F01b"):
            # known residual: cycles that the last sample closes are counted once more (see DESIGN.md F01b);
            # anything else in this class is still a violation
            surplus, missing = got - want, want - got
            last = seq[-1] * scale
            if not missing and all(c in want and (last <= c[0] or last >= c[1]) for c in surplus):
                return None
        raise Violation("second pass counts %r, the repeated sequence %r has the cycles %r" % (
            sorted(got.elements()), [x * scale for x in seq], sorted(want.elements())), bucket="second_pass_multiset")
    for lo, hi, closed, run in rows:
        if run == 2 and not closed:
            raise Violation("half-counted (Memory 3) hysteresis (%r,%r) in the second pass of %r" % (lo, hi, seq), bucket="half_in_second_pass")
        if not closed and lo != -hi:
            raise Violation("half-counted hysteresis (%r,%r) is not symmetric about zero (sequence %r)" % (lo, hi, seq), bucket="half_not_symmetric")
        if lo > hi:
            raise Violation("loads_min %r > loads_max %r" % (lo, hi), bucket="min_gt_max")
    return rows


@st.composite
def _sequences(draw, tier):
    nmax = 14 if tier == "quick" else 40
    alpha = draw(st.sampled_from([3, 8, 40]))
    seq = draw(st.lists(st.integers(-alpha, alpha), min_size=2, max_size=nmax).filter(lambda s: len(set(s)) >= 2))
    seq = [float(x) for x in seq]
    op = draw(st.sampled_from(["none", "none", "trail_plateau", "lead_plateau", "first_eq_last", "between_zero_first",
                               "nonrev_end", "beyond_first", "end_at_max", "start_at_max"]))
    first = seq[0]
    if op == "trail_plateau":
        seq = seq + [seq[-1]] * draw(st.integers(1, 2))
    elif op == "lead_plateau":
        seq = [seq[0]] * draw(st.integers(1, 2)) + seq
    elif op == "first_eq_last" and seq[-1] != first:
        seq = seq + [first]
    elif op == "between_zero_first" and abs(first) >= 2:
        seq = seq + [float(draw(st.integers(1, int(abs(first)) - 1))) * (1 if first > 0 else -1)]
    elif op == "nonrev_end":
        # a last sample strictly between its predecessor and the first sample: no reversal of the repeated sequence
        a, b = seq[-1], first
        if abs(a - b) >= 2:
            seq = seq + [float(draw(st.integers(int(min(a, b)) + 1, int(max(a, b)) - 1)))]
    elif op == "beyond_first":
        seq = seq + [first + float(draw(st.integers(1, 3))) * draw(st.sampled_from([-1, 1]))]
    elif op == "end_at_max":
        seq = seq + [(max(abs(x) for x in seq) + draw(st.integers(0, 2))) * draw(st.sampled_from([-1.0, 1.0]))]
    elif op == "start_at_max":
        seq = [(max(abs(x) for x in seq) + draw(st.integers(0, 2))) * draw(st.sampled_from([-1.0, 1.0]))] + seq
    scale = draw(st.sampled_from([1.0, 12.5, 100.0]))
    case = {"seq": seq, "scale": scale}
    if draw(st.integers(0, 5)) == 0:
        # the extreme load level reached several times, with both signs, the samples differing by rounding only
        m = max(abs(x) for x in seq)
        extra = draw(st.lists(st.tuples(st.integers(0, len(seq)), st.sampled_from([-1.0, 1.0])), min_size=1, max_size=3))
        for pos, sign in extra:
            seq.insert(min(pos, len(seq)), sign * m)
        where = [i for i, x in enumerate(seq) if abs(x) == m]
        ks = {}
        for i in where:
            # equal neighbours stay equal (a plateau must not become a pair of tiny reversals)
            ks[i] = ks[i - 1] if i - 1 in ks and seq[i - 1] == seq[i] else draw(st.sampled_from([0, 1, 1, 2, 3]))
        if seq[0] == seq[-1] and 0 in ks:
            j = len(seq) - 1
            while j in ks and seq[j] == seq[0]:
                ks[j] = ks[0]
                j -= 1
        case["ulps"] = [[i, ks[i]] for i in where]
    return case


@subcheck("C04", "second_pass_random", strategy=_sequences, quick=2500, thorough=80000,
          doc="run-2 multiset of (loads_min, loads_max) == periodic rainflow reference; all closed; half loops only in run 1 and symmetric")
def second_pass_random(case, ctx):
    check_second_pass(case["seq"], case["scale"], ctx, case.get("ulps"))


def _enum(tier):
    alpha = (-2.0, -1.0, 0.0, 1.0, 2.0)
    nmax = 5 if tier == "quick" else 7
    for n in range(2, nmax + 1):
        for seq in itertools.product(alpha, repeat=n):
            if len(set(seq)) >= 2:
                yield {"seq": list(seq), "scale": 10.0}


@subcheck("C04", "second_pass_exhaustive", enumerate_=_enum,
          doc="all sequences over {-2..2} up to length 5 (7): every junction class in the tie regime")
def second_pass_exhaustive(case, ctx):
    check_second_pass(case["seq"], case["scale"], ctx)


@st.composite
def _refined(draw, tier):
    base = draw(_sequences(tier))
    seq = base["seq"]
    out = []
    n = len(seq)
    prepend = []
    mode = draw(st.sampled_from(["inner", "inner", "end", "start", "all"]))
    for i, x in enumerate(seq):
        out.append(x)
        nxt = seq[i + 1] if i + 1 < n else seq[0]
        inner = i + 1 < n
        if inner and mode not in ("inner", "all"):
            continue
        if not inner and mode not in ("end", "all"):
            continue
        what = draw(st.sampled_from(["none", "repeat", "between", "both"]))
        if what in ("repeat", "both"):
            out.extend([x] * draw(st.integers(1, 2)))
        if what in ("between", "both") and nxt != x:
            k = draw(st.integers(1, 2))
            lo = x
            for _ in range(k):
                mid = (lo + nxt) / 2.0
                out.append(mid)
                lo = mid
    if mode == "start":
        # samples before the first one, between the last and the first sample
        a, b = seq[-1], seq[0]
        if a != b:
            k = draw(st.integers(1, 2))
            lo = a
            for _ in range(k):
                mid = (lo + b) / 2.0
                prepend.append(mid)
                lo = mid
    return {"seq": seq, "refined": prepend + out, "scale": base["scale"], "prepended": bool(prepend)}


@subcheck("C04", "refinement", strategy=_refined, quick=1500, thorough=50000,
          doc="non-reversal samples (between neighbours, repeats, at the end towards the first sample, before the first sample) do not change what is counted")
def refinement(case, ctx):
    seq, fine, scale = case["seq"], case["refined"], case["scale"]
    labels, t_real, t_zero = junction(seq)
    ctx.label(*labels)
    ctx.label("prepended" if case["prepended"] else "inserted_or_appended")
    if len(fine) > len(seq):
        ctx.nontrivial()
    a, b = counted(seq, scale), counted(fine, scale)
    if case["prepended"]:
        a = [r for r in a if r[3] == 2]
        b = [r for r in b if r[3] == 2]
    if Counter(a) != Counter(b):
        if (residual_F01_class(seq) or residual_F01_class(fine)) and ctx.known("F01b"):
            return
        raise Violation("counting changed by non-reversal samples: base %r -> %r ; refined %r -> %r" % (seq, sorted(a), fine, sorted(b)),
                        bucket="refinement" + (":prepended" if case["prepended"] else ""))


def decode_bytes(data, tier=None):
    """Fuzzer bytes -> case: byte 0 picks the scale, every further byte is one load in -15..15 (low 5 bits)."""
    if len(data) < 3:
        return None
    seq = [float((b & 0x1F) - 15) for b in data[1:41]]
    if len(set(seq)) < 2:
        return None
    return {"seq": seq, "scale": [1.0, 12.5, 100.0][data[0] % 3]}


decode_bytes.seeds = [bytes([0]) + bytes(v + 15 for v in (10, -10, 8, 0, 6, 4, 7)), bytes([2] + [16] * 6)]


@subcheck("C04", "second_pass_fuzz", fuzz=decode_bytes, quick=0, thorough=40000,
          doc="coverage-guided (atheris/libFuzzer, fkm_nonlinear.py instrumented): bytes -> load sequence; same oracle as second_pass_random")
def second_pass_fuzz(case, ctx):
    check_second_pass(case["seq"], case["scale"], ctx)
