"""C05 - HCM stress-strain bookkeeping matches the guideline procedure, point by point."""

import math

import numpy as np
import pandas as pd
from hypothesis import strategies as st

from ..core import Violation, subcheck, nontrivial_rule, assumptions
from ..refs import hcm_fkm_ref as href
from . import _hcm
from . import c04

nontrivial_rule("C05", "Non-trivial: the reference run has >= 1 Memory-2 continuation or a Memory-3 event, or nesting depth >= 2, "
                       "or >= 2 points are assessed at once.")
assumptions("C05", [
    "reference: vp/refs/hcm_fkm_ref.py (plain floats), driven through the SCALAR interface of the same Binned law object, "
    "i.e. a different code path of Binned than the Series / multi-index path the detector uses",
    "loads are small integers times a scale: all range comparisons of the procedure are exact",
    "which pass a hysteresis is booked under follows the flush rule of the implementation (C04 decides whether the count is right)",
    "batch vs alone is asserted for per-point load maxima (per-node tables); for load ratios that are powers of two loads and class "
    "edges scale exactly; for other ratios sequences are i/m with a prime m and a case is skipped when a load or range of any "
    "point lies within 1e-9 (relative) of a class edge (the class would depend on rounding)",
    "running strain extremes = smallest/largest strain of all points visited so far, including the unloaded state (recorder docstring)",
])

MATERIALS = {}


def _material(group, R_m):
    key = (group, R_m)
    if key not in MATERIALS:
        import pylife.strength.fkm_nonlinear.parameter_calculations as pc
        ap = pc.calculate_cyclic_assessment_parameters(pd.Series({"MatGroupFKM": group, "R_m": float(R_m)}))
        MATERIALS[key] = (float(ap["E"]), float(ap["K_prime"]), float(ap["n_prime"]))
    return MATERIALS[key]


COLS = ["loads_min", "loads_max", "S_min", "S_max", "epsilon_min", "epsilon_max", "S_a", "S_m", "epsilon_a", "epsilon_m",
        "R", "epsilon_min_LF", "epsilon_max_LF"]
FLAGS = ["is_closed_hysteresis", "is_zero_mean_stress_and_strain", "run_index"]


def _close(a, b, rtol=1e-11, atol=1e-13):
    if a == b:
        return True
    if math.isnan(a) and math.isnan(b):
        return True
    if math.isinf(a) or math.isinf(b):
        return False
    return abs(a - b) <= atol + rtol * max(abs(a), abs(b))


@st.composite
def _configs(draw, tier):
    base = draw(c04._sequences(tier))
    seq = base["seq"][:12 if tier == "quick" else 30]
    if len(set(seq)) < 2:
        seq = seq + [seq[-1] + 1.0]
    group = draw(st.sampled_from(["Steel", "SteelCast", "Al_wrought"]))
    R_m = draw(st.sampled_from([300, 600, 1000, 1400] if group != "Al_wrought" else [200, 350, 500]))
    kind = draw(st.sampled_from(["EN", "EN", "SB"]))
    K_p = draw(st.sampled_from([1.0, 1.2, 2.0, 3.5, 7.0] if kind == "EN" else [1.2, 2.0, 3.5, 7.0]))
    bins = draw(st.sampled_from([50, 100]))
    passes = draw(st.sampled_from([2, 2, 2, 3, 4]))
    # peak load relative to tensile strength: elastic ... strongly plastic
    peak = draw(st.sampled_from([0.25, 0.5, 1.0, 2.0])) * R_m
    m = max(abs(x) for x in seq)
    unit = 2.0 ** math.floor(math.log2(peak / m))      # dyadic scale: loads stay exact
    return {"seq": seq, "unit": unit, "group": group, "R_m": R_m, "kind": kind, "K_p": K_p, "bins": bins, "passes": passes}


def _law(case, max_load):
    E, K, n = _material(case["group"], case["R_m"])
    return _hcm.binned_law(case["kind"], E, K, n, case["K_p"], max_load, case["bins"])


def _collective(rec, point=0):
    df = rec.collective
    if "assessment_point_index" in df.index.names:
        df = df.xs(point, level="assessment_point_index")
    return df


def compare_with_reference(case, ctx):
    loads = [x * case["unit"] for x in case["seq"]]
    max_load = max(abs(x) for x in loads)
    law, binned = _law(case, max_load)
    passes = case.get("passes", 2)
    ref = href.HCM(binned)
    sched = href.reversal_schedule(loads, passes)
    ref.run_pass(sched[0])
    n1 = len(ref.strain_values)
    for p in sched[1:]:
        ref.run_pass(p)
    want = ref.derived()
    ev = ref.events
    ctx.label(case["kind"], "bins=%d" % case["bins"])
    for e in set(ev):
        ctx.label(e)
    depth = getattr(ref, "depth", 0)
    ctx.label("depth=%d" % min(depth, 3))
    if "memory2" in ev or "memory3" in ev or depth >= 2:
        ctx.nontrivial()

    det, rec = _hcm.run_two_pass(loads, binned, passes=passes)
    df = _collective(rec)
    if passes > 2:
        ctx.label("passes=%d" % passes)
    if len(df) != len(want):
        raise Violation("%d hystereses recorded, reference procedure gives %d (loads %r): got %r, want %r" % (
            len(df), len(want), loads, list(zip(df["loads_min"], df["loads_max"], df["run_index"])),
            [(w["loads_min"], w["loads_max"], w["run_index"]) for w in want]), bucket="ref:count")
    for i, w in enumerate(want):
        row = df.iloc[i]
        for f in FLAGS:
            if int(row[f]) != int(w[f]):
                raise Violation("hysteresis %d: %s = %r, reference %r (loads %r)" % (i, f, row[f], w[f], loads), bucket="ref:%s" % f)
        for c in COLS:
            if not _close(float(row[c]), float(w[c])):
                raise Violation("hysteresis %d: %s = %r, reference %r (loads %r, law %s K_p=%s)" % (
                    i, c, float(row[c]), w[c], loads, case["kind"], case["K_p"]), bucket="ref:%s" % c)
    got_sv = [float(x) for x in det.strain_values]
    if len(got_sv) != len(ref.strain_values) or any(not _close(a, b) for a, b in zip(got_sv, ref.strain_values)):
        raise Violation("strain_values %r, reference %r (loads %r)" % (got_sv, ref.strain_values, loads), bucket="ref:strain_values")
    f1, f2 = [float(x) for x in det.strain_values_first_run], [float(x) for x in det.strain_values_second_run]
    if len(f1) != n1 or f1 + f2 != got_sv:
        raise Violation("strain_values_first_run has %d entries (reference %d) / first+second != all (loads %r)" % (len(f1), n1, loads),
                        bucket="ref:strain_values_split")


@subcheck("C05", "reference", strategy=_configs, quick=700, thorough=30000,
          doc="every recorded hysteresis (loads, S, eps, amplitudes, means, R, LF extremes, flags, pass) and the visited strain values == independent HCM implementation with the same law (scalar interface)")
def reference(case, ctx):
    compare_with_reference(case, ctx)


# ---------------------------------------------------------------- negation
@subcheck("C05", "negation", strategy=_configs, quick=300, thorough=10000,
          doc="negating all loads mirrors stresses and strains (min/max swap with sign), flags and pass numbers unchanged")
def negation(case, ctx):
    loads = [x * case["unit"] for x in case["seq"]]
    max_load = max(abs(x) for x in loads)
    law, binned = _law(case, max_load)
    a = _collective(_hcm.run_two_pass(loads, binned)[1])
    b = _collective(_hcm.run_two_pass([-x for x in loads], binned)[1])
    if len(a) >= 1:
        ctx.nontrivial()
    if len(a) != len(b):
        raise Violation("negated loads give %d hystereses instead of %d (loads %r)" % (len(b), len(a), loads), bucket="neg:count")
    swap = {"loads_min": "loads_max", "S_min": "S_max", "epsilon_min": "epsilon_max", "epsilon_min_LF": "epsilon_max_LF"}
    for i in range(len(a)):
        ra, rb = a.iloc[i], b.iloc[i]
        for f in FLAGS:
            if int(ra[f]) != int(rb[f]):
                raise Violation("hysteresis %d: %s differs under negation (loads %r)" % (i, f, loads), bucket="neg:%s" % f)
        for lo, hi in swap.items():
            if not _close(float(rb[lo]), -float(ra[hi])) or not _close(float(rb[hi]), -float(ra[lo])):
                raise Violation("hysteresis %d: (%s,%s) = (%r,%r), mirrored original (%r,%r) (loads %r)" % (
                    i, lo, hi, float(rb[lo]), float(rb[hi]), -float(ra[hi]), -float(ra[lo]), loads), bucket="neg:%s" % lo)
        for c in ("S_a", "epsilon_a"):
            if not _close(float(ra[c]), float(rb[c])):
                raise Violation("hysteresis %d: %s changes under negation" % (i, c), bucket="neg:%s" % c)
        for c in ("S_m", "epsilon_m"):
            if not _close(float(rb[c]), -float(ra[c])):
                raise Violation("hysteresis %d: %s not mirrored under negation" % (i, c), bucket="neg:%s" % c)


# ---------------------------------------------------------------- batch vs alone
@st.composite
def _batches(draw, tier):
    case = draw(_configs(tier))
    n = draw(st.integers(2, 4))
    dyadic = draw(st.sampled_from([True, True, False, False]))
    if dyadic:
        # pure powers of two: loads AND class edges (k/n * max, with a rounded k/n) scale exactly
        factors = [1.0] + [2.0 ** draw(st.integers(-3, 0)) for _ in range(n - 1)]
        if draw(st.booleans()):
            # edge-rich: integer loads with |max| = number of bins, so EVERY load and range sits on a class edge k/n*max
            # (including the k for which k/n*max rounds below k, e.g. 29, 57, 58 of 100)
            nb = case["bins"]
            seq = draw(st.lists(st.integers(-nb, nb), min_size=2, max_size=10))
            seq.insert(draw(st.integers(0, len(seq))), nb * draw(st.sampled_from([-1, 1])))
            case["seq"] = [float(x) for x in seq]
            case["unit"] = 2.0 ** math.floor(math.log2(draw(st.sampled_from([0.5, 1.0, 2.0])) * case["R_m"] / nb))
            case["edge_rich"] = True
    else:
        # general ratios: loads i/m with a prime m, so that loads and ranges (other than +-max, +-2max, which are
        # exact for every point) do not sit on class edges, where the class would depend on rounding
        m = draw(st.sampled_from([37, 41, 43]))
        seq = draw(st.lists(st.integers(-m, m), min_size=2, max_size=10))
        seq.insert(draw(st.integers(0, len(seq))), m * draw(st.sampled_from([-1, 1])))
        case["seq"] = [float(x) for x in seq]
        case["unit"] = 2.0 ** math.floor(math.log2(draw(st.sampled_from([0.25, 0.5, 1.0, 2.0])) * case["R_m"] / m))
        factors = [1.0] + [draw(st.floats(0.05, 1.0, allow_nan=False)) for _ in range(n - 1)]
    if draw(st.sampled_from([True, False, False])) and all(float(x).is_integer() for x in case["seq"]):
        # end of the sequence [p, q, r] with r a reversal of the REPEATED sequence that closes the hysteresis (p, q):
        # the first pass leaves r in its sample tail, the second pass processes it first and books the closure to the
        # first pass, followed by hystereses of the second pass in the same call (a class the plain lists reach in 1 of 300)
        seq = [int(x) for x in case["seq"]]
        bound = int(max(abs(x) for x in seq))
        if abs(seq[0]) >= 2:
            # r strictly between zero and the first sample: a reversal at the real junction r -> first sample, but not
            # towards the zero the first pass is started from, so the first pass cannot flush it
            r = draw(st.integers(1, abs(seq[0]) - 1)) * (1 if seq[0] > 0 else -1)
        else:
            r = draw(st.integers(-bound, bound).filter(lambda v: v != seq[0]))
        sg = 1 if seq[0] > r else -1
        d1 = draw(st.integers(1, bound - sg * r))
        e = draw(st.integers(0, d1 - 1))
        seq += [r + sg * e, r + sg * d1, r]
        case["seq"] = [float(x) for x in seq]
        case["carried_closure_suffix"] = True
    order = draw(st.permutations(range(n)))
    case.update({"factors": [factors[i] for i in order], "dyadic": dyadic})
    # labels of the load steps and of the nodes: the order of the sequence is the row order, ids are only labels
    # (ascending labels only: the assessment documents load steps as consecutive numbers, and the recorder infers the number
    # of points from runs of equal load_step labels, which collide between the shifted first pass and the second pass for
    # non-ascending labels - found by the thorough tier, outside the documented domain)
    case["step_ids"] = draw(st.sampled_from(["range", "range", "gaps", "offset"]))
    case["node_ids"] = draw(st.sampled_from(["range", "offset", "descending"]))
    case["perm"] = list(draw(st.permutations(range(len(case["seq"])))))
    # the rows of the (load_step, node_id) Series: load step by load step, or node by node (one time series per node
    # concatenated) - the index carries the complete information
    case["row_order"] = draw(st.sampled_from(["step_major", "step_major", "node_major"]))
    return case


def _near_edge(x, width):
    q = abs(x) / width
    return abs(q - round(q)) <= 1e-9 * max(1.0, q)


@subcheck("C05", "batch_vs_alone", strategy=_batches, quick=250, thorough=8000,
          doc="several proportional points at once (per-node tables) == each point processed alone with its own table")
def batch_vs_alone(case, ctx):
    base = [x * case["unit"] for x in case["seq"]]
    factors = case["factors"]
    n = len(factors)
    ctx.label("points=%d" % n, "dyadic" if case["dyadic"] else "general_ratio")
    if case.get("edge_rich"):
        ctx.label("edge_rich")
    if case.get("carried_closure_suffix"):
        ctx.label("carried_closure_suffix")
    ctx.nontrivial()
    loads_by_point = [[f * x for x in base] for f in factors]
    maxima = [max(abs(x) for x in lp) for lp in loads_by_point]
    if not case["dyadic"]:
        # class selection in the batch uses the first node: a load of another node within rounding distance
        # of a class edge may legitimately land in the neighbouring class when processed alone
        for lp, mx in zip(loads_by_point, maxima):
            w = mx / case["bins"]
            # exact for every point (allowed): the loads +-max, the range between +max and -max, ranges between +-max and 0
            bad = any(_near_edge(v, w) for v in lp if v != 0.0 and abs(v) != mx) or any(
                _near_edge(a - b, w) for a in lp for b in lp
                if a != b and not ((abs(a) == mx and b == 0.0) or (abs(b) == mx and a == 0.0) or (abs(a) == mx and b == -a)))
            if bad:
                ctx.skip("non-dyadic ratio with a load or range on a class edge (rounding-dependent class)")
    m = len(base)
    step_ids = {"range": list(range(m)), "gaps": [10 * i + 10 for i in range(m)], "offset": [1000 + i for i in range(m)],
                "descending": list(range(m, 0, -1)),          # kept for old replay files only, no longer generated
                "shuffled": [p + 1 for p in case.get("perm", range(m))][:m]}[case.get("step_ids", "range")]
    if len(step_ids) != m:
        step_ids = list(range(m))
    node_ids = {"range": list(range(n)), "offset": [11 + j for j in range(n)], "descending": list(range(n, 0, -1))}[case.get("node_ids", "range")]
    ctx.label("step_ids=" + case.get("step_ids", "range"), "node_ids=" + case.get("node_ids", "range"))
    idx = pd.MultiIndex.from_arrays([[step_ids[i] for i in range(m) for j in range(n)], [node_ids[j] for i in range(m) for j in range(n)]],
                                    names=["load_step", "node_id"])
    series = pd.Series([loads_by_point[j][i] for i in range(m) for j in range(n)], index=idx, dtype=np.float64)
    if case.get("row_order") == "node_major":
        series = pd.concat([series.xs(nid, level="node_id", drop_level=False) for nid in node_ids])
        ctx.label("rows_node_major")
    max_series = pd.Series(maxima, index=pd.Index(node_ids, name="node_id"), dtype=np.float64)
    law, binned_batch = _law(case, max_series)
    det, rec = _hcm.run_two_pass(series, binned_batch)
    df = rec.collective
    for j in range(n):
        law_j, binned_j = _law(case, maxima[j])
        alone = _collective(_hcm.run_two_pass(loads_by_point[j], binned_j)[1])
        mine = df.xs(j, level="assessment_point_index")
        if j == 0 and len(alone):
            ri = [int(x) for x in alone["run_index"]]
            n_first = len(_hcm.run_two_pass(loads_by_point[j], binned_j, passes=1)[1].collective)
            if ri.count(1) > n_first:
                ctx.label("closure_carried_to_pass_1" + ("_and_more_in_pass_2" if ri.count(2) else ""))
        if len(alone) != len(mine):
            raise Violation("point %d: %d hystereses in the batch, %d alone (factors %r, loads %r)" % (j, len(mine), len(alone), factors, base),
                            bucket="batch:count")
        # The tables of the batch are solved in one vectorised Newton iteration, the table of the single
        # point in another: entries agree to the solver's stop criterion (rtol 1e-5, tol 1e-6), not bit
        # for bit.  A hysteresis value is a sum of a few table entries -> tolerances 1e-4 (stress) and
        # 1e-3 (strain, amplified by 1/n') of the largest magnitude; a wrong class or a wrong node is off by
        # a class width (>= 1e-2).
        s_scale = max(1e-9, float(np.max(np.abs(alone[["S_min", "S_max"]].to_numpy()))) if len(alone) else 1.0)
        e_scale = max(1e-12, float(np.max(np.abs(alone[["epsilon_min", "epsilon_max", "epsilon_min_LF", "epsilon_max_LF"]].to_numpy()))) if len(alone) else 1.0)
        for i in range(len(alone)):
            for f in FLAGS:
                if int(mine.iloc[i][f]) != int(alone.iloc[i][f]):
                    raise Violation("point %d hysteresis %d: %s differs between batch and alone" % (j, i, f), bucket="batch:%s" % f)
            for c in COLS:
                x, y = float(mine.iloc[i][c]), float(alone.iloc[i][c])
                if c.startswith("loads"):
                    ok = x == y
                elif c == "R":
                    smax = float(alone.iloc[i]["S_max"])
                    if abs(smax) < 1e-2 * s_scale:
                        continue
                    ok = abs(x - y) <= 2e-4 * s_scale / abs(smax) * (1.0 + abs(y))
                elif c.startswith("S"):
                    ok = abs(x - y) <= 1e-4 * s_scale
                else:
                    ok = abs(x - y) <= 1e-3 * e_scale
                if not ok:
                    raise Violation("point %d (factor %r) hysteresis %d: %s = %r in the batch, %r alone (factors %r, base loads %r, %s K_p=%s)" % (
                        j, factors[j], i, c, x, y, factors, base, case["kind"], case["K_p"]), bucket="batch:%s" % c)


def decode_bytes(data, tier=None):
    """Fuzzer bytes -> case: 4 configuration bytes (material, law, K_p, bins/passes), then loads in -15..15."""
    if len(data) < 7:
        return None
    seq = [float((b & 0x1F) - 15) for b in data[4:28]]
    if len(set(seq)) < 2:
        return None
    groups = [("Steel", 600), ("SteelCast", 300), ("Al_wrought", 350), ("Steel", 1400)]
    group, R_m = groups[data[0] % 4]
    kind = "SB" if data[1] % 3 == 0 else "EN"
    K_p = [1.2, 2.0, 3.5, 7.0][data[2] % 4]
    bins = [50, 100][data[3] % 2]
    passes = [2, 2, 3][(data[3] // 2) % 3]
    m = max(abs(x) for x in seq)
    unit = 2.0 ** math.floor(math.log2([0.5, 1.0, 2.0][(data[3] // 8) % 3] * R_m / m))
    return {"seq": seq, "unit": unit, "group": group, "R_m": R_m, "kind": kind, "K_p": K_p, "bins": bins, "passes": passes}


decode_bytes.seeds = [bytes([0, 1, 2, 3]) + bytes(v + 15 for v in (10, -10, 10, -15, -10, -15, 15, 0, 15, -15)), bytes([2] + [16] * 6)]


@subcheck("C05", "reference_fuzz", fuzz=decode_bytes, quick=0, thorough=30000,
          doc="coverage-guided (atheris/libFuzzer): bytes -> (configuration, load sequence); same oracle as `reference`")
def reference_fuzz(case, ctx):
    compare_with_reference(case, ctx)
