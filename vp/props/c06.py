"""C06 - notch approximation laws return the root of their equation, and its inverse.

Code under test: pylife.materiallaws.notch_approximation_law.ExtendedNeuber,
pylife.materiallaws.notch_approximation_law_seegerbeste.SeegerBeste (+ RambergOsgood.delta_strain).

Oracle (independent of pyLife): the defining equations 2.5-45/46 (extended Neuber) and 2.8-42/43
(Seeger-Beste) of the FKM non-linear guideline are coded again below in plain Python/math (Ramberg-Osgood
and its Masing double included, the Seeger-Beste middle term evaluated without cancellation); the true root
is bracketed on [|L|/K_p, |L|] (resp. [|S|, K_p |S|] for the backward functions) and found with scipy's brentq
to ~1e-15 relative.  The bracket must show a sign change, otherwise the run stops as a harness error.

Tolerances (every comparison):
* root:   |sigma - sigma*| <= tol + rtol*|sigma*| + 1e-12*|sigma*|  ("within the requested tolerance", literal reading;
          the last term covers the rounding of the reference itself).  The unchanged Newton iteration of the
          extended Neuber law is 3-4 orders of magnitude better than this, the secant iteration of Seeger-Beste
          2-3 orders outside the classes listed as findings.
* bounds: |L|/K_p - B <= |sigma| <= |L| + B with the same B, sign(sigma) == sign(L).
* strain: closed form, compared at 1e-13 relative (numpy pow vs math pow may differ by 1 ulp per term).
* odd:    |sigma(-L) + sigma(L)| <= 2B (both are within B of the same root); bit-exactness is recorded as a label.
* monotone: for L1 < L2:  sigma2 - sigma1 >= -(B1+B2) and > 0 whenever sigma*2 - sigma*1 > B1+B2.
* inverse: L' = load(S) is within B_L of the root L*(S) of the same equation; round trip |L' - L| <= B_L plus the
          image of the stress tolerance under the exact inverse (computed with the reference, monotone).
* containers: array-like containers holding the same numbers give bit-identical arrays; scalar calls agree with the
          array call within B_scalar + B_array (the vectorised iteration runs until ALL elements have converged).
RuntimeError("... failed to converge ...") raised by scipy's newton is the documented "solver raises" outcome:
counted (tolerated_by_contract), never failed; every other exception type is a violation.
"""

import math
import warnings

import numpy as np
import pandas as pd
from hypothesis import strategies as st
from scipy.optimize import brentq

from ..core import Violation, subcheck, nontrivial_rule, assumptions

PROP = "C06"

nontrivial_rule(PROP, "Non-trivial: at least one load of the case is in the plastic regime (|L|/K_p above half the cyclic "
                      "yield stress K'*0.002^n'), or a non-default solver tolerance is requested, or the input is a "
                      "non-scalar container; cases routed to a known finding are not counted.")
assumptions(PROP, [
    "material sets: the FKM estimates (calculate_cyclic_assessment_parameters) for Steel/SteelCast/Al_wrought at "
    "R_m in {100,...,1600} MPa plus perturbed free draws (E +-10 %, K' x[0.8,1.25], n' +-0.03)",
    "loads are floats in all sub-checks but 'integer_inputs' (the docstrings say 'array-like float'); for integer-typed containers "
    "the contract asserted is: either the call rejects the input with TypeError / ValueError / AttributeError (counted per class) "
    "or it returns results equal to those of the float-typed call that satisfy the equation - never a silently different value",
    "domain: |load| in {0} u [1e-3, 4] x R_m (ranges: x 2) with R_m the tensile strength the material set was estimated from, "
    "1 <= K_p <= 12 (Seeger-Beste additionally K_p in {20, 30, 50} in sub-check sb_retry: the only in-property inputs that enter its "
    "per-element retry of non-converged entries), tolerances 1e-4 ... 1e-10; stresses handed to the backward functions are images of such loads.  Outside it, "
    "observed and not asserted: vectorised ExtendedNeuber.stress returns unconverged iterates (RuntimeWarning only) once |L|/sigma "
    "exceeds ~7 (e.g. |L| = 16 R_m, K_p = 12; inside the domain the ratio stays below 5.1), and Seeger-Beste returns values off by "
    "more than the tolerance for |L| <= 1e-3 MPa (scipy's absolute secant start step of 1e-4 resp. 6e-6 dominates)",
    "SeegerBeste.load / load_secondary_branch are exercised with scalar input only (their docstring restricts them to the scalar case)",
    "reference root: brentq on the re-coded equation, relative accuracy ~1e-15; comparisons carry an extra 1e-12 relative slack for it",
    "'identical' results for different containers are asserted bit-for-bit between array-like containers and up to the "
    "solver's stop criterion between scalar and vectorised calls (DESIGN.md section 5)",
])

EPS = 2.220446049250313e-16
ARRAY_SECANT_DX = EPS ** 0.33          # first secant step of scipy.optimize.newton for array input
REF_SLACK = 1e-12

# ------------------------------------------------------------------------------------------------
# material pool (generator side only): FKM estimates for the three material groups


def _fkm_pool():
    from pylife.strength.fkm_nonlinear.parameter_calculations import calculate_cyclic_assessment_parameters
    pool = []
    for group in ("Steel", "SteelCast", "Al_wrought"):
        for rm in (100.0, 250.0, 400.0, 600.0, 1000.0, 1600.0):
            p = calculate_cyclic_assessment_parameters(pd.Series({"MatGroupFKM": group, "R_m": rm}))
            pool.append({"mat": "%s/%d" % (group, rm), "E": float(p["E"]), "K": float(p["K_prime"]),
                         "n": float(p["n_prime"]), "Rm": rm})
    return pool


with warnings.catch_warnings():
    warnings.simplefilter("ignore")
    FKM_POOL = _fkm_pool()

KP_EN = [1.0, 1.0001, 1.2, 2.0, 3.5, 10.0]
KP_SB = [1.0001, 1.001, 1.01, 1.05, 1.2, 2.0, 3.5, 10.0]
TOL_SET = [1e-4, 1e-6, 1e-8, 1e-10]
SCALAR_KINDS = ["pyfloat", "npfloat", "arr0d"]
ARRAY_KINDS = ["arr", "series_range", "series_named", "series_multi"]


# ------------------------------------------------------------------------------------------------
# reference equations (no pyLife)

def ref_strain(s, m, sec):
    """Ramberg-Osgood strain for stress s >= 0 (primary) resp. Masing-doubled strain range for a stress range."""
    if sec:
        return s / m["E"] + 2.0 * math.pow(s / (2.0 * m["K"]), 1.0 / m["n"])
    return s / m["E"] + math.pow(s / m["K"], 1.0 / m["n"])


def ref_strain_signed(s, m, sec):
    return math.copysign(ref_strain(abs(s), m, sec), s) if s != 0 else 0.0


def _g(u):
    """(2/u^2) ln(1/cos u) for 0 <= u < pi/2 without cancellation (series below 1e-2)."""
    if u < 1e-2:
        u2 = u * u
        return 1.0 + u2 / 6.0 + 2.0 * u2 * u2 / 45.0 + 17.0 * u2 ** 3 / 1260.0
    if u < 1.0:
        return -math.log1p(-math.sin(u) ** 2) / (u * u)
    return -2.0 * math.log(math.cos(u)) / (u * u)


def ref_F(law, s, L, m, kp, sec):
    """Normalised residual of the defining equation for stress s > 0 and load L > 0:
    eps(s) / (M * (L/s) * K_p * e*(L)) - 1, with M = 1 (Neuber) or the Seeger-Beste middle term."""
    e_star = ref_strain(L / kp, m, sec)
    if law == "EN":
        mid = 1.0
    else:
        r = L / s
        u = (math.pi / 2.0) * (r - 1.0) / (kp - 1.0)
        if u >= math.pi / 2.0 or math.cos(u) <= 0.0:
            return -1.0                      # ln(1/cos u) -> infinity
        u = max(u, 0.0)
        mid = _g(u) + (s / L) ** 2 - s / L
    return ref_strain(s, m, sec) * s / (mid * L * kp * e_star) - 1.0


def _solve(fun, lo, hi):
    flo, fhi = fun(lo), fun(hi)
    # at the ends the residual can be 0 up to rounding (elastic limit / K_p == 1): the root is that end
    if abs(fhi) <= 1e-13 and abs(fhi) <= abs(flo):
        return hi
    if abs(flo) <= 1e-13:
        return lo
    if not (flo * fhi < 0):
        raise AssertionError("reference bracket [%r, %r] has no sign change: %r %r" % (lo, hi, flo, fhi))
    return brentq(fun, lo, hi, xtol=1e-300, rtol=4 * EPS, maxiter=400)


def ref_stress(law, L, m, kp, sec):
    """Root sigma* in [L/K_p, L] for a load L > 0."""
    if kp == 1.0:
        return L
    return _solve(lambda s: ref_F(law, s, L, m, kp, sec), L / kp, L)


def ref_load(law, S, m, kp, sec):
    """Root L* in [S, K_p S] for a stress S > 0."""
    if kp == 1.0:
        return S
    return _solve(lambda L: ref_F(law, S, L, m, kp, sec), S, kp * S)


def bound(x, rtol, tol):
    return tol + rtol * abs(x) + REF_SLACK * abs(x)


def yield_stress(m):
    return m["K"] * math.pow(0.002, m["n"])


# ------------------------------------------------------------------------------------------------
# predicates of the known-finding classes (one per root cause)

def f03_scalar_typeerror(law, fname, kind):
    """F03: SeegerBeste.stress / stress_secondary_branch take sum() over scipy's RootResults whenever scipy's
    newton ran in scalar mode, i.e. for every input of size 1 that is not a Series."""
    return law == "SB" and fname in ("stress", "stress_secondary_branch") and kind in ("pyfloat", "npfloat", "arr0d", "arr1")


def f06c_series_of_one(kind):
    """F06_c: a Series of length 1 is treated as a scalar start value by scipy's newton while the Series itself is
    still passed in args -> 'truth value of a Series is ambiguous' (both laws, all four solver functions)."""
    return kind == "series1"


def f06a_cancellation(law, L, root, kp, rtol, tol):
    """F06_a: Seeger-Beste middle term (2/u^2) ln(1/cos u) is evaluated with catastrophic cancellation for small u
    (elastic regime): the residual carries an absolute noise of ~eps/u^2, i.e. the root is blurred by ~eps*|L|/u*^2.
    Class: that blur exceeds a quarter of the requested tolerance."""
    if law != "SB" or L == 0:
        return False
    u = (math.pi / 2.0) * (abs(L) / abs(root) - 1.0) / (kp - 1.0) if kp > 1 else 0.0
    if u <= 0:
        return True
    return EPS * abs(L) / (u * u) > 0.25 * (tol + rtol * abs(root))


def ref_F_continued(s, L, m, kp, sec):
    """Seeger-Beste residual continued analytically to s > L (the middle term is even in u)."""
    e_star = ref_strain(L / kp, m, sec)
    u = abs((math.pi / 2.0) * (L / s - 1.0) / (kp - 1.0))
    if u >= math.pi / 2.0 or math.cos(u) <= 0.0:
        return -1.0
    return ref_strain(s, m, sec) * s / ((_g(u) + (s / L) ** 2 - s / L) * L * kp * e_star) - 1.0


def ref_mirror_root(L, m, kp, sec):
    """Second root of the continued residual in (L, L/(2-K_p)) or None.  For small loads it sits at about
    L(1 + 24/pi^2 (K_p-1)^2)."""
    if kp >= 2.0:
        return None
    F = lambda s: ref_F_continued(s, L, m, kp, sec)
    lo, hi = L * (1.0 + 1e-12), L / (2.0 - kp)
    if not (F(lo) > 0 > F(hi)):
        return None
    return brentq(F, lo, hi, xtol=1e-300, rtol=4 * EPS, maxiter=400)


SCALAR_SECANT_DX = 1e-4                # first secant step of scipy.optimize.newton for scalar input


def f06b_mirror_root(law, fname, L, root, kp, rtol, tol, m=None, sec=False, scalar=False):
    """F06_b: for K_p close to 1 the secant iteration of SeegerBeste.stress / stress_secondary_branch is not reliable.
    The admissible interval [|L|/K_p, |L|] is narrow, the residual has a second (mirror) root just above |L| (u -> -u)
    and a flat hump in between; the iteration starts from x0 = |L|(1-(1-1/K_p)/1000) and p1 = x0(1+dx)+dx (dx = eps^0.33
    for vectorised, 1e-4 for scalar calls), i.e. with a start step that is not small against that structure, and settles
    on the mirror root or stops early.  Class:
    * vectorised call (K_p below ~1.012): p1 beyond the middle of [x0, |L|];
    * scalar call (reachable once F03 is repaired; K_p below ~1.01, or K_p ~ 1.11 where p1 hits the singular point |L|):
      start step larger than 1 % of the interval width, or p1 within 1e-3 (|L|-x0) of |L|;
    and the interval is wider than the requested tolerance or the mirror root is farther from the true root than it."""
    if law != "SB" or fname not in ("stress", "stress_secondary_branch") or L == 0:
        return False
    a = abs(L)
    x0 = a * (1.0 - (1.0 - 1.0 / kp) / 1000.0)
    dx = SCALAR_SECANT_DX if scalar else ARRAY_SECANT_DX
    p1 = x0 * (1.0 + dx) + dx
    width = a * (1.0 - 1.0 / kp)
    if not scalar:
        if p1 < x0 + 0.5 * (a - x0):
            # second start point stays in the lower half of [x0, |L|]: u(p1) is bounded away from the u -> 0 singularity
            return False
    elif not (p1 - x0 > 0.01 * width or abs(p1 - a) <= 1e-3 * (a - x0)):
        return False
    B = tol + rtol * abs(root)
    if width > B:
        return True
    mirror = ref_mirror_root(a, m, kp, sec) if m is not None else None
    if mirror is None:
        mirror = a + (a - abs(root))
    return mirror - abs(root) > B


def f06b_load_start(law, fname, S, kp, rtol, tol):
    """F06_b, backward direction: SeegerBeste.load starts the (scalar) secant iteration at x0 = |S|/(1-(1-1/K_p)/1000) and
    x0(1+1e-4)+1e-4.  For K_p close to 1 that start step is not small against the admissible interval [|S|, K_p|S|]
    (or even leaves it): the residual is far from linear over the start interval, the iteration creeps and the step-size
    stop criterion fires early.  Class: start step > 1 % of the interval width (or second point outside), and the
    interval is wider than the requested tolerance."""
    if law != "SB" or fname not in ("load", "load_secondary_branch") or S == 0:
        return False
    a = abs(S)
    x0 = a / (1.0 - (1.0 - 1.0 / kp) / 1000.0)
    p1 = x0 * (1.0 + 1e-4) + 1e-4
    width = (kp - 1.0) * a
    return (p1 >= kp * a or p1 - x0 > 0.01 * width) and width > tol + rtol * a


def f06d_sb_zero(law, L):
    """F06_d: Seeger-Beste residual is 0/0 for a zero load -> NaN (array) / RuntimeError (scalar)."""
    return law == "SB" and L == 0


def f06e_en_load_zero_in_array(law, fname, values):
    """F06_e: ExtendedNeuber._d_load_implicit divides by the stress: a zero entry next to non-zero entries gives NaN
    (a lone zero or an all-zero array returns 0 because the residual is already 0)."""
    return (law == "EN" and fname in ("load", "load_secondary_branch") and len(values) > 1
            and any(v == 0 for v in values) and any(v != 0 for v in values))


def en_load_newton_steps(S, m, kp, sec, tol, limit=60, as_coded=True):
    """Number of Newton steps from the start value L0 = S (as ExtendedNeuber.load does) until the step is below the
    absolute tolerance - the stop criterion of scipy's vectorised newton.  as_coded: use the derivative as pyLife
    codes it (_d_e_star adds 1/(K_p E) although tangential_compliance already contains 1/E), else the true one."""
    S = abs(S)
    E, K, n = m["E"], m["K"], m["n"]
    eps_s = ref_strain(S, m, sec)
    L = S
    for k in range(1, limit + 1):
        x = L / kp
        e_star = ref_strain(x, m, sec)
        d_e = (1.0 / E + (1.0 / (n * K)) * math.pow((x / 2.0 if sec else x) / K, 1.0 / n - 1.0)) / kp
        f = eps_s - L / S * kp * e_star
        df = -kp * e_star / S - L / S * kp * d_e
        if as_coded:
            df -= L / S / E
        step = f / df
        L = L - step
        if not (L > 0) or not math.isfinite(L):
            return limit
        if abs(step) < tol:
            return k
    return limit


def f06f_en_load_maxiter(law, fname, values, m, kp, sec, tol):
    """F06_f: ExtendedNeuber.load / load_secondary_branch start Newton at L0 = S, overshoot far beyond K_p*S and crawl
    back along the power law; with maxiter=20 the vectorised call then returns the unconverged iterate with only a
    RuntimeWarning (the scalar call raises RuntimeError); in addition the coded derivative counts the elastic
    compliance twice, so the iteration converges only linearly (factor up to 1/3).  Class: vectorised call in which
    that iteration, re-run in the harness, needs 19 or more steps for at least one element."""
    if law != "EN" or fname not in ("load", "load_secondary_branch") or len(values) < 2 or kp == 1.0:
        return False
    return any(v != 0 and en_load_newton_steps(v, m, kp, sec, tol) >= 19 for v in values)


# ------------------------------------------------------------------------------------------------
# calling pyLife

def make_law(case):
    from pylife.materiallaws.notch_approximation_law import ExtendedNeuber
    from pylife.materiallaws.notch_approximation_law_seegerbeste import SeegerBeste
    cls = ExtendedNeuber if case["law"] == "EN" else SeegerBeste
    return cls(case["E"], case["K"], case["n"], case["K_p"])


def container(kind, vals):
    if kind == "pyfloat":
        return float(vals[0])
    if kind == "npfloat":
        return np.float64(vals[0])
    if kind == "arr0d":
        return np.array(float(vals[0]))
    if kind == "arr1":
        return np.array([float(vals[0])])
    if kind == "series1":
        return pd.Series([float(vals[0])])
    if kind == "arr":
        return np.array(vals, dtype=float)
    if kind == "series_range":
        return pd.Series(np.array(vals, dtype=float))
    if kind == "series_named":
        return pd.Series(np.array(vals, dtype=float), index=pd.Index(np.arange(len(vals)) * 3 + 7, name="node_id"), name="load")
    if kind == "series_multi":
        idx = pd.MultiIndex.from_arrays([np.arange(1, len(vals) + 1), np.arange(len(vals))[::-1]], names=["class_index", "node_id"])
        return pd.Series(np.array(vals, dtype=float), index=idx)
    raise ValueError(kind)


class SolverRaised(Exception):
    pass


def call(law, fname, x, rtol, tol, ctx=None):
    """Call a solver function; returns a float array (flattened). RuntimeError('...converge...') -> SolverRaised."""
    kw = {}
    if rtol is not None:
        kw["rtol"] = rtol
    if tol is not None:
        kw["tol"] = tol
    retry = []
    for hook in ("_stress_fix_not_converged_values", "_stress_secondary_fix_not_converged_values"):
        if hasattr(law, hook) and not hasattr(getattr(law, hook), "_vp"):
            orig = getattr(law, hook)

            def spy(*a, _orig=orig):
                retry.append(1)
                return _orig(*a)
            spy._vp = True
            setattr(law, hook, spy)          # observation only (label 'sb_retry_path')
    try:
        with warnings.catch_warnings(record=True) as w, np.errstate(all="ignore"):
            warnings.simplefilter("always")
            out = getattr(law, fname)(x, **kw)
    except RuntimeError as e:
        if "converge" in str(e):
            raise SolverRaised(str(e)[:80])
        raise
    if ctx is not None:
        if retry:
            ctx.label("sb_retry_path")
        if any("converge" in str(i.message) for i in w):
            ctx.label("warned_some_failed_to_converge")
    return np.atleast_1d(np.asarray(out, dtype=float)).ravel()


def tolerances(case, binned=False):
    r, t = case.get("rtol"), case.get("tol")
    return (1e-4 if r is None else r), (1e-4 if t is None else t)


# ------------------------------------------------------------------------------------------------
# strategies

def _logu(lo, hi):
    return st.floats(math.log(lo), math.log(hi)).map(lambda t: min(max(math.exp(t), lo), hi))


@st.composite
def _material(draw):
    base = dict(draw(st.sampled_from(FKM_POOL)))
    if draw(st.integers(0, 4)) == 3:
        base["mat"] = "free:" + base["mat"]
        base["E"] = base["E"] * draw(st.floats(0.9, 1.1))
        base["K"] = base["K"] * draw(st.floats(0.8, 1.25))
        base["n"] = base["n"] + draw(st.floats(-0.03, 0.03))
        # R_m stays the one of the perturbed FKM estimate: the load domain [1e-3, 4] x R_m is tied to the material
        # (a decoupled R_m let loads reach 16 x R_m of the material, where Newton's 20 iterations no longer suffice)
    return base


def _kp(law):
    if law == "EN":
        return st.one_of(st.sampled_from(KP_EN), st.floats(1.0, 12.0))
    return st.one_of(st.sampled_from(KP_SB), st.floats(1.0, 12.0, exclude_min=True), _logu(1e-4, 11.0).map(lambda d: 1.0 + d))


def _tols():
    return st.one_of(st.just((None, None)), st.just((None, None)),
                     st.tuples(st.sampled_from(TOL_SET), st.sampled_from(TOL_SET)),
                     st.sampled_from(TOL_SET[1:]).map(lambda t: (t, t)),
                     st.sampled_from(TOL_SET[1:]).map(lambda t: (t, t)))


@st.composite
def _magnitudes(draw, n, regime):
    """n load magnitudes relative to R_m (before the secondary-branch doubling)."""
    lo = 0.3 if regime == "plastic" else 1e-3
    hi = 0.3 if regime == "elastic" else 4.0
    shape = draw(st.sampled_from(["free", "ramp", "georamp"])) if n > 6 else "free"
    if shape == "free":
        elem = st.one_of(_logu(lo, hi), st.floats(lo, hi), st.sampled_from([lo, hi, min(max(1.0, lo), hi)]))
        return draw(st.lists(elem, min_size=n, max_size=n))
    a = draw(st.floats(lo, hi))
    b = draw(st.floats(lo, hi))
    a, b = min(a, b), max(a, b)
    if b <= a * (1 + 1e-6):
        a = b / 1.5                      # (keeps the ramp inside the load domain)
    if shape == "ramp":
        return [a + (b - a) * i / (n - 1) for i in range(n)]
    return [a * (b / a) ** (i / (n - 1)) for i in range(n)]


@st.composite
def _loads(draw, rm, n, allow_zero=True):
    regime = draw(st.sampled_from(["plastic", "wide", "plastic", "wide", "plastic", "elastic"]))
    mags = draw(_magnitudes(n, regime))
    signs = draw(st.sampled_from(["pos", "pos", "neg", "alternate", "mixed"]))
    out = []
    for i, x in enumerate(mags):
        s = {"pos": 1.0, "neg": -1.0, "alternate": (-1.0) ** i}.get(signs)
        if s is None:
            s = draw(st.sampled_from([1.0, -1.0]))
        out.append(s * x * rm)
    if allow_zero and draw(st.integers(0, 15)) == 7:
        out[draw(st.integers(0, n - 1))] = 0.0
    order = draw(st.sampled_from(["asis", "asis", "reversed", "perm"])) if n > 1 else "asis"
    if order == "reversed":
        out = out[::-1]
    elif order == "perm" and n <= 40:
        out = [out[i] for i in draw(st.permutations(range(n)))]
    return out


def _as_stresses(case, loads):
    """Map loads of the domain to the stresses the (reference) law assigns to them: the inputs of the backward
    functions then lie in the image of the load domain [0, 4 R_m] (K_p < 1.012 for Seeger-Beste: plain scaling)."""
    m, kp, sec = {"E": case["E"], "K": case["K"], "n": case["n"]}, case["K_p"], case["branch"] == "secondary"
    out = []
    for v in loads:
        if v == 0:
            out.append(0.0)
        else:
            out.append(math.copysign(ref_stress(case["law"], abs(v), m, kp, sec), v))
    return out


def _sizes(tier):
    big = [2, 2, 3, 3, 5, 8, 13, 30, 80] + ([200] if tier == "thorough" else [120])
    return st.sampled_from(big)


@st.composite
def _base(draw, laws=("EN", "SB")):
    law = draw(st.sampled_from(list(laws)))
    case = {"law": law}
    case.update(draw(_material()))
    case["K_p"] = draw(_kp(law))
    case["branch"] = draw(st.sampled_from(["primary", "secondary"]))
    case["rtol"], case["tol"] = draw(_tols())
    return case


@st.composite
def _root_cases(draw, tier):
    case = draw(_base())
    kind = draw(st.sampled_from(SCALAR_KINDS + ["arr1", "series1"] + ARRAY_KINDS * 3))
    case["container"] = kind
    n = draw(_sizes(tier)) if kind in ARRAY_KINDS else 1
    scale = case["Rm"] * (2.0 if case["branch"] == "secondary" else 1.0)
    case["loads"] = draw(_loads(scale, n))
    return case


# ------------------------------------------------------------------------------------------------
# shared pieces of the oracles

def _fn(case, backward=False):
    sec = case["branch"] == "secondary"
    if backward:
        return "load_secondary_branch" if sec else "load"
    return "stress_secondary_branch" if sec else "stress"


def _mat(case):
    return {"E": case["E"], "K": case["K"], "n": case["n"]}


def _describe(case, ctx, values):
    m = _mat(case)
    # domain guard (the strategies construct inside it; replayed foreign cases may not be)
    top = 4.0 * case["Rm"] * (2.0 if case["branch"] == "secondary" else 1.0)
    if not 1.3 <= case["K"] / case["Rm"] <= 3.1:
        ctx.skip("R_m is not the tensile strength this K' was estimated from (K'/R_m outside [1.3, 3.1])")
    kp_max = 50.0 if case["law"] == "SB" else 12.0
    if any(abs(v) > top * (1 + 1e-12) for v in values) or not 1.0 <= case["K_p"] <= kp_max:
        ctx.skip("load above 4 R_m or K_p outside [1, 12] (Seeger-Beste: [1, 50])")
    ctx.label("law:" + case["law"], "branch:" + case["branch"], "container:" + case.get("container", "-"),
              "tol:default" if case.get("tol") is None and case.get("rtol") is None else "tol:custom",
              "mat:" + case["mat"].split("/")[0].split(":")[0])
    kp = case["K_p"]
    ctx.label("K_p:1" if kp == 1 else "K_p:<1.01" if kp < 1.01 else "K_p:<1.2" if kp < 1.2 else "K_p:<4" if kp < 4 else "K_p:>=4")
    half = 0.5 * yield_stress(m) * (2.0 if case["branch"] == "secondary" else 1.0)
    plastic = [abs(v) / kp > half for v in values]
    ctx.label("regime:plastic" if all(plastic) else "regime:mixed" if any(plastic) else "regime:elastic")
    if any(v == 0 for v in values):
        ctx.label("has_zero")
    if len(values) >= 30:
        ctx.label("long_array")
    nt = any(plastic) or case.get("tol") is not None or case.get("rtol") is not None or len(values) > 1
    return nt


def _known_gate(ctx, pred, fid):
    """True -> skip the oracle for this element/case (finding is listed as known).
    ctx.known is asked once per case and finding, so the exclusion counters count cases."""
    if not pred:
        return False
    cache = ctx.__dict__.setdefault("_vp_gate", {})
    if fid not in cache:
        cache[fid] = ctx.known(fid)
    return cache[fid]


def check_forward(case, ctx, law, values, got, fname, where="root", scalar=False):
    """Assert root / bounds / sign for the forward functions on every element. Returns list of (L, sigma*, B) or None
    per element (None = element routed to a known finding)."""
    m, kp = _mat(case), case["K_p"]
    sec = case["branch"] == "secondary"
    rtol, tol = tolerances(case)
    if len(got) != len(values):
        raise Violation("%s(%s) returned %d values for %d loads" % (fname, case.get("container"), len(got), len(values)),
                        bucket="%s:length" % where)
    info = []
    for L, s in zip(values, got):
        if L == 0:
            if _known_gate(ctx, f06d_sb_zero(case["law"], L), "F06_d"):
                info.append(None)
                continue
            if not (s == 0):
                raise Violation("%s %s(0) = %r, an odd function is 0 at 0 (case K_p=%r)" % (case["law"], fname, s, kp),
                                bucket="%s:zero:%s" % (where, case["law"]))
            info.append((L, 0.0, 0.0))
            continue
        root = ref_stress(case["law"], abs(L), m, kp, sec)
        B = bound(root, rtol, tol)
        if _known_gate(ctx, f06a_cancellation(case["law"], L, root, kp, rtol, tol), "F06_a") or \
                _known_gate(ctx, f06b_mirror_root(case["law"], fname, L, root, kp, rtol, tol, m, sec, scalar), "F06_b"):
            info.append(None)
            continue
        info.append((L, math.copysign(root, L), B))
        if not math.isfinite(s):
            raise Violation("%s %s(%r) = %r (K_p=%r)" % (case["law"], fname, L, s, kp), bucket="%s:nonfinite:%s" % (where, case["law"]))
        if s * L < 0:
            raise Violation("%s %s(%r) = %r has the wrong sign" % (case["law"], fname, L, s), bucket="%s:sign:%s" % (where, case["law"]))
        err = abs(abs(s) - root)
        if err > B:
            raise Violation("%s %s(%r) = %r but the root of the defining equation is %r: |error| %.3g > tol + rtol|s| = %.3g "
                            "(K_p=%r, rtol=%r, tol=%r, E=%r K'=%r n'=%r)" % (case["law"], fname, L, s, math.copysign(root, L), err, B, kp,
                                                                           rtol, tol, m["E"], m["K"], m["n"]),
                            bucket="%s:not_a_root:%s" % (where, case["law"]), ratio=err / B)
        if abs(s) > abs(L) + B or abs(s) < abs(L) / kp - B:
            raise Violation("%s %s(%r) = %r is outside [|L|/K_p, |L|]" % (case["law"], fname, L, s), bucket="%s:bounds:%s" % (where, case["law"]))
    return info


def _pre_gates(case, ctx, fname, kind, values):
    """Container-level finding classes. True -> case is routed to a known finding."""
    if _known_gate(ctx, f03_scalar_typeerror(case["law"], fname, kind), "F03"):
        return True
    if _known_gate(ctx, f06c_series_of_one(kind), "F06_c"):
        return True
    if kind in ARRAY_KINDS and _known_gate(ctx, f06e_en_load_zero_in_array(case["law"], fname, values), "F06_e"):
        return True
    if kind in ARRAY_KINDS and _known_gate(ctx, f06f_en_load_maxiter(case["law"], fname, values, _mat(case), case["K_p"],
                                                                      case["branch"] == "secondary", tolerances(case)[1]), "F06_f"):
        return True
    # a scalar zero makes Seeger-Beste raise RuntimeError (tolerated) - nothing to gate
    return False


# ------------------------------------------------------------------------------------------------
# sub-check 1: root, bounds, sign, strain

@subcheck(PROP, "root", strategy=_root_cases, quick=1200, thorough=60000,
          doc="stress / stress_secondary_branch return the root of eq. 2.5-45/46 resp. 2.8-42/43 within the requested tolerance, "
              "inside [|L|/K_p,|L|], with the sign of L; strain / strain_secondary_branch equal Ramberg-Osgood of that stress")
def root(case, ctx):
    values, kind = case["loads"], case["container"]
    fname = _fn(case)
    nt = _describe(case, ctx, values)
    if _pre_gates(case, ctx, fname, kind, values):
        return
    law = make_law(case)
    x = container(kind, values)
    rtol, tol = case["rtol"], case["tol"]
    try:
        got = call(law, fname, x, rtol, tol, ctx)
    except SolverRaised as e:
        ctx.tolerate("RuntimeError: solver failed to converge (%s %s)" % (case["law"], "default tol" if tol is None and rtol is None else "custom tol"))
        ctx.label("solver_raised")
        return
    info = check_forward(case, ctx, law, values, got, fname, scalar=kind not in ARRAY_KINDS)
    ctx.nontrivial(nt)
    # strain functions: Ramberg-Osgood of the returned stress (closed form)
    sec = case["branch"] == "secondary"
    m = _mat(case)
    sname = "strain_secondary_branch" if sec else "strain"
    if kind in SCALAR_KINDS:
        s_in, l_in = container(kind, [got[0]]), x
    else:
        s_in, l_in = container(kind, list(got)), x
    if any(i is None for i in info) and not np.all(np.isfinite(got)):
        return
    eps = np.atleast_1d(np.asarray(getattr(law, sname)(s_in, l_in), dtype=float)).ravel()
    for s, e in zip(got, eps):
        want = ref_strain_signed(float(s), m, sec)
        if not abs(e - want) <= 1e-13 * abs(want):
            raise Violation("%s %s(%r) = %r, Ramberg-Osgood%s gives %r" % (case["law"], sname, float(s), float(e), " (Masing)" if sec else "", want),
                            bucket="root:strain:%s:%s" % (case["law"], case["branch"]))


# ------------------------------------------------------------------------------------------------
# sub-check 2: odd

@st.composite
def _odd_cases(draw, tier):
    case = draw(_base())
    kind = draw(st.sampled_from(SCALAR_KINDS + ARRAY_KINDS * 2))
    case["container"] = kind
    n = draw(_sizes(tier)) if kind in ARRAY_KINDS else 1
    scale = case["Rm"] * (2.0 if case["branch"] == "secondary" else 1.0)
    case["loads"] = draw(_loads(scale, n, allow_zero=False))
    case["backward"] = draw(st.booleans()) if case["law"] == "EN" or kind in SCALAR_KINDS else False
    if case["backward"]:
        case["loads"] = _as_stresses(case, case["loads"])
    return case


@subcheck(PROP, "odd", strategy=_odd_cases, quick=500, thorough=20000,
          doc="f(-L) == -f(L) for the four solver functions (within 2B; bit-exactness recorded)")
def odd(case, ctx):
    values, kind = case["loads"], case["container"]
    fname = _fn(case, case["backward"])
    nt = _describe(case, ctx, values)
    ctx.label("fn:" + fname)
    if _pre_gates(case, ctx, fname, kind, values):
        return
    law = make_law(case)
    rtol, tol = case["rtol"], case["tol"]
    try:
        a = call(law, fname, container(kind, values), rtol, tol, ctx)
        b = call(law, fname, container(kind, [-v for v in values]), rtol, tol, ctx)
    except SolverRaised:
        ctx.tolerate("RuntimeError: solver failed to converge")
        return
    rt, t = tolerances(case)
    m, kp, sec = _mat(case), case["K_p"], case["branch"] == "secondary"
    exact = True
    gated = False
    for v, p, q in zip(values, a, b):
        if case["law"] == "SB":
            # the finding classes are defined on the true root
            r = ref_load("SB", abs(v), m, kp, sec) if case["backward"] else ref_stress("SB", abs(v), m, kp, sec)
            L_, s_ = (r, abs(v)) if case["backward"] else (abs(v), r)
            if _known_gate(ctx, f06a_cancellation("SB", L_, s_, kp, rt, t), "F06_a") or \
                    _known_gate(ctx, f06b_mirror_root("SB", fname, L_, s_, kp, rt, t, m, sec, kind not in ARRAY_KINDS), "F06_b") or \
                    _known_gate(ctx, f06b_load_start("SB", fname, s_, kp, rt, t), "F06_b"):
                gated = True
                continue
        if p != -q:
            exact = False
        if not abs(p + q) <= 2.0 * bound(p, rt, t):
            raise Violation("%s %s(%r) = %r but %s(%r) = %r: not odd within the tolerance" % (case["law"], fname, v, p, fname, -v, q),
                            bucket="odd:%s:%s" % (case["law"], fname))
    ctx.label("odd_bit_exact" if exact else "odd_within_tolerance_only")
    ctx.nontrivial(nt and not gated)


# ------------------------------------------------------------------------------------------------
# sub-check 3: strictly increasing

@st.composite
def _mono_cases(draw, tier):
    case = draw(_base())
    kind = draw(st.sampled_from(["arr", "arr", "series_range", "scalars"]))
    case["container"] = kind
    n = draw(st.sampled_from([2, 3, 5, 10, 25, 60])) if kind != "scalars" else draw(st.integers(2, 5))
    scale = case["Rm"] * (2.0 if case["branch"] == "secondary" else 1.0)
    mode = draw(st.sampled_from(["spread", "close", "close"]))
    if mode == "spread":
        xs = sorted(set(draw(st.lists(_logu(1e-3, 4.0), min_size=n, max_size=n))))
    else:
        # neighbours only a few 1e-6 .. 1e-3 apart (relative): strict monotonicity must survive the solver tolerance
        x0 = draw(_logu(1e-2, 3.9))
        step = draw(_logu(1e-6, 1e-2))
        x0 = min(x0, 4.0 / (1.0 + step) ** n)          # the whole ramp stays inside the load domain
        xs = [x0 * (1.0 + step) ** i for i in range(n)]
    xs = [x * scale for x in xs]
    if draw(st.booleans()):
        xs = sorted(-x for x in xs)
    if len(xs) < 2:
        xs = [xs[0] / 1.5, xs[0]] if xs[0] > 0 else [xs[0], xs[0] / 1.5]
    case["loads"] = xs
    case["spacing"] = mode
    return case


@subcheck(PROP, "monotone", strategy=_mono_cases, quick=500, thorough=20000,
          doc="increasing loads give increasing stresses: never decreasing beyond the tolerance, strictly increasing whenever the "
              "exact roots differ by more than the two tolerance bounds")
def monotone(case, ctx):
    values, kind = case["loads"], case["container"]
    fname = _fn(case)
    nt = _describe(case, ctx, values)
    ctx.label("spacing:" + case["spacing"])
    law = make_law(case)
    rtol, tol = case["rtol"], case["tol"]
    try:
        if kind == "scalars":
            if _pre_gates(case, ctx, fname, "pyfloat", values):
                return
            got = np.array([call(law, fname, float(v), rtol, tol, ctx)[0] for v in values])
        else:
            got = call(law, fname, container(kind, values), rtol, tol, ctx)
    except SolverRaised:
        ctx.tolerate("RuntimeError: solver failed to converge")
        return
    info = check_forward(case, ctx, law, values, got, fname, where="monotone", scalar=(kind == "scalars"))
    strict = 0
    for (i1, s1), (i2, s2) in zip(zip(info[:-1], got[:-1]), zip(info[1:], got[1:])):
        if i1 is None or i2 is None:
            continue
        (_, r1, b1), (_, r2, b2) = i1, i2
        if s2 - s1 < -(b1 + b2):
            raise Violation("%s %s decreases: f(%r)=%r > f(%r)=%r" % (case["law"], fname, i1[0], s1, i2[0], s2), bucket="monotone:decreasing:%s" % case["law"])
        if r2 - r1 > b1 + b2:
            strict += 1
            if not s2 > s1:
                raise Violation("%s %s not strictly increasing: f(%r)=%r, f(%r)=%r, exact roots %r < %r" % (case["law"], fname, i1[0], s1, i2[0], s2, r1, r2),
                                bucket="monotone:not_strict:%s" % case["law"])
    if strict:
        ctx.label("strict_pairs_asserted")
    ctx.nontrivial(nt and strict > 0 and all(i is not None for i in info))


# ------------------------------------------------------------------------------------------------
# sub-check 4: backward functions are roots of the same equation and inverses

@st.composite
def _inv_cases(draw, tier):
    case = draw(_base())
    case["direction"] = draw(st.sampled_from(["LSL", "LSL", "SLS"]))
    if case["law"] == "SB":
        kind = draw(st.sampled_from(SCALAR_KINDS))
    else:
        kind = draw(st.sampled_from(SCALAR_KINDS + ARRAY_KINDS * 2))
    case["container"] = kind
    n = draw(st.sampled_from([2, 3, 5, 12, 40])) if kind in ARRAY_KINDS else draw(st.integers(1, 3))
    scale = case["Rm"] * (2.0 if case["branch"] == "secondary" else 1.0)
    vals = draw(_loads(scale, n, allow_zero=(case["law"] == "EN")))
    if case["direction"] == "SLS":
        # start from stresses in the image of the load domain
        vals = _as_stresses(case, vals)
    case["loads"] = vals
    return case


def _forward_values(case, ctx, law, values, rtol, tol):
    """stress for the list of loads through a vectorised call (Seeger-Beste cannot be called with a scalar: F03)."""
    fname = _fn(case)
    padded = list(values) if len(values) > 1 else [values[0], values[0]]
    return call(law, fname, np.array(padded, dtype=float), rtol, tol, ctx)[:len(values)]


def _backward_values(case, ctx, law, values, rtol, tol):
    fname = _fn(case, True)
    kind = case["container"]
    if kind in SCALAR_KINDS:
        return np.array([call(law, fname, container(kind, [v]), rtol, tol, ctx)[0] for v in values])
    return call(law, fname, container(kind, list(values)), rtol, tol, ctx)


@subcheck(PROP, "inverse", strategy=_inv_cases, quick=700, thorough=30000,
          doc="load / load_secondary_branch return the root (in L) of the same equation within the tolerance, inside [|S|, K_p|S|]; "
              "load(stress(L)) = L and stress(load(S)) = S up to the propagated tolerances")
def inverse(case, ctx):
    values, kind = case["loads"], case["container"]
    nt = _describe(case, ctx, values)
    ctx.label("dir:" + case["direction"])
    bname = _fn(case, True)
    m, kp, sec = _mat(case), case["K_p"], case["branch"] == "secondary"
    rt, t = tolerances(case)
    rtol, tol = case["rtol"], case["tol"]
    lawname = case["law"]
    law = make_law(case)
    if lawname == "SB" and any(v == 0 for v in values):
        ctx.skip("zero for Seeger-Beste")   # not generated
    gated = False

    def root_of_load(S, Lp):
        """assert Lp = load(S) is the root in L for the given S (S != 0); returns (L*, B_L) or None if gated."""
        nonlocal gated
        Ls = ref_load(lawname, abs(S), m, kp, sec)
        BL = bound(Ls, rt, t)
        if _known_gate(ctx, f06a_cancellation(lawname, Ls, abs(S), kp, rt, t), "F06_a") or \
                _known_gate(ctx, f06b_load_start(lawname, bname, S, kp, rt, t), "F06_b"):
            gated = True
            return None
        if not math.isfinite(Lp):
            raise Violation("%s %s(%r) = %r" % (lawname, bname, S, Lp), bucket="inverse:nonfinite:%s" % lawname)
        if Lp * S < 0:
            raise Violation("%s %s(%r) = %r has the wrong sign" % (lawname, bname, S, Lp), bucket="inverse:sign:%s" % lawname)
        if abs(abs(Lp) - Ls) > BL:
            raise Violation("%s %s(%r) = %r but the defining equation gives L = %r: |error| %.3g > %.3g (K_p=%r rtol=%r tol=%r E=%r K'=%r n'=%r)"
                            % (lawname, bname, S, Lp, math.copysign(Ls, S), abs(abs(Lp) - Ls), BL, kp, rt, t, m["E"], m["K"], m["n"]),
                            bucket="inverse:not_a_root:%s" % lawname)
        if abs(Lp) < abs(S) - BL or abs(Lp) > kp * abs(S) + BL:
            raise Violation("%s %s(%r) = %r is outside [|S|, K_p|S|]" % (lawname, bname, S, Lp), bucket="inverse:bounds:%s" % lawname)
        return Ls, BL

    try:
        if case["direction"] == "LSL":
            sig = _forward_values(case, ctx, law, values, rtol, tol)
            info = check_forward(case, ctx, law, values, sig, _fn(case), where="inverse_fwd")
            ok = [i for i, x in enumerate(info) if x is not None and math.isfinite(sig[i])]
            if len(ok) < len(values):
                gated = True
            svals = [float(sig[i]) for i in ok]
            if not svals or _pre_gates(case, ctx, bname, kind, svals):
                return
            back = _backward_values(case, ctx, law, svals, rtol, tol)
            if len(back) != len(svals):
                raise Violation("%s returned %d values for %d stresses" % (bname, len(back), len(svals)), bucket="inverse:length")
            for j, i in enumerate(ok):
                L, S, Lp = values[i], svals[j], float(back[j])
                if L == 0:
                    if Lp != 0:
                        raise Violation("%s %s(stress(0)) = %r" % (lawname, bname, Lp), bucket="inverse:zero:%s" % lawname)
                    continue
                if root_of_load(S, Lp) is None:
                    continue
                # round trip: sigma lies within B_s of sigma*(L); the exact inverse is increasing
                Bs = info[i][2]
                rs = abs(info[i][1])
                lo = ref_load(lawname, max(rs - Bs, rs * 0.5), m, kp, sec)
                hi = ref_load(lawname, rs + Bs, m, kp, sec)
                if not (lo - bound(lo, rt, t) <= abs(Lp) <= hi + bound(hi, rt, t)):
                    raise Violation("%s round trip load(stress(%r)) = %r, admissible [%r, %r]" % (lawname, L, Lp, lo, hi), bucket="inverse:roundtrip_LSL:%s" % lawname)
        else:
            if _pre_gates(case, ctx, bname, kind, values):
                return
            back = _backward_values(case, ctx, law, values, rtol, tol)
            if len(back) != len(values):
                raise Violation("%s returned %d values for %d stresses" % (bname, len(back), len(values)), bucket="inverse:length")
            keep = []
            for S, Lp in zip(values, back):
                if S == 0:
                    if Lp != 0:
                        raise Violation("%s %s(0) = %r" % (lawname, bname, Lp), bucket="inverse:zero:%s" % lawname)
                    continue
                r = root_of_load(S, float(Lp))
                if r is not None:
                    keep.append((S, float(Lp), r))
            if keep:
                sig = _forward_values(case, ctx, law, [k[1] for k in keep], rtol, tol)
                for (S, Lp, (Ls, BL)), s in zip(keep, sig):
                    lo = ref_stress(lawname, max(Ls - BL, Ls * 0.5), m, kp, sec)
                    hi = ref_stress(lawname, Ls + BL, m, kp, sec)
                    r0 = ref_stress(lawname, abs(Lp), m, kp, sec)
                    if _known_gate(ctx, f06a_cancellation(lawname, Lp, r0, kp, rt, t), "F06_a") or \
                            _known_gate(ctx, f06b_mirror_root(lawname, _fn(case), Lp, r0, kp, rt, t, m, sec), "F06_b"):
                        gated = True
                        continue
                    if not (lo - bound(lo, rt, t) <= abs(s) <= hi + bound(hi, rt, t)) or s * S < 0:
                        raise Violation("%s round trip stress(load(%r)) = %r, admissible [%r, %r]" % (lawname, S, float(s), lo, hi),
                                        bucket="inverse:roundtrip_SLS:%s" % lawname)
    except SolverRaised:
        ctx.tolerate("RuntimeError: solver failed to converge")
        ctx.label("solver_raised")
        return
    ctx.nontrivial(nt and not gated)


# ------------------------------------------------------------------------------------------------
# sub-check 5: containers

@st.composite
def _container_cases(draw, tier):
    case = draw(_base())
    case["backward"] = draw(st.booleans()) if case["law"] == "EN" else False
    n = draw(st.sampled_from([2, 2, 3, 5, 9, 20]))
    scale = case["Rm"] * (2.0 if case["branch"] == "secondary" else 1.0)
    case["loads"] = draw(_loads(scale, n))
    if case["backward"]:
        case["loads"] = _as_stresses(case, case["loads"])
    # the ndarray call is the base line; compare it with 1-3 other containers
    pool = ARRAY_KINDS[1:] * 3 + SCALAR_KINDS + ["arr1", "series1"]
    if case["law"] == "EN":
        pool = pool + SCALAR_KINDS * 2 + ["arr1"]
    case["kinds"] = sorted(set(draw(st.lists(st.sampled_from(pool), min_size=1, max_size=3))))
    return case


@subcheck(PROP, "containers", strategy=_container_cases, quick=500, thorough=20000,
          doc="the same numbers as python float / np.float64 / 0-d array / 1-element array / 1-element Series / ndarray / Series "
              "(RangeIndex, named index, MultiIndex): array-likes bit-identical, scalar calls within the solver bound of the array call")
def containers(case, ctx):
    values = case["loads"]
    fname = _fn(case, case["backward"])
    case = dict(case, container="+".join(case["kinds"]))
    nt = _describe(case, ctx, values)
    ctx.label("fn:" + fname)
    for k in case["kinds"]:
        ctx.label("kind:" + k)
    rt, t = tolerances(case)
    rtol, tol = case["rtol"], case["tol"]
    lawname = case["law"]
    law = make_law(case)
    gated = False
    if _pre_gates(case, ctx, fname, "arr", values):
        return
    try:
        base = call(law, fname, container("arr", values), rtol, tol, ctx)
    except SolverRaised:
        ctx.tolerate("RuntimeError: solver failed to converge")
        return
    if len(base) != len(values):
        raise Violation("%s(ndarray) returned %d values for %d inputs" % (fname, len(base), len(values)), bucket="containers:length")
    m, kp, sec = _mat(case), case["K_p"], case["branch"] == "secondary"
    for kind in case["kinds"]:
        if kind in ARRAY_KINDS:
            try:
                other = call(law, fname, container(kind, values), rtol, tol, ctx)
            except SolverRaised:
                raise Violation("%s %s raises for %s but not for the ndarray of the same numbers" % (lawname, fname, kind), bucket="containers:raise:%s" % kind)
            if len(other) != len(base) or not all((a == b) or (a != a and b != b) for a, b in zip(base, other)):
                raise Violation("%s %s: %s gives %r, ndarray gives %r" % (lawname, fname, kind, list(other), list(base)),
                                bucket="containers:arraylike:%s:%s" % (lawname, kind))
            continue
        if _known_gate(ctx, f03_scalar_typeerror(lawname, fname, kind), "F03") or _known_gate(ctx, f06c_series_of_one(kind), "F06_c"):
            gated = True
            continue
        for v, b in zip(values, base):
            if v == 0 and _known_gate(ctx, f06d_sb_zero(lawname, v), "F06_d"):
                gated = True
                continue
            if lawname == "SB" and v != 0:
                r = ref_stress("SB", abs(v), m, kp, sec)
                if _known_gate(ctx, f06a_cancellation("SB", v, r, kp, rt, t), "F06_a") or \
                        _known_gate(ctx, f06b_mirror_root("SB", fname, v, r, kp, rt, t, m, sec) or
                                        f06b_mirror_root("SB", fname, v, r, kp, rt, t, m, sec, True), "F06_b"):
                    gated = True
                    continue
            try:
                one = call(law, fname, container(kind, [v]), rtol, tol, ctx)
            except SolverRaised:
                ctx.tolerate("RuntimeError: solver failed to converge (scalar call)")
                continue
            if len(one) != 1:
                raise Violation("%s(%s) returned %d values" % (fname, kind, len(one)), bucket="containers:length")
            if not abs(one[0] - b) <= bound(b, rt, t) + bound(one[0], rt, t):
                raise Violation("%s %s(%r as %s) = %r but element of the array call = %r (rtol=%r tol=%r)" % (lawname, fname, v, kind, one[0], b, rt, t),
                                bucket="containers:scalar_vs_array:%s" % lawname)
    ctx.nontrivial(nt and not gated)


# ------------------------------------------------------------------------------------------------
# sub-check 6: strain functions are Ramberg-Osgood (closed form), for arbitrary stresses

@st.composite
def _strain_cases(draw, tier):
    case = draw(_base())
    kind = draw(st.sampled_from(SCALAR_KINDS + ["arr1"] + ARRAY_KINDS))
    case["container"] = kind
    n = draw(st.sampled_from([2, 3, 7, 30])) if kind in ARRAY_KINDS else 1
    scale = case["Rm"] * (2.0 if case["branch"] == "secondary" else 1.0)
    case["loads"] = draw(_loads(scale, n))
    return case


@subcheck(PROP, "strain", strategy=_strain_cases, quick=300, thorough=10000,
          doc="strain(S, L) == S/E + sign(S)(|S|/K')^(1/n'); strain_secondary_branch(dS, dL) == dS/E + 2 sign(dS)(|dS|/2K')^(1/n') for any S")
def strain(case, ctx):
    values, kind = case["loads"], case["container"]
    _describe(case, ctx, values)
    sec = case["branch"] == "secondary"
    m = _mat(case)
    law = make_law(case)
    sname = "strain_secondary_branch" if sec else "strain"
    x = container(kind, values)
    eps = np.atleast_1d(np.asarray(getattr(law, sname)(x, x), dtype=float)).ravel()
    if len(eps) != len(values):
        raise Violation("%s returned %d values for %d stresses" % (sname, len(eps), len(values)), bucket="strain:length")
    for s, e in zip(values, eps):
        want = ref_strain_signed(float(s), m, sec)
        if not abs(e - want) <= 1e-13 * abs(want):
            raise Violation("%s %s(%r) = %r, closed form gives %r" % (case["law"], sname, s, float(e), want), bucket="strain:%s:%s" % (case["law"], case["branch"]))
    ctx.nontrivial(any(abs(v) > 0.5 * yield_stress(m) for v in values) or len(values) > 1)


# ------------------------------------------------------------------------------------------------
# sub-check 7: call history on ONE law object (public setters, the same load object passed again)

@st.composite
def _history_cases(draw, tier):
    case = draw(_base())
    if case["law"] == "SB":
        case["K_p"] = draw(st.sampled_from([1.2, 2.0, 3.5, 10.0]))
    kind = draw(st.sampled_from(["arr", "arr", "pyfloat", "series_range"] if case["law"] == "EN" else ["arr", "arr", "series_range"]))
    case["container"] = kind
    n = draw(st.sampled_from([2, 3, 8])) if kind != "pyfloat" else 1
    case["loads"] = draw(_loads(case["Rm"], n, allow_zero=True))
    kps = [1.2, 2.0, 3.5, 10.0] + ([1.0] if case["law"] == "EN" else [])
    steps = []
    for _ in range(draw(st.integers(2, 6))):
        k = draw(st.sampled_from(["call", "call", "K_p", "K_p", "K_prime", "K", "scale_inplace"]))
        if k == "call":
            steps.append(["call", draw(st.sampled_from(["stress", "stress_secondary_branch"] + (["load", "load_secondary_branch"] if case["law"] == "EN" else [])))])
        elif k == "K_p":
            steps.append(["K_p", draw(st.sampled_from(kps))])
        elif k == "scale_inplace":
            steps.append(["scale_inplace", draw(st.sampled_from([0.5, 1.5, -1.0]))])
        else:
            steps.append([k, case["K"] * draw(st.sampled_from([0.7, 1.0, 1.3]))])
    steps.append(["call", "stress"])
    case["steps"] = steps
    return case


@subcheck(PROP, "setter_history", strategy=_history_cases, quick=400, thorough=15000,
          doc="ONE law object, ONE load object: calls interleaved with K_p / K_prime / K set through the public setters and in-place changes of "
              "the load array; every call must return exactly what a FRESH law with the current parameters returns for a copy of the loads")
def setter_history(case, ctx):
    kind = case["container"]
    _describe(case, ctx, case["loads"])
    law = make_law(case)
    cur = dict(case)
    rtol, tol = case["rtol"], case["tol"]
    x = container(kind, case["loads"])            # the SAME object is passed to every call
    values = list(case["loads"])
    changed = False
    nt = False
    for step in case["steps"]:
        if step[0] == "call":
            fname = step[1]
            vals = [v * 0.4 for v in values] if fname.startswith("load") else values
            arg = x if not fname.startswith("load") else container(kind, vals)
            fresh = make_law(cur)
            try:
                want = call(fresh, fname, container(kind, vals), rtol, tol)
            except SolverRaised:
                want = None
            try:
                got = call(law, fname, arg, rtol, tol, ctx)
            except SolverRaised:
                got = None
            if (got is None) != (want is None):
                raise Violation("%s %s after %r: the used law object %s, a fresh law with the same parameters %s"
                                % (case["law"], fname, case["steps"], "raises" if got is None else "returns", "raises" if want is None else "returns"),
                                bucket="history:raise_mismatch")
            if got is None:
                ctx.tolerate("RuntimeError: solver failed to converge")
                continue
            if len(got) != len(want) or not all((a == b) or (a != a and b != b) for a, b in zip(got, want)):
                raise Violation("%s %s(%r) on a law object with history %r = %r, a fresh law with the current parameters (K'=%r, K_p=%r) gives %r"
                                % (case["law"], fname, vals, case["steps"], list(got), cur["K"], cur["K_p"], list(want)),
                                bucket="history:%s:%s" % (case["law"], fname))
            nt = nt or changed
        elif step[0] == "scale_inplace":
            if kind == "pyfloat":
                continue
            values = [v * step[1] for v in values]
            if kind == "arr":
                x *= step[1]
            else:
                x.iloc[:] = np.array(values, dtype=float)
            changed = True
            ctx.label("inplace_change")
        else:
            setattr(law, step[0], step[1])
            cur["K_p" if step[0] == "K_p" else "K"] = step[1]
            ctx.label("set:" + step[0])
            changed = True
    ctx.nontrivial(nt)


# ------------------------------------------------------------------------------------------------
# sub-check 8: integer-typed containers (whole-numbered MPa values)

INT_KINDS = ["int64", "int64", "int32", "series_int64", "series_int32", "list", "pyint", "npint64", "int64_1"]


def int_container(kind, vals):
    if kind == "int64":
        return np.array(vals, dtype=np.int64)
    if kind == "int32":
        return np.array(vals, dtype=np.int32)
    if kind == "int64_1":
        return np.array(vals[:1], dtype=np.int64)
    if kind == "series_int64":
        return pd.Series(np.array(vals, dtype=np.int64))
    if kind == "series_int32":
        return pd.Series(np.array(vals, dtype=np.int32), index=pd.Index(np.arange(len(vals)) + 5, name="node_id"))
    if kind == "list":
        return [int(v) for v in vals]
    if kind == "pyint":
        return int(vals[0])
    if kind == "npint64":
        return np.int64(vals[0])
    raise ValueError(kind)


def float_twin(kind, vals):
    """the float-typed input with the same numbers and the same shape"""
    if kind in ("pyint", "npint64"):
        return float(vals[0])
    if kind == "int64_1":
        return np.array(vals[:1], dtype=float)
    if kind.startswith("series"):
        return pd.Series(np.array(vals, dtype=float))
    return np.array(vals, dtype=float)


@st.composite
def _int_cases(draw, tier):
    case = draw(_base())
    if case["law"] == "SB":
        case["K_p"] = draw(st.sampled_from([1.2, 2.0, 3.5, 10.0]))
    case["fn"] = draw(st.sampled_from(["stress", "stress", "stress_secondary_branch", "load", "load_secondary_branch"]))
    case["branch"] = "secondary" if "secondary" in case["fn"] else "primary"
    kind = draw(st.sampled_from(INT_KINDS))
    case["container"] = kind
    n = 1 if kind in ("pyint", "npint64", "int64_1") else draw(st.sampled_from([2, 3, 4, 6, 10]))
    scale = case["Rm"] * (2.0 if case["branch"] == "secondary" else 1.0)
    lo = max(1, int(math.ceil(1e-3 * scale)))
    hi = int(4 * scale)
    mags = draw(st.lists(st.one_of(st.integers(lo, hi), st.integers(lo, max(lo, hi // 8))), min_size=n, max_size=n))
    vals = [m * draw(st.sampled_from([1, 1, -1])) for m in mags]
    zeros = draw(st.sampled_from(["none", "none", "first", "middle", "last", "two", "all"]))
    if n > 1 or zeros == "all":
        if zeros == "first":
            vals[0] = 0
        elif zeros == "last":
            vals[-1] = 0
        elif zeros == "middle":
            vals[n // 2] = 0
        elif zeros == "two":
            vals[0] = 0
            vals[draw(st.integers(0, n - 1))] = 0
        elif zeros == "all" and draw(st.integers(0, 3)) == 2:
            vals = [0] * n
    if case["fn"].startswith("load"):
        # whole-numbered stresses inside the image of the load domain
        m, kp, sec = {"E": case["E"], "K": case["K"], "n": case["n"]}, case["K_p"], case["branch"] == "secondary"
        vals = [0 if v == 0 else int(math.copysign(max(1, math.floor(ref_stress(case["law"], abs(v), m, kp, sec))), v)) for v in vals]
    case["loads"] = vals
    return case


@subcheck(PROP, "integer_inputs", strategy=_int_cases, quick=600, thorough=20000,
          doc="whole-numbered loads as int64 / int32 ndarray, integer Series, list of ints, python int, np.int64 - with and without zeros - "
              "for the four solver functions of both laws: either the input is rejected with TypeError/ValueError/AttributeError (counted) or "
              "the result equals that of the float-typed call and satisfies the defining equation")
def integer_inputs(case, ctx):
    values, kind, fname = case["loads"], case["container"], case["fn"]
    fvals = [float(v) for v in (values[:1] if kind in ("pyint", "npint64", "int64_1") else values)]
    _describe(case, ctx, fvals)
    ctx.label("fn:" + fname, "int_kind:" + kind)
    if any(v == 0 for v in fvals):
        ctx.label("int_with_zero")
    lawname = case["law"]
    law = make_law(case)
    rtol, tol = case["rtol"], case["tol"]
    rt, t = tolerances(case)
    kw = {}
    if rtol is not None:
        kw["rtol"] = rtol
    if tol is not None:
        kw["tol"] = tol
    try:
        with warnings.catch_warnings(), np.errstate(all="ignore"):
            warnings.simplefilter("ignore")
            raw = getattr(law, fname)(int_container(kind, values), **kw)
    except (TypeError, ValueError, AttributeError) as e:
        ctx.tolerate("integer-typed input rejected: %s %s(%s) -> %s" % (lawname, fname, kind, type(e).__name__))
        ctx.label("int_rejected")
        return
    except RuntimeError as e:
        if "converge" not in str(e):
            raise
        ctx.tolerate("RuntimeError: solver failed to converge")
        return
    arr = np.asarray(raw)
    if arr.dtype.kind != "f":
        ctx.label("int_result_dtype")      # e.g. K_p = 1: the start value already solves the equation and is returned as it is
    got = np.atleast_1d(arr.astype(float)).ravel()
    try:
        want = call(make_law(case), fname, float_twin(kind, values), rtol, tol)
    except SolverRaised:
        raise Violation("%s %s: the float-typed call raises, the %s call returns %r" % (lawname, fname, kind, list(got)), bucket="integer:raise_mismatch")
    if len(got) != len(want):
        raise Violation("%s %s(%s) returned %d values, the float-typed call %d" % (lawname, fname, kind, len(got), len(want)), bucket="integer:length")
    exact = True
    for v, g, w in zip(fvals, got, want):
        if not (g == w):
            exact = False
        if not abs(g - w) <= bound(g, rt, t) + bound(w, rt, t):
            raise Violation("%s %s(%s %r) = %r but the float-typed call gives %r" % (lawname, fname, kind, values, list(got), list(want)),
                            bucket="integer:differs_from_float:%s:%s" % (lawname, fname))
    ctx.label("int_equals_float_bitwise" if exact else "int_equals_float_within_tolerance")
    # the equation itself
    m, kp, sec = _mat(case), case["K_p"], case["branch"] == "secondary"
    gated = False
    if fname.startswith("stress"):
        info = check_forward(case, ctx, law, fvals, got, fname, where="integer", scalar=len(fvals) == 1)
        gated = any(i is None for i in info)
    else:
        for S, Lp in zip(fvals, got):
            if S == 0:
                if Lp != 0:
                    raise Violation("%s %s(0) = %r for integer input" % (lawname, fname, Lp), bucket="integer:zero:%s" % lawname)
                continue
            Ls = ref_load(lawname, abs(S), m, kp, sec)
            if _known_gate(ctx, f06b_load_start(lawname, fname, S, kp, rt, t), "F06_b"):
                gated = True
                continue
            if not (Lp * S > 0 and abs(abs(Lp) - Ls) <= bound(Ls, rt, t)):
                raise Violation("%s %s(%s %r): element %r -> %r but the defining equation gives L = %r" % (lawname, fname, kind, values, S, Lp, math.copysign(Ls, S)),
                                bucket="integer:not_a_root:%s:%s" % (lawname, fname))
    ctx.nontrivial(not gated)


# ------------------------------------------------------------------------------------------------
# sub-check 9: Seeger-Beste per-element retry of entries the vectorised secant left unconverged

@st.composite
def _retry_cases(draw, tier):
    case = {"law": "SB"}
    case.update(draw(st.sampled_from(FKM_POOL)))
    case["K_p"] = draw(st.sampled_from([20.0, 30.0, 30.0, 50.0, 50.0]))
    case["branch"] = draw(st.sampled_from(["primary", "secondary"]))
    case["rtol"], case["tol"] = 1e-10, 1e-10
    case["container"] = draw(st.sampled_from(["arr", "arr", "series_range"]))
    n = draw(st.sampled_from([50, 80, 120]))
    top = draw(st.sampled_from([2.0, 3.0, 4.0])) * case["Rm"] * (2.0 if case["branch"] == "secondary" else 1.0)
    lo = top / n * draw(st.floats(0.5, 1.0))
    xs = [lo + (top - lo) * i / (n - 1) for i in range(n)]
    order = draw(st.sampled_from(["ascending", "descending", "negative"]))
    if order == "descending":
        xs = xs[::-1]
    elif order == "negative":
        xs = [-x for x in xs]
    case["loads"] = xs
    return case


@subcheck(PROP, "sb_retry", strategy=_retry_cases, quick=160, thorough=4000,
          doc="Seeger-Beste, K_p in {20,30,50}, rtol=tol=1e-10, ramps of 50-120 loads: the vectorised secant leaves a few entries unconverged "
              "which are solved again one by one - every returned value is the root for ITS OWN load (reference root, bounds, sign, monotone)")
def sb_retry(case, ctx):
    values, kind = case["loads"], case["container"]
    fname = _fn(case)
    _describe(case, ctx, values)
    law = make_law(case)
    try:
        got = call(law, fname, container(kind, values), case["rtol"], case["tol"], ctx)
    except SolverRaised:
        ctx.tolerate("RuntimeError: solver failed to converge")
        return
    info = check_forward(case, ctx, law, values, got, fname, where="retry")
    order = sorted(range(len(values)), key=lambda i: values[i])
    for i, j in zip(order[:-1], order[1:]):
        if info[i] is not None and info[j] is not None and not got[j] > got[i]:
            raise Violation("SB %s not increasing: f(%r) = %r, f(%r) = %r" % (fname, values[i], got[i], values[j], got[j]), bucket="retry:monotone")
    ctx.nontrivial("sb_retry_path" in ctx.labels)
