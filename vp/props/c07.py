"""C07 - the binned notch law is the wrapped law sampled at the upper class edge.

Code under test: pylife.materiallaws.notch_approximation_law.Binned.

Oracle.  The class edges are re-computed in the harness with the table's own expression (k / n) * max (IEEE double,
same operation order), the expected class of a load is the smallest k with edge_k >= |L| (plain Python bisect), the
expected value is sign(L) * wrapped(edge_k).  Three wrapped laws:

* a *spy law* owned by the harness: closed-form, odd, increasing functions built from + - * / sqrt only (all correctly
  rounded, so the numpy evaluation inside Binned and the plain-Python evaluation in the harness agree bit for bit).
  It records its calls, which lets the check assert that the table is built on exactly the edges (k/n)*max
  (2n classes for load ranges).  With the spy every comparison is exact (==).
* ExtendedNeuber and SeegerBeste: the expected table is the law itself called by the harness on the whole edge vector
  (the same vectorised call Binned makes, hence bit-identical: exact comparison).  Where a single point's table is compared
  with the per-point table of several points the vectorised solver may stop at different iterates: tolerance
  B = tol + rtol*|s| with the law's defaults (1e-4) for each of the two values.

Consequences (never under-estimates, monotone, less than one class away from the exact law) are asserted exactly for
the spy and with the solver bound B per involved law value for the real laws (exact law = the wrapped law's own call).
ValueError is the documented outcome for |L| > max (|dL| > 2 max): required there, forbidden inside the range.
"""

import bisect
import json
import math
import warnings

import numpy as np
import pandas as pd
from hypothesis import strategies as st

from ..core import Violation, subcheck, nontrivial_rule, assumptions
from . import c06 as _c06        # reference root + predicate of finding F06_a (Seeger-Beste noise in the elastic regime)

PROP = "C07"

nontrivial_rule(PROP, "Non-trivial: the case contains a load exactly on a class edge or one ulp beside it, or a negative or zero "
                      "load, or a load outside the initialised range, or uses a per-point table; cases routed to a known finding are not counted.")
assumptions(PROP, [
    "the spy law's functions use only + - * / sqrt, which numpy and Python evaluate identically (IEEE, no fused multiply-add)",
    "per-point look-ups use proportional loads (one load factor for all points, as the FKM detector produces them); the class is "
    "the class of the first point by documented design, and loads one ulp beside an edge are asserted only if all points agree on the class",
    "maximum loads are positive, except that one case in twelve of `per_point` puts a point with maximum load 0 in FIRST position: "
    "finding class F07_a (predicate f07a_first_point_zero_max, witness replays/C07/F07_a-*.json), counted under `excluded`; loads that are not proportional to the "
    "per-point maxima (e.g. max [100,100], loads [50,150]: no error for 150, both get the class of 50) are outside the documented per-point use",
    "scalar look-ups are made on single-point tables, Series look-ups on single-point and per-point tables (the combinations the callers use)",
    "real laws are wrapped with parameters from the FKM estimates; their own accuracy is C06's business - here they are the reference for themselves",
])

# ------------------------------------------------------------------------------------------------
# spy law

SPY_C, SPY_E, SPY_D = 300.0, 2.0e5, 1.0e7


class SpyLaw:
    """Law interface of ExtendedNeuber/SeegerBeste with closed-form functions (numpy side)."""

    def __init__(self):
        self.calls = []

    @property
    def ramberg_osgood_relation(self):
        return None

    def stress(self, load, *, rtol=None, tol=None):
        self.calls.append(("stress", np.array(load, dtype=float, copy=True)))
        return load / np.sqrt(1.0 + (load / SPY_C) * (load / SPY_C))

    def strain(self, stress, load):
        self.calls.append(("strain", np.array(load, dtype=float, copy=True)))
        return stress / SPY_E + load * np.abs(load) / SPY_D

    def stress_secondary_branch(self, delta_load, *, rtol=None, tol=None):
        self.calls.append(("stress_secondary_branch", np.array(delta_load, dtype=float, copy=True)))
        return delta_load / np.sqrt(1.0 + (delta_load / (2.0 * SPY_C)) * (delta_load / (2.0 * SPY_C)))

    def strain_secondary_branch(self, delta_stress, delta_load):
        self.calls.append(("strain_secondary_branch", np.array(delta_load, dtype=float, copy=True)))
        return delta_stress / SPY_E + delta_load * np.abs(delta_load) / (2.0 * SPY_D)


SPY_ULPS = 8 * 2.220446049250313e-16     # the spy's functions are increasing only up to rounding (a few ulp)


def spy_ref(fn, x):
    """Plain-Python twin of the spy (x >= 0)."""
    if fn == "stress":
        return x / math.sqrt(1.0 + (x / SPY_C) * (x / SPY_C))
    if fn == "strain":
        s = spy_ref("stress", x)
        return s / SPY_E + x * abs(x) / SPY_D
    if fn == "stress_secondary_branch":
        return x / math.sqrt(1.0 + (x / (2.0 * SPY_C)) * (x / (2.0 * SPY_C)))
    if fn == "strain_secondary_branch":
        s = spy_ref("stress_secondary_branch", x)
        return s / SPY_E + x * abs(x) / (2.0 * SPY_D)
    raise ValueError(fn)


FUNCS = ["stress", "strain", "stress_secondary_branch", "strain_secondary_branch"]

# real-law parameter pool (FKM estimates: Steel 600, Steel 1000, SteelCast 400, Al_wrought 250) - kept small because a
# Seeger-Beste table costs ~0.3 s; Binned objects are cached per worker process
REAL_POOL = [
    {"mat": "Steel/600", "E": 206000.0, "K": 1184.4709523475037, "n": 0.187, "Rm": 600.0},
    {"mat": "Steel/1000", "E": 206000.0, "K": 2058.867536682219, "n": 0.187, "Rm": 1000.0},
    {"mat": "SteelCast/400", "E": 206000.0, "K": 775.094298050206, "n": 0.176, "Rm": 400.0},
    {"mat": "Al_wrought/250", "E": 70000.0, "K": 530.2525575993598, "n": 0.128, "Rm": 250.0},
]
REAL_KP = [1.2, 3.5]
REAL_MAXF = [0.5, 2.0]          # maximum load as a multiple of R_m
DEFAULT_TOL = 1e-4              # Binned never forwards rtol/tol: the wrapped laws run with their defaults


def make_wrapped(spec):
    if spec["law"] == "spy":
        return SpyLaw()
    from pylife.materiallaws.notch_approximation_law import ExtendedNeuber
    from pylife.materiallaws.notch_approximation_law_seegerbeste import SeegerBeste
    cls = ExtendedNeuber if spec["law"] == "EN" else SeegerBeste
    return cls(spec["E"], spec["K"], spec["n"], spec["K_p"])


def edges(maxload, n, secondary):
    return [(k / n) * maxload for k in range(1, (2 * n if secondary else n) + 1)]


def f06c_single_class(spec):
    """F06_c (see C06): a real law called with a Series of length 1 raises ValueError inside scipy's newton, so a single-point
    table with number_of_bins == 1 (one point) cannot be built."""
    points = len(spec["max"]) if isinstance(spec["max"], list) else 1
    return spec["law"] != "spy" and spec["bins"] * points == 1


def f07a_first_point_zero_max(spec):
    """F07_a: per-point look-ups select the class from the FIRST point's table only.  If that point's maximum load is 0 (an
    unloaded node that happens to come first) its table is all zero, every load falls into class 1 and all other points get
    their class-1 value (Binned(law, [0, 100], 10).stress([0, 55]) -> 10.0 for the second point instead of 59.99)."""
    mx = spec["max"]
    return isinstance(mx, list) and len(mx) > 1 and mx[0][1] == 0 and any(m > 0 for _, m in mx[1:])


def _gate(ctx, pred, fid):
    if not pred:
        return False
    cache = ctx.__dict__.setdefault("_vp_gate", {})
    if fid not in cache:
        cache[fid] = ctx.known(fid)
    return cache[fid]


def f06a_noisy_value(spec, load, sec):
    """F06_a (see C06): the Seeger-Beste value at this load is blurred by the cancellation in the middle term by more than
    a quarter of the solver tolerance - comparisons of two separately solved values are then not bounded by the tolerance."""
    if spec["law"] != "SB" or load == 0:
        return False
    m = {"E": spec["E"], "K": spec["K"], "n": spec["n"]}
    if abs(load) < 1e-6 * spec["K"]:
        return True                   # deep in the elastic regime (u = 0 to rounding); also avoids underflow in the reference
    root = _c06.ref_stress("SB", abs(load), m, spec["K_p"], sec)
    return _c06.f06a_cancellation("SB", abs(load), root, spec["K_p"], DEFAULT_TOL, DEFAULT_TOL)


_CACHE = {}


def _call_quiet(fn, *a):
    with warnings.catch_warnings(), np.errstate(all="ignore"):
        warnings.simplefilter("ignore")
        return fn(*a)


def build(spec):
    """Binned object + expected tables for a spec (cached per process).  Expected tables:
    {fn: {node_key: [value of class 1..]}} with node_key None for a single point."""
    key = json.dumps(spec, sort_keys=True)
    if key in _CACHE:
        return _CACHE[key]
    from pylife.materiallaws.notch_approximation_law import Binned
    law = make_wrapped(spec)
    n = spec["bins"]
    multi = isinstance(spec["max"], list)
    if multi:
        ids = [i for i, _ in spec["max"]]
        maxarg = pd.Series([m for _, m in spec["max"]], index=pd.Index(ids, name="node_id"), dtype=float)
    else:
        ids = [None]
        maxarg = spec["max"]
    binned = _call_quiet(Binned, law, maxarg, n)
    maxes = [m for _, m in spec["max"]] if multi else [spec["max"]]
    edge = {False: [edges(m, n, False) for m in maxes], True: [edges(m, n, True) for m in maxes]}
    expected = {}
    if spec["law"] == "spy":
        for fn in FUNCS:
            sec = "secondary" in fn
            expected[fn] = {i: [spy_ref(fn, e) for e in edge[sec][j]] for j, i in enumerate(ids)}
        problems = _spy_call_problems(law, edge, multi)
    else:
        ref_law = make_wrapped(spec)
        for sec, sfn, efn in ((False, "stress", "strain"), (True, "stress_secondary_branch", "strain_secondary_branch")):
            # class-major, point-minor: the order of Binned's own vector
            vec = [edge[sec][j][k] for k in range(len(edge[sec][0])) for j in range(len(ids))]
            ser = pd.Series(np.array(vec, dtype=float))
            s = np.asarray(_call_quiet(getattr(ref_law, sfn), ser), dtype=float)
            e = np.asarray(_call_quiet(getattr(ref_law, efn), pd.Series(s), ser), dtype=float)
            expected[sfn] = {i: [float(x) for x in s[j::len(ids)]] for j, i in enumerate(ids)}
            expected[efn] = {i: [float(x) for x in e[j::len(ids)]] for j, i in enumerate(ids)}
        problems = []
    out = (binned, law, edge, expected, problems)
    if len(_CACHE) > 80:
        _CACHE.clear()
    _CACHE[key] = out
    return out


def _spy_call_problems(law, edge, multi):
    """The table must be built on exactly the edges (k/n)*max - primary n classes, secondary 2n."""
    problems = []
    seen = {}
    for fn, arr in law.calls:
        seen.setdefault(fn, []).append(arr)
    for fn in FUNCS:
        sec = "secondary" in fn
        want = [edge[sec][j][k] for k in range(len(edge[sec][0])) for j in range(len(edge[sec]))]
        got = seen.get(fn, [])
        if len(got) != 1:
            problems.append("wrapped %s called %d times while building the table" % (fn, len(got)))
        elif list(got[0].ravel()) != want:
            problems.append("table of %s is built on loads %r..., expected the class edges %r..." % (fn, list(got[0].ravel())[:4], want[:4]))
    return problems


def expected_class(edge_list, a):
    """1-based class: smallest k with edge_k >= a; None if a is above the last edge."""
    k = bisect.bisect_left(edge_list, a)
    return None if k >= len(edge_list) else k + 1


def sign(x):
    return (x > 0) - (x < 0)


def lookup(binned, fn, arg):
    f = getattr(binned, fn)
    with warnings.catch_warnings(), np.errstate(all="ignore"):
        warnings.simplefilter("ignore")
        if fn in ("stress", "stress_secondary_branch"):
            return f(arg)
        return f(None, arg)          # the stress argument of the strain look-ups is not used by Binned


def as_list(out):
    return [float(x) for x in np.atleast_1d(np.asarray(out, dtype=float)).ravel()]


def _same(a, b):
    return a == b or (a != a and b != b)


def check_lookup(spec, binned, edge, expected, fn, loads, kind, ctx, node_ids=(None,)):
    """One call of a Binned look-up with scalar / Series input against the expectation.  loads: list of floats
    (scalar kinds: one element; per-point table: one load per point)."""
    sec = "secondary" in fn
    multi = node_ids != (None,)
    if multi:
        # class of the first point (documented design); a point whose maximum load is 0 has a degenerate all-zero table and
        # cannot define the class of proportional loads: the first point with a positive maximum does (finding class F07_a)
        ref = next((j for j, el in enumerate(edge[sec]) if el[-1] > 0), 0)
        k = expected_class(edge[sec][ref], abs(loads[ref]))
        in_range = k is not None
        want = None if not in_range else [sign(L) * expected[fn][i][k - 1] + 0.0 for L, i in zip(loads, node_ids)]
    else:
        ks = [expected_class(edge[sec][0], abs(L)) for L in loads]
        in_range = all(k is not None for k in ks)
        want = None if not in_range else [sign(L) * expected[fn][None][k - 1] + 0.0 for L, k in zip(loads, ks)]
    if kind == "pyfloat":
        arg = float(loads[0])
    elif kind == "npfloat":
        arg = np.float64(loads[0])
    elif multi:
        arg = pd.Series(np.array(loads, dtype=float), index=pd.Index(list(node_ids), name="node_id"))
    else:
        arg = pd.Series(np.array(loads, dtype=float))
    desc = "%s Binned(max=%r, bins=%d).%s(%s %r)" % (spec["law"], spec["max"], spec["bins"], fn, kind, loads if len(loads) > 1 else loads[0])
    try:
        out = lookup(binned, fn, arg)
    except ValueError as e:
        if in_range:
            raise Violation("%s raises ValueError inside the initialised range: %s" % (desc, str(e)[:120]), bucket="lookup:raises_in_range:%s" % fn)
        ctx.tolerate("ValueError above the initialised maximum (required)")
        return None
    if not in_range:
        raise Violation("%s returned %r although the load exceeds the initialised maximum" % (desc, as_list(out)), bucket="lookup:no_error_out_of_range:%s" % fn)
    got = as_list(out)
    if len(got) != len(want):
        raise Violation("%s returned %d values for %d loads" % (desc, len(got), len(want)), bucket="lookup:length:%s" % fn)
    for L, g, w in zip(loads, got, want):
        if not _same(g + 0.0, w):
            raise Violation("%s = %r, expected sign(L)*wrapped(upper class edge) = %r (load %r)" % (desc, got, want, L),
                            bucket="lookup:value:%s:%s" % (fn, "multi" if multi else "single"))
    return got


# ------------------------------------------------------------------------------------------------
# sub-check 1: exhaustive over all class edges +- 1 ulp for small tables (spy law)

ENUM_MAX = [1.0, 0.1, 1e-2, 0.3, 7.0 / 3.0, 3.3, 359.24, 1013.0, 123.456, 1e4, 4799.999999999999]
ENUM_BINS = [1, 2, 3, 7]
ENUM_BINS_LARGE = [50, 100, 200]


def _enum_cases(tier):
    for m in ENUM_MAX:
        for n in ENUM_BINS:
            yield {"law": "spy", "max": m, "bins": n}
    for m in (ENUM_MAX[:6] if tier == "quick" else ENUM_MAX):
        for n in ENUM_BINS_LARGE:
            yield {"law": "spy", "max": m, "bins": n}


def _edge_neighbourhood(edge_list, top):
    vals = [0.0, 5e-324, 1e-300, top, math.nextafter(top, math.inf), math.nextafter(top, 0.0), 1.5 * top, 1e6 * top]
    for i, e in enumerate(edge_list):
        vals += [e, math.nextafter(e, 0.0), math.nextafter(e, math.inf)]
        vals.append(0.5 * (e + (edge_list[i - 1] if i > 0 else 0.0)))
    out = []
    for v in vals:
        out += [v, -v]
    return out


@subcheck(PROP, "edges_exhaustive", enumerate_=_enum_cases,
          doc="spy law, bins in {1,2,3,7,50,100,200}: every class edge, one ulp below/above, mid-class, 0, denormal, max, nextafter(max), "
              "1.5 max, both signs, all four look-ups, scalar and Series input; exact comparison; table built on exactly (k/n)*max")
def edges_exhaustive(spec, ctx):
    binned, law, edge, expected, problems = build(spec)
    ctx.label("bins:%d" % spec["bins"])
    if problems:
        raise Violation("Binned(max=%r, bins=%d): %s" % (spec["max"], spec["bins"], problems[0]), bucket="table:edges")
    ncalls = len(law.calls)
    for fn in FUNCS:
        sec = "secondary" in fn
        el = edge[sec][0]
        top = (2.0 if sec else 1.0) * spec["max"]
        if el[-1] != top:
            raise Violation("last class edge %r differs from %s max = %r" % (el[-1], "2" if sec else "", top), bucket="table:top_edge")
        loads = _edge_neighbourhood(el, top)
        for L in loads:
            check_lookup(spec, binned, edge, expected, fn, [L], "pyfloat", ctx)
        # the same loads through the Series path (single table): in-range ones in one call, out-of-range ones one by one
        inside = [L for L in loads if abs(L) <= top]
        outside = [L for L in loads if abs(L) > top]
        got = check_lookup(spec, binned, edge, expected, fn, inside, "series", ctx)
        for L in outside[:6]:
            check_lookup(spec, binned, edge, expected, fn, [inside[3], L], "series", ctx)
        # consequences, exact for the spy: monotone in the load, never below the exact law, less than one class above it
        order = sorted(range(len(inside)), key=lambda i: inside[i])
        seq = [got[i] for i in order]
        if any(b < a - SPY_ULPS * abs(a) for a, b in zip(seq[:-1], seq[1:])):
            raise Violation("binned %s is not monotone over the loads %r" % (fn, [inside[i] for i in order][:8]), bucket="consequence:monotone:%s" % fn)
        for L, g in zip(inside, got):
            ex = spy_ref(fn, abs(L))
            k = expected_class(el, abs(L))
            lower = expected[fn][None][k - 2] if k >= 2 else 0.0
            if L != 0 and (abs(g) < ex * (1 - SPY_ULPS) or abs(g) - ex > expected[fn][None][k - 1] - lower + SPY_ULPS * abs(g)):
                raise Violation("binned %s(%r) = %r vs exact %r: under-estimates or is a class or more away" % (fn, L, g, ex), bucket="consequence:one_class:%s" % fn)
    if len(law.calls) != ncalls:
        ctx.label("lookup_calls_wrapped_law")
    ctx.nontrivial()


# ------------------------------------------------------------------------------------------------
# sub-check 2: random look-ups, three wrapped laws, scalar and Series input

@st.composite
def _spec(draw, multi=False):
    law = draw(st.sampled_from(["spy", "spy", "EN", "SB"]))
    spec = {"law": law}
    if law == "spy":
        spec["bins"] = draw(st.sampled_from([1, 2, 3, 7, 50, 100, 200] if not multi else [1, 2, 3, 7, 50]))
        mx = st.one_of(st.floats(1e-2, 1e4), st.sampled_from(ENUM_MAX), st.floats(math.log(1e-2), math.log(1e4)).map(math.exp))
    else:
        spec.update(draw(st.sampled_from(REAL_POOL)))
        spec["K_p"] = draw(st.sampled_from(REAL_KP))
        free = draw(st.integers(0, 9)) == 0
        spec["bins"] = draw(st.sampled_from([1, 2, 3, 7] if free or multi else [1, 3, 7, 100]))
        if free:
            mx = st.floats(0.05, 4.0).map(lambda f, rm=spec["Rm"]: f * rm)
        else:
            mx = st.sampled_from(REAL_MAXF).map(lambda f, rm=spec["Rm"]: f * rm)
    if not multi:
        spec["max"] = draw(mx)
    else:
        k = draw(st.integers(1, 4))
        ids = draw(st.lists(st.integers(0, 50), min_size=k, max_size=k, unique=True))
        if law == "spy" or draw(st.booleans()):
            spec["max"] = [[i, draw(mx)] for i in ids]
        else:
            base = draw(mx)
            spec["max"] = [[i, base * f] for i, f in zip(ids, [1.0, 1.2, 0.37, 2.0])]
    return spec


@st.composite
def _load_factor(draw, n, sec):
    """load / max for one look-up: generic, on an edge, one ulp beside it (flag), zero, above the range."""
    top = 2.0 if sec else 1.0
    kind = draw(st.sampled_from(["generic", "generic", "edge", "edge_ulp", "zero", "above", "top"]))
    if kind == "generic":
        f = draw(st.floats(0.0, top, exclude_min=True))
    elif kind in ("edge", "edge_ulp"):
        f = draw(st.integers(1, int(top) * n)) / n
    elif kind == "zero":
        f = 0.0
    elif kind == "top":
        f = top
    else:
        f = draw(st.sampled_from([math.nextafter(top, math.inf), top * 1.000001, top * 1.5, top * 10.0]))
    ulp = draw(st.sampled_from([-1, 1])) if kind == "edge_ulp" else 0
    sgn = draw(st.sampled_from([1.0, 1.0, -1.0]))
    return {"f": f, "ulp": ulp, "sign": sgn, "kind": kind}


def _materialise(lf, maxload, n):
    """load for a point with maximum load maxload: factor*max, computed like an edge if the factor is k/n."""
    f = lf["f"]
    k = round(f * n)
    v = (k / n) * maxload if lf["kind"] in ("edge", "edge_ulp") and k / n == f else f * maxload
    if lf["ulp"]:
        v = math.nextafter(v, math.inf if lf["ulp"] > 0 else 0.0)
    return lf["sign"] * v


@st.composite
def _lookup_cases(draw, tier):
    spec = draw(_spec())
    fn = draw(st.sampled_from(FUNCS))
    kind = draw(st.sampled_from(["pyfloat", "npfloat", "series", "series"]))
    m = 1 if kind != "series" else draw(st.integers(1, 12))
    lfs = [draw(_load_factor(spec["bins"], "secondary" in fn)) for _ in range(m)]
    if kind == "series" and m > 1 and draw(st.integers(0, 3)) > 0:
        # keep most Series inside the range (one outlier makes the whole call raise)
        lfs = [lf if lf["kind"] != "above" else dict(lf, f=0.5, kind="generic") for lf in lfs]
    return {"spec": spec, "fn": fn, "kind": kind, "loads": [_materialise(lf, spec["max"], spec["bins"]) for lf in lfs],
            "classes": sorted(set(lf["kind"] for lf in lfs))}


def law_reference_usable(spec, load, sec):
    """The wrapped real law may serve as 'exact law' for the consequence checks only where C06 asserts it: inside C06's load
    domain (|L| >= 1e-3 R_m; below about 1e-3 MPa Seeger-Beste returns garbage) and outside C06's listed finding classes."""
    a = abs(load)
    if a < 1e-3 * spec["Rm"] * (2.0 if sec else 1.0):
        return False
    if spec["law"] == "SB":
        m = {"E": spec["E"], "K": spec["K"], "n": spec["n"]}
        root = _c06.ref_stress("SB", a, m, spec["K_p"], sec)
        fname = "stress_secondary_branch" if sec else "stress"
        if _c06.f06b_mirror_root("SB", fname, a, root, spec["K_p"], DEFAULT_TOL, DEFAULT_TOL, m, sec):
            return False
    return True


def _exact_real(spec, fn, absloads):
    """the wrapped real law's own value at the loads (vectorised call, zero excluded: see C06 F06_d)."""
    law = make_wrapped(spec)
    sfn = "stress_secondary_branch" if "secondary" in fn else "stress"
    vals = [a for a in absloads if a > 0]
    if not vals:
        return {}
    pad = vals + [vals[-1]] if len(vals) == 1 else vals
    s = np.asarray(_call_quiet(getattr(law, sfn), np.array(pad, dtype=float)), dtype=float)[:len(vals)]
    if fn.startswith("strain"):
        s = np.asarray(_call_quiet(getattr(law, fn), pd.Series(s), pd.Series(vals)), dtype=float)
    return dict(zip(vals, [float(x) for x in s]))


def _bound(x):
    return DEFAULT_TOL + DEFAULT_TOL * abs(x)


@subcheck(PROP, "lookup", strategy=_lookup_cases, quick=2400, thorough=120000,
          doc="random tables (spy / ExtendedNeuber / SeegerBeste; bins 1..200) and loads (generic, on an edge, one ulp beside, zero, max, "
              "above the range; both signs) as python float, np.float64, Series: class, value, sign exact; ValueError iff out of range; "
              "consequences (no under-estimation, monotone, within one class)")
def lookup_sc(case, ctx):
    spec, fn, kind, loads = case["spec"], case["fn"], case["kind"], case["loads"]
    ctx.label("law:" + spec["law"], "fn:" + fn, "kind:" + kind, "bins:%d" % spec["bins"])
    for c in case["classes"]:
        ctx.label("load:" + c)
    if _gate(ctx, f06c_single_class(spec), "F06_c"):
        return
    binned, law, edge, expected, problems = build(spec)
    if problems:
        raise Violation("Binned(max=%r, bins=%d): %s" % (spec["max"], spec["bins"], problems[0]), bucket="table:edges")
    sec = "secondary" in fn
    got = check_lookup(spec, binned, edge, expected, fn, loads, kind, ctx)
    ctx.nontrivial(any(c != "generic" for c in case["classes"]) or any(L < 0 for L in loads))
    if got is None:
        return
    # consequences
    el = edge[sec][0]
    table = expected[fn][None]
    if any(b < a - SPY_ULPS * abs(a) for a, b in zip(table[:-1], table[1:])):
        raise Violation("%s table of %s is not monotone: %r" % (spec["law"], fn, table[:6]), bucket="consequence:table_monotone:%s" % spec["law"])
    order = sorted(range(len(loads)), key=lambda i: loads[i])
    seq = [got[i] for i in order]
    if any(b < a - SPY_ULPS * abs(a) for a, b in zip(seq[:-1], seq[1:])):
        raise Violation("binned %s not monotone over %r: %r" % (fn, sorted(loads), seq), bucket="consequence:monotone:%s" % fn)
    if spec["law"] == "spy":
        exact = {abs(L): spy_ref(fn, abs(L)) for L in loads}
        slack = lambda v: SPY_ULPS * abs(v)
    else:
        usable = [abs(L) for L in loads if L != 0 and law_reference_usable(spec, L, sec)]
        if len(usable) < len([L for L in loads if L != 0]):
            ctx.label("law_reference_outside_c06_domain")
        exact = _exact_real(spec, fn, usable)
        slack = _bound if not fn.startswith("strain") else (lambda v: 0.0)
    for L, g in zip(loads, got):
        if L == 0:
            if g != 0:
                raise Violation("binned %s(0) = %r" % (fn, g), bucket="lookup:zero")
            continue
        if abs(L) not in exact:
            continue
        ex = exact[abs(L)]
        k = expected_class(el, abs(L))
        lower = table[k - 2] if k >= 2 else 0.0
        if fn.startswith("strain") and spec["law"] != "spy":
            # strain of a real law: closed form of a stress that carries the solver tolerance - compare through the stress bound
            continue
        if spec["law"] == "SB" and _gate(ctx, f06a_noisy_value(spec, L, sec) or f06a_noisy_value(spec, el[k - 1], sec), "F06_a"):
            continue
        if abs(g) < ex - (slack(ex) + slack(g)):
            raise Violation("%s binned %s(%r) = %r under-estimates the wrapped law's %r" % (spec["law"], fn, L, g, ex), bucket="consequence:underestimates:%s" % spec["law"])
        if abs(g) - ex > (table[k - 1] - lower) + slack(ex) + slack(g):
            raise Violation("%s binned %s(%r) = %r is more than one class above the wrapped law's %r" % (spec["law"], fn, L, g, ex),
                            bucket="consequence:one_class:%s" % spec["law"])


# ------------------------------------------------------------------------------------------------
# sub-check 3: per-point tables

@st.composite
def _multi_cases(draw, tier):
    spec = draw(_spec(multi=True))
    fn = draw(st.sampled_from(FUNCS))
    lfs = [draw(_load_factor(spec["bins"], "secondary" in fn)) for _ in range(draw(st.integers(1, 6)))]
    k = len(spec["max"])
    if k > 1 and draw(st.integers(0, 11)) == 0:
        # an unloaded point (maximum load 0) in first position: finding class F07_a
        spec["max"][0][1] = 0.0
    for lf in lfs:
        # per-point signs (mixed) and a zero load next to loaded points - never at the first point, whose load selects the class
        lf["signs"] = draw(st.lists(st.sampled_from([1.0, -1.0]), min_size=k, max_size=k)) if draw(st.booleans()) else None
        lf["zero_at"] = draw(st.integers(1, k - 1)) if k > 1 and draw(st.integers(0, 3)) == 2 else None
    return {"spec": spec, "fn": fn, "factors": lfs}


@subcheck(PROP, "per_point", strategy=_multi_cases, quick=800, thorough=40000,
          doc="maximum load given per point (Series indexed by node_id): the table of every point equals the table the point gets alone "
              "(spy: exactly; real laws: within the solver bound), look-ups with proportional loads return every point's own edge value")
def per_point(case, ctx):
    spec, fn = case["spec"], case["fn"]
    n = spec["bins"]
    ids = tuple(i for i, _ in spec["max"])
    ctx.label("law:" + spec["law"], "fn:" + fn, "points:%d" % len(ids), "bins:%d" % n)
    if _gate(ctx, f06c_single_class(spec), "F06_c") or _gate(ctx, f07a_first_point_zero_max(spec), "F07_a"):
        return
    binned, law, edge, expected, problems = build(spec)
    if problems:
        raise Violation("per-point Binned(max=%r, bins=%d): %s" % (spec["max"], n, problems[0]), bucket="table:edges_multi")
    sec = "secondary" in fn
    # (a) tables alone == rows of the per-point table
    gated = False
    for j, (i, m) in enumerate(spec["max"]):
        alone = dict(spec, max=m)
        if _gate(ctx, f06c_single_class(alone), "F06_c"):
            gated = True
            continue
        _, _, _, exp1, _ = build(alone)
        a, b = exp1[fn][None], expected[fn][i]
        for k, (x, y) in enumerate(zip(a, b)):
            tol = 0.0 if spec["law"] == "spy" else (_bound(x) + _bound(y) if not fn.startswith("strain") else None)
            if tol is None:
                continue
            if spec["law"] == "SB" and not abs(x - y) <= tol and _gate(ctx, f06a_noisy_value(spec, edge[sec][j][k], sec), "F06_a"):
                gated = True
                continue
            if not abs(x - y) <= tol:
                raise Violation("%s %s table of point %r (max %r) alone has %r in class %d, inside the per-point table %r" % (spec["law"], fn, i, m, x, k + 1, y),
                                bucket="per_point:table:%s" % spec["law"])
    # (b) look-ups, proportional loads
    nt = False
    for lf in case["factors"]:
        loads = [_materialise(lf, m, n) for _, m in spec["max"]]
        if lf.get("signs"):
            loads = [abs(L) * sg for L, sg in zip(loads, lf["signs"])]
            if len(set(lf["signs"])) > 1:
                ctx.label("mixed_signs")
        if lf.get("zero_at") is not None:
            loads[lf["zero_at"]] = 0.0
            ctx.label("zero_next_to_loaded_points")
        ctx.label("load:" + lf["kind"])
        if lf["ulp"]:
            ks = set(expected_class(edge[sec][j], abs(L)) for j, L in enumerate(loads))
            if len(ks) > 1:
                ctx.label("points_disagree_by_rounding")
                ctx.tolerate("one ulp beside an edge: points fall into different classes (class of the first point is used by design)")
                continue
        check_lookup(spec, binned, edge, expected, fn, loads, "series", ctx, node_ids=ids)
        nt = True
    ctx.nontrivial(nt and not gated)


# ------------------------------------------------------------------------------------------------
# sub-check 4: call history on ONE law object - tables follow the law's current parameters

HIST_KP = [1.2, 2.0, 3.5, 10.0]
HIST_KFACTOR = [0.7, 1.0, 1.3]
HIST_BINS = [1, 3, 7, 20]


@st.composite
def _history_cases(draw, tier):
    law = draw(st.sampled_from(["EN", "SB"]))
    mat = dict(draw(st.sampled_from(REAL_POOL)))
    kp0 = draw(st.sampled_from(HIST_KP))
    ncfg = draw(st.integers(1, 2))
    cfgs = [[draw(st.sampled_from(REAL_MAXF + [1.0])) * mat["Rm"], draw(st.sampled_from(HIST_BINS))] for _ in range(ncfg)]
    steps = [["build", 0]]
    for _ in range(draw(st.integers(2, 6))):
        kind = draw(st.sampled_from(["build", "build", "K_p", "K_p", "K_prime", "K"]))
        if kind == "build":
            steps.append(["build", draw(st.integers(0, ncfg - 1))])
        elif kind == "K_p":
            steps.append(["K_p", draw(st.sampled_from(HIST_KP))])
        else:
            steps.append([kind, mat["K"] * draw(st.sampled_from(HIST_KFACTOR))])
    if steps[-1][0] != "build":
        steps.append(["build", draw(st.integers(0, ncfg - 1))])
    return {"law": law, "mat": mat, "K_p": kp0, "configs": cfgs, "steps": steps}


def _all_edge_loads(edge_list):
    out = []
    for i, e in enumerate(edge_list):
        lo = edge_list[i - 1] if i else 0.0
        out += [e, -0.5 * (lo + e)]
    return out


@subcheck(PROP, "setter_history", strategy=_history_cases, quick=400, thorough=15000,
          doc="ONE law object: Binned(law, max, n), then K_p / K_prime / K changed through the public setters, then Binned(law, ...) again with the "
              "same and with other (max, n): every new wrapper equals the table of a FRESH law with the current parameters (exact: same "
              "deterministic computation), and every earlier wrapper keeps answering with its own tables")
def setter_history(case, ctx):
    from pylife.materiallaws.notch_approximation_law import Binned
    mat = case["mat"]
    ctx.label("law:" + case["law"])
    current = {"law": case["law"], "E": mat["E"], "K": mat["K"], "n": mat["n"], "K_p": case["K_p"], "mat": mat["mat"], "Rm": mat["Rm"]}
    law = make_wrapped(current)
    built = []            # (binned, spec at build time, answers at build time)
    seen = {}             # (max, bins) -> parameters at the last build
    changed_since = False
    nt = False

    def answers(binned, spec, edge, expected):
        out = {}
        for fn in FUNCS:
            sec = "secondary" in fn
            out[fn] = check_lookup(spec, binned, edge, expected, fn, _all_edge_loads(edge[sec][0]), "series", ctx)
        return out

    try:
        for step in case["steps"]:
            if step[0] == "build":
                mx, n = case["configs"][step[1]]
                spec = dict(current, max=mx, bins=n)
                binned = _call_quiet(Binned, law, mx, n)
                _, _, edge, expected, _ = build(spec)          # fresh law with the current parameters (harness side)
                key = (mx, n)
                params = (current["K"], current["K_p"])
                if key in seen and seen[key] != params:
                    ctx.label("rebuild_same_config_after_setter")
                    nt = True
                elif key in seen:
                    ctx.label("rebuild_same_config_unchanged")
                elif changed_since:
                    ctx.label("build_other_config_after_setter")
                seen[key] = params
                built.append((binned, spec, edge, expected, answers(binned, spec, edge, expected)))
            else:
                setattr(law, step[0], step[1])                 # public setters: K_p, K_prime, K
                ctx.label("set:" + step[0])
                current["K_p" if step[0] == "K_p" else "K"] = step[1]
                changed_since = True
                got = law.K_p if step[0] == "K_p" else law.K
                if got != step[1]:
                    raise Violation("%s: after law.%s = %r the getter returns %r" % (case["law"], step[0], step[1], got), bucket="history:setter")
        # earlier wrappers keep their own tables
        for binned, spec, edge, expected, before in built:
            now = answers(binned, spec, edge, expected)
            if now != before:
                raise Violation("%s Binned(max=%r, bins=%d) built with K'=%r K_p=%r answers differently after later setter calls / builds"
                                % (case["law"], spec["max"], spec["bins"], spec["K"], spec["K_p"]), bucket="history:old_wrapper_changed")
    except RuntimeError as e:
        if "converge" not in str(e):
            raise
        ctx.tolerate("RuntimeError: solver failed to converge while building a table")
        return
    ctx.nontrivial(nt)
