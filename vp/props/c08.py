"""C08 - Woehler curve: cycles/load are inverses with the stated scatter semantics.

Oracles (all written here, none of them calls pyLife):

* closed form of the piecewise Basquin law with the probit shift, ``_Ref`` below (math.pow / scipy.special.ndtri);
* round trips, monotonicity, two-point slopes, quantile ratios, the group law of the probability shift;
* element-wise scalar evaluation for the broadcast clause.

Floating point: every identity is a product of a handful of ``pow``/``log10`` calls with exponents <= 60, i.e. it is
conditioned like k*eps ~ 1e-14; comparisons use rtol 1e-9 (DESIGN 3/C08) unless a tighter bound is derived at the place
of use.  Order relations are asserted with a relative slack of 1e-12 (one rounding error cannot invert them by more).
"""

import math

import numpy as np
import pandas as pd
from hypothesis import strategies as st
from scipy.special import ndtri

from ..core import Violation, subcheck, nontrivial_rule, assumptions

import pylife.materiallaws.woehlercurve  # noqa: F401  (registers .woehler)
import pylife.strength.fatigue  # noqa: F401           (registers .fatigue, a WoehlerCurve subclass)
from pylife.utils import functions as pf

PROP = "C08"
RTOL = 1e-9
ORD = 1e-12

nontrivial_rule(PROP, "Non-trivial: some load lies within 1 % of the (transformed) endurance limit SD or some cycle number within "
                      "1 % of ND, or a native/target failure probability differs from 0.5, or the input is non-scalar "
                      "(array, Series, DataFrame of curves).")
assumptions(PROP, [
    "domain: k_1 in (1,30], k_2 in {absent, inf, k_1, 2k_1-1, k_1*[1,3]}, SD in [1,1e4], ND in [1e3,1e8], TN/TS absent, 1 or "
    "in [1,30] (one given, or both given independently), failure probabilities in [1e-6, 1-1e-6], loads in [0.2,5] SD, "
    "cycles in [1e-2,1e3] ND - every intermediate stays far inside the double range",
    "scipy.special.ndtri (probit) is trusted and shared by oracle and code under test",
    "the exact knee load/cycle number is taken from transform_to_failure_probability(p).SD/.ND (public API) so that it is hit "
    "bit-exactly; which side of the knee a generated load lies on is decided against that value, all numbers of the oracle "
    "come from the harness' own closed form",
    "for k_2 = inf and N > ND the life is not finite on the curve: load(N) = SD is asserted, cycles(load(N)) = N is not",
    "vectorised vs scalar evaluation may differ in the last bits (numpy pow): broadcast clause uses rtol 1e-12",
    "integer-typed numbers (python int, np.int64, int64 arrays / Series) are whole-number loads and cycle numbers >= 1; they must give "
    "the numbers of the float evaluation",
    "target failure probability given as a pandas Series is outside the domain (the API documents a float; an ndarray is tested)",
])

Z90 = float(ndtri(0.9))


# --------------------------------------------------------------------------- reference
def _std(T):
    return math.log10(T) / (2.0 * Z90)


class _Ref:
    """Closed form of the curve described by the property statement."""

    def __init__(self, c):
        self.k1 = float(c["k_1"])
        k2 = c.get("k_2")
        self.k2 = math.inf if k2 in (None, "inf", "absent") else float(k2)
        self.SD, self.ND = float(c["SD"]), float(c["ND"])
        TN, TS = c.get("TN"), c.get("TS")
        if TN is None and TS is None:
            TN = TS = 1.0
        elif TS is None:
            TS = TN ** (1.0 / self.k1)
        elif TN is None:
            TN = TS ** self.k1
        self.TN, self.TS = float(TN), float(TS)
        self.p0 = 0.5 if c.get("p0") is None else float(c["p0"])

    def knee(self, p):
        dz = 0.0 if p == self.p0 else float(ndtri(p)) - float(ndtri(self.p0))
        SDp = self.SD * 10.0 ** (dz * _std(self.TS))
        NDp = self.ND * 10.0 ** (dz * _std(self.TN)) * (SDp / self.SD) ** (-self.k1)
        return SDp, NDp

    @staticmethod
    def _pow(x, e):
        # math.pow raises where numpy returns inf / 0 (far below the knee with a steep k_2): same IEEE result here
        try:
            return x ** e
        except OverflowError:
            return math.inf
        except ZeroDivisionError:
            return math.inf

    def cycles(self, S, p, above):
        SDp, NDp = self.knee(p)
        if above:
            return NDp * self._pow(S / SDp, -self.k1)
        if math.isinf(self.k2):
            return math.inf
        return NDp * self._pow(S / SDp, -self.k2)

    def load(self, N, p, beyond):
        SDp, NDp = self.knee(p)
        if not beyond:
            return SDp * self._pow(N / NDp, -1.0 / self.k1)
        if math.isinf(self.k2):
            return SDp
        return SDp * self._pow(N / NDp, -1.0 / self.k2)


def _as_int(x):
    return int(x) if isinstance(x, float) and math.isfinite(x) and x == int(x) else x


def _pd_curve(c, integer=False):
    """the curve as a pandas Series; with c["ints"] whole-number parameters are python ints (an all-int curve is an int64 Series)"""
    ints = bool(c.get("ints"))
    conv = _as_int if ints else (lambda x: x)
    d = {"k_1": conv(c["k_1"]), "SD": conv(c["SD"]), "ND": conv(c["ND"])}
    k2 = c.get("k_2")
    if k2 == "inf":
        d["k_2"] = np.inf
    elif k2 not in (None, "absent"):
        d["k_2"] = conv(k2)
    for key in ("TN", "TS"):
        if c.get(key) is not None:
            d[key] = c[key]
    if c.get("p0") is not None:
        d["failure_probability"] = c["p0"]
    return pd.Series(d)


def _acc(obj, which):
    return obj.fatigue if which == "fatigue" else obj.woehler


def _close(a, b, rtol=RTOL):
    if math.isinf(a) or math.isinf(b):
        return a == b
    return abs(a - b) <= rtol * max(abs(a), abs(b))


def _f(x):
    """pyLife returns 0-d arrays for scalar input."""
    a = np.asarray(x, dtype=float)
    if a.shape != ():
        raise Violation("scalar input gave a result of shape %r" % (a.shape,), bucket="scalar-shape")
    return float(a)


# --------------------------------------------------------------------------- strategies
def _pow10(lo, hi):
    return st.floats(lo, hi, allow_nan=False).map(lambda e: float(10.0 ** e))


PROBS = st.one_of(st.sampled_from([0.5, 0.1, 0.9, 0.025, 0.975, 1e-6, 1 - 1e-6, 0.01, 0.99]),
                  st.floats(1e-6, 1 - 1e-6, allow_nan=False),
                  st.floats(-6, -0.31).map(lambda e: float(10.0 ** e)),
                  st.floats(-6, -0.31).map(lambda e: float(1.0 - 10.0 ** e)))


@st.composite
def curves(draw, scatter=None, ints=False):
    """ints: k_1, SD, ND (and k_2 = k_1 / 2k_1-1) are whole numbers, handed to pyLife as integers; a 'float' k_2 stays non-integer"""
    if ints:
        k1 = float(draw(st.integers(2, 30)))
    else:
        k1 = draw(st.one_of(st.sampled_from([1.5, 2.0, 3.0, 5.0, 7.0, 10.0, 30.0]), st.floats(1.01, 30.0, allow_nan=False)))
    kind = draw(st.sampled_from(["inf", "absent", "k_1", "haibach", "float"] + (["float"] if ints else [])))
    k2 = {"inf": "inf", "absent": None, "k_1": k1, "haibach": 2.0 * k1 - 1.0}.get(kind, None)
    if kind == "float":
        k2 = k1 + draw(st.sampled_from([0.5, 1.5, 0.25, 3.5])) if ints else k1 * draw(st.floats(1.0, 3.0, allow_nan=False))
    SD = draw(st.one_of(st.sampled_from([1.0, 100.0, 250.0, 1e4]), _pow10(0, 4)))
    ND = draw(st.one_of(st.sampled_from([1e3, 1e6, 2e6, 1e8]), _pow10(3, 8)))
    if ints:
        SD, ND = float(max(1, round(SD))), float(max(1, round(ND)))
    sk = scatter or draw(st.sampled_from(["absent", "one", "TN", "TN", "TS", "both"]))
    big = st.one_of(st.sampled_from([1.0, 1.25, 2.0, 4.0, 30.0]), st.floats(1.0, 30.0, allow_nan=False))
    TN = TS = None
    if sk == "one":
        TN = 1.0 if draw(st.booleans()) else None
        TS = 1.0 if TN is None or draw(st.booleans()) else None
    elif sk == "TN":
        TN = draw(big)
    elif sk == "TS":
        TS = draw(st.one_of(st.sampled_from([1.0, 1.1, 1.5]), st.floats(1.0, 30.0, allow_nan=False)))
    elif sk == "both":
        TN, TS = draw(big), draw(big)
    p0 = draw(st.one_of(st.none(), st.just(0.5), PROBS))
    out = {"k_1": k1, "k_2": k2, "SD": SD, "ND": ND, "TN": TN, "TS": TS, "p0": p0}
    if ints:
        out["ints"] = True
    return out


# a load / cycle spec is a factor relative to the knee or one of the exact knee markers
SPEC = st.one_of(st.sampled_from(["knee", "knee-", "knee+"]),
                 st.sampled_from([0.2, 0.5, 0.99, 0.999999, 1.000001, 1.01, 2.0, 5.0]),
                 st.floats(0.2, 5.0, allow_nan=False))
NSPEC = st.one_of(st.sampled_from(["knee", "knee-", "knee+"]),
                  st.sampled_from([0.01, 0.5, 0.99, 1.01, 10.0, 1000.0]),
                  _pow10(-2, 3))


def _resolve(spec, knee):
    """-> value; knee markers are the bit-exact knee and its two neighbours."""
    if spec == "knee":
        return knee
    if spec == "knee-":
        return float(np.nextafter(knee, 0.0))
    if spec == "knee+":
        return float(np.nextafter(knee, np.inf))
    return float(spec) * knee


def _near(spec):
    return isinstance(spec, str) or abs(float(spec) - 1.0) <= 0.01


def _label_curve(c, ctx):
    if c.get("ints"):
        ctx.label("params:int")
    k2 = c.get("k_2")
    ctx.label("k2:" + ("inf" if k2 in (None, "inf") else "k_1" if k2 == c["k_1"] else "haibach" if k2 == 2.0 * c["k_1"] - 1.0 else "float"))
    ctx.label("scatter:" + ("both" if c["TN"] is not None and c["TS"] is not None else "TN" if c["TN"] is not None
                            else "TS" if c["TS"] is not None else "absent"))
    ctx.label("native:" + ("default" if c["p0"] is None else "0.5" if c["p0"] == 0.5 else "other"))


NUM = st.sampled_from(["float", "float", "int", "np.int64"])


def _typed(x, num):
    """the number as the Python/numpy type the case asks for (integer types: x is a whole number)"""
    if not math.isfinite(x):
        return float(x)
    if num != "float" and x > 2.0 ** 53:      # beyond exact whole-number doubles (and soon beyond int64): stays a float
        return float(x)
    if num == "int":
        return int(x)
    if num == "np.int64":
        return np.int64(x)
    return float(x)


def _whole(x):
    return float(max(1, round(x)))


def _kw(p):
    return {} if p is None else {"failure_probability": p}


def _peff(p):
    return 0.5 if p is None else p


# --------------------------------------------------------------------------- 1. inverses
@st.composite
def _inverse_cases(draw, tier):
    return {"curve": draw(curves(ints=draw(st.integers(0, 3)) == 0)), "p": draw(st.one_of(st.none(), PROBS)),
            "same_as_native": draw(st.integers(0, 3)) == 0,
            "load": draw(st.one_of(SPEC, SPEC, SPEC, SPEC, st.just("zero"))), "cycles": draw(st.one_of(NSPEC, NSPEC, NSPEC, NSPEC, st.just("inf"))), "acc": draw(st.sampled_from(["woehler", "fatigue"])), "num": draw(NUM)}


@subcheck(PROP, "inverse", strategy=_inverse_cases, quick=4000, thorough=150000,
          doc="cycles(load(N)) == N and load(cycles(S)) == S wherever the life is finite; both equal the closed form (scalar input)")
def inverse(case, ctx):
    c = case["curve"]
    ref = _Ref(c)
    p = ref.p0 if case["same_as_native"] else case["p"]
    pe = _peff(p)
    _label_curve(c, ctx)
    acc = _acc(_pd_curve(c), case["acc"])
    t = acc.transform_to_failure_probability(pe)
    SDp, NDp = float(t.SD), float(t.ND)
    rSD, rND = ref.knee(pe)
    if not (_close(SDp, rSD) and _close(NDp, rND)):
        raise Violation("knee at P=%r is (SD=%r, ND=%r), closed form (%r, %r)" % (pe, SDp, NDp, rSD, rND), bucket="inverse:knee")
    if pe != 0.5 or ref.p0 != 0.5 or _near(case["load"]) or _near(case["cycles"]):
        ctx.nontrivial()

    # integer-typed scalars (python int, np.int64): whole-number loads and cycle numbers, passed as that type
    num = case.get("num", "float")
    ctx.label("num:" + num)
    # the two ends of the curve: load 0 is endurable for ever; an infinite cycle number is endured by SD (k_2 = inf) or by no load at all
    if case["load"] == "zero":
        n0 = _f(acc.cycles(_typed(0.0, num), **_kw(p)))
        ctx.label("load:zero")
        if n0 != math.inf:
            raise Violation("cycles(0, P=%r) = %r, expected inf" % (pe, n0), bucket="inverse:zero-load")
    if case["cycles"] == "inf":
        l0 = _f(acc.load(math.inf, **_kw(p)))
        ctx.label("cycles:inf")
        want = SDp if math.isinf(ref.k2) else 0.0
        if l0 != want:
            raise Violation("load(inf, P=%r) = %r with k_2 = %r, expected %r" % (pe, l0, ref.k2, want), bucket="inverse:inf-cycles")
    if case["load"] == "zero" or case["cycles"] == "inf":
        case = dict(case, load="knee-" if case["load"] == "zero" else case["load"], cycles="knee+" if case["cycles"] == "inf" else case["cycles"])
    # load -> cycles -> load
    S = _resolve(case["load"], SDp)
    if num != "float":
        S = _whole(S)
    above = S >= SDp
    ctx.label("load:" + ("at_knee" if S == SDp else "above" if above else "below"))
    N = _f(acc.cycles(_typed(S, num), **_kw(p)))
    want = ref.cycles(S, pe, above)
    if not _close(N, want):
        raise Violation("cycles(%r, P=%r) = %r, closed form %r (SD_P=%r, side=%s)" % (S, pe, N, want, SDp, "above" if above else "below"),
                        bucket="inverse:cycles-closed-form" + (":inf" if math.isinf(N) or math.isinf(want) else ""))
    if math.isfinite(N):
        back = _f(acc.load(N, **_kw(p)))
        if not _close(back, S):
            raise Violation("load(cycles(%r)) = %r (cycles %r, P=%r)" % (S, back, N, pe), bucket="inverse:load-of-cycles")
    else:
        ctx.label("infinite_life")

    # cycles -> load -> cycles
    N0 = _resolve(case["cycles"], NDp)
    if num != "float":
        N0 = _whole(N0)
    beyond = N0 > NDp
    ctx.label("cycles:" + ("at_knee" if N0 == NDp else "beyond" if beyond else "before"))
    L = _f(acc.load(_typed(N0, num), **_kw(p)))
    want = ref.load(N0, pe, beyond)
    if not _close(L, want):
        raise Violation("load(%r, P=%r) = %r, closed form %r (ND_P=%r)" % (N0, pe, L, want, NDp), bucket="inverse:load-closed-form")
    if beyond and math.isinf(ref.k2):
        ctx.label("beyond_knee_k2_inf")
        if L != SDp:
            raise Violation("k_2=inf: load(%r > ND_P) = %r, expected the endurance limit %r" % (N0, L, SDp), bucket="inverse:load-inf")
    else:
        back = _f(acc.cycles(L, **_kw(p)))
        if not _close(back, N0):
            raise Violation("cycles(load(%r)) = %r (load %r, P=%r)" % (N0, back, L, pe), bucket="inverse:cycles-of-load")


# --------------------------------------------------------------------------- 2. shape: monotone, knee, slopes
@st.composite
def _shape_cases(draw, tier):
    rel = sorted(set(draw(st.lists(st.floats(0.2, 5.0, allow_nan=False), min_size=2, max_size=6))))
    nrel = sorted(set(draw(st.lists(_pow10(-2, 3), min_size=2, max_size=6))))
    return {"curve": draw(curves()), "p": draw(st.one_of(st.none(), PROBS)), "rel": rel, "nrel": nrel,
            "container": draw(st.sampled_from(["scalar", "array"]))}


@subcheck(PROP, "shape", strategy=_shape_cases, quick=3000, thorough=100000,
          doc="non-increasing in load, continuous at the knee (nextafter neighbours), two-point slope k_1 above / k_2 below SD, "
              "infinite life below SD for k_2=inf; the same for load(N)")
def shape(case, ctx):
    c = case["curve"]
    ref = _Ref(c)
    p, pe = case["p"], _peff(case["p"])
    _label_curve(c, ctx)
    ctx.nontrivial()        # every case evaluates the two neighbours of the knee
    acc = _pd_curve(c).woehler
    t = acc.transform_to_failure_probability(pe)
    SDp, NDp = float(t.SD), float(t.ND)

    loads = sorted(set([r * SDp for r in case["rel"]] + [_resolve(s, SDp) for s in ("knee-", "knee", "knee+")]))
    if case["container"] == "array":
        Ns = [float(x) for x in np.asarray(acc.cycles(np.array(loads), **_kw(p)))]
    else:
        Ns = [_f(acc.cycles(S, **_kw(p))) for S in loads]
    if len(Ns) != len(loads):
        raise Violation("cycles() of %d loads returned %d values" % (len(loads), len(Ns)), bucket="shape:length")
    for (S1, N1), (S2, N2) in zip(zip(loads, Ns), list(zip(loads, Ns))[1:]):
        if math.isnan(N1) or math.isnan(N2):
            raise Violation("cycles is NaN at load %r or %r" % (S1, S2), bucket="shape:nan")
        if N2 > N1 * (1 + ORD):
            raise Violation("cycles increases with load: N(%r)=%r < N(%r)=%r" % (S1, N1, S2, N2), bucket="shape:not-monotone")
        lo, hi = (S1 >= SDp and S2 >= SDp), (S1 < SDp and S2 < SDp)
        if (lo or hi) and S2 / S1 >= 1.05:
            k = ref.k1 if lo else ref.k2
            if math.isinf(k):
                if not (math.isinf(N1) and math.isinf(N2)):
                    raise Violation("k_2=inf but finite life below SD_P=%r: N(%r)=%r N(%r)=%r" % (SDp, S1, N1, S2, N2), bucket="shape:inf-below")
            else:
                slope = math.log(N1 / N2) / math.log(S2 / S1)
                if not _close(slope, k):
                    raise Violation("two-point slope %s SD is %r, expected %r (loads %r,%r)" % ("above" if lo else "below", slope, k, S1, S2),
                                    bucket="shape:slope-" + ("k1" if lo else "k2"))
    at = dict(zip(loads, Ns))
    n_lo, n_at, n_hi = at[_resolve("knee-", SDp)], at[SDp], at[_resolve("knee+", SDp)]
    if not _close(n_at, NDp) or not _close(n_hi, NDp):
        raise Violation("cycles at / just above SD_P = %r / %r, expected ND_P=%r" % (n_at, n_hi, NDp), bucket="shape:knee")
    if math.isinf(ref.k2):
        if not math.isinf(n_lo):
            raise Violation("k_2=inf: cycles just below SD_P is %r" % n_lo, bucket="shape:knee-inf")
    elif not _close(n_lo, NDp):
        raise Violation("not continuous at the knee: cycles just below SD_P = %r, ND_P = %r" % (n_lo, NDp), bucket="shape:knee-left")

    # load(N)
    cyc = sorted(set([r * NDp for r in case["nrel"]] + [_resolve(s, NDp) for s in ("knee-", "knee", "knee+")]))
    if case["container"] == "array":
        Ls = [float(x) for x in np.asarray(acc.load(np.array(cyc), **_kw(p)))]
    else:
        Ls = [_f(acc.load(N, **_kw(p))) for N in cyc]
    for (N1, L1), (N2, L2) in zip(zip(cyc, Ls), list(zip(cyc, Ls))[1:]):
        if not (math.isfinite(L1) and math.isfinite(L2)):
            raise Violation("load(%r)=%r load(%r)=%r not finite" % (N1, L1, N2, L2), bucket="shape:load-nonfinite")
        if L2 > L1 * (1 + ORD):
            raise Violation("load increases with cycles: L(%r)=%r < L(%r)=%r" % (N1, L1, N2, L2), bucket="shape:load-not-monotone")
        lo, hi = (N1 <= NDp and N2 <= NDp), (N1 > NDp and N2 > NDp)
        if (lo or hi) and N2 / N1 >= 1.5:
            k = ref.k1 if lo else ref.k2
            if math.isinf(k):
                if L1 != SDp or L2 != SDp:
                    raise Violation("k_2=inf: load beyond ND_P is %r, %r, expected SD_P=%r" % (L1, L2, SDp), bucket="shape:load-inf")
            else:
                slope = math.log(N2 / N1) / math.log(L1 / L2)
                if not _close(slope, k):
                    raise Violation("two-point slope of load() %s ND is %r, expected %r" % ("before" if lo else "beyond", slope, k),
                                    bucket="shape:load-slope-" + ("k1" if lo else "k2"))
    at = dict(zip(cyc, Ls))
    for s in ("knee-", "knee", "knee+"):
        if not _close(at[_resolve(s, NDp)], SDp):
            raise Violation("load at %s of ND_P is %r, expected SD_P=%r" % (s, at[_resolve(s, NDp)], SDp), bucket="shape:load-knee")


# --------------------------------------------------------------------------- 3. Miner variants
@st.composite
def _miner_cases(draw, tier):
    n = draw(st.sampled_from([0, 0, 1, 2, 3]))     # 0: a Series, else a DataFrame of n curves
    cs = [draw(curves()) for _ in range(max(n, 1))]
    if n:   # a DataFrame needs homogeneous keys: give every curve the optional keys of the first
        for c in cs[1:]:
            for key in ("TN", "TS", "p0"):
                c[key] = None if cs[0][key] is None else (c[key] if c[key] is not None else cs[0][key])
            if cs[0]["k_2"] is None:
                c["k_2"] = None
            elif c["k_2"] is None:
                c["k_2"] = "inf"
    return {"curves": cs, "frame": n > 0, "acc": draw(st.sampled_from(["woehler", "fatigue"])),
            "chain": draw(st.permutations(["original", "elementary", "haibach"])), "rel": draw(st.floats(0.2, 0.99, allow_nan=False))}


def _container(cs, frame):
    if not frame:
        return _pd_curve(cs[0])
    rows = [_pd_curve(c) for c in cs]
    idx = pd.Index(["c%d" % i for i in range(len(cs))], name="curve")
    if not all(c.get("ints") for c in cs):
        return pd.DataFrame(rows, index=idx)
    # column-wise, so that a column of whole numbers is an int64 column next to float columns (e.g. k_1 int64, k_2 float64)
    cols = {}
    for key in rows[0].index:
        vals = [_as_int(float(r[key])) for r in rows]
        # integer-typed: k_1, k_2, SD, ND only (an int64 TS column overflows in TS**k_1 for TS=30, k_1=13 - reported, not part of this check)
        as_int = key in ("k_1", "k_2", "SD", "ND") and all(isinstance(v, int) for v in vals)
        cols[key] = np.array(vals, dtype=np.int64) if as_int else np.array([float(v) for v in vals])
    return pd.DataFrame(cols, index=idx)


def _same(a, b):
    """exact equality of two pandas objects including index, columns and inf/NaN positions"""
    if type(a) is not type(b):
        return False
    try:
        if isinstance(a, pd.Series):
            pd.testing.assert_series_equal(a, b, check_exact=True)
        else:
            pd.testing.assert_frame_equal(a, b, check_exact=True)
    except AssertionError:
        return False
    return True


@subcheck(PROP, "miner_variants", strategy=_miner_cases, quick=2000, thorough=60000,
          doc="miner_original/elementary/haibach change k_2 only (inf / k_1 / 2k_1-1), never the object they are called on; "
              "the modified curve follows the new k_2 below SD")
def miner_variants(case, ctx):
    cs, frame = case["curves"], case["frame"]
    obj = _container(cs, frame)
    ctx.label("frame" if frame else "series")
    if frame or any(c["p0"] not in (None, 0.5) for c in cs):
        ctx.nontrivial()
    snapshot = obj.copy(deep=True)
    acc = _acc(obj, case["acc"])
    before = acc.to_pandas().copy(deep=True)
    k1 = before["k_1"]
    expect = {"original": k1 * 0.0 + np.inf, "elementary": k1 * 1.0, "haibach": 2.0 * k1 - 1.0}
    cur = acc
    for which in case["chain"]:
        prev = cur.to_pandas().copy(deep=True)
        new = getattr(cur, "miner_" + which)()
        if type(new) is not type(cur):
            raise Violation("miner_%s returned %s from %s" % (which, type(new).__name__, type(cur).__name__), bucket="miner:class")
        res = new.to_pandas()
        got = res["k_2"]
        want = expect[which]
        ok = bool(np.all(np.asarray(got, dtype=float) == np.asarray(want, dtype=float)))
        if not ok:
            raise Violation("miner_%s: k_2 = %r, expected %r" % (which, np.asarray(got).tolist(), np.asarray(want).tolist()), bucket="miner:k2:" + which)
        keys = [k for k in (prev.index if not frame else prev.columns) if k != "k_2"]
        for key in keys:
            if not np.array_equal(np.asarray(res[key], dtype=float), np.asarray(prev[key], dtype=float)):
                raise Violation("miner_%s changed %s: %r -> %r" % (which, key, np.asarray(prev[key]).tolist(), np.asarray(res[key]).tolist()),
                                bucket="miner:other-key:" + which)
        if set(keys) | {"k_2"} != set(res.index if not frame else res.columns):
            raise Violation("miner_%s changed the key set" % which, bucket="miner:keys")
        if not _same(cur.to_pandas(), prev):
            raise Violation("miner_%s altered the curve it was called on: %r -> %r" % (which, prev.to_dict(), cur.to_pandas().to_dict()),
                            bucket="miner:mutates-self:" + which)
        if not _same(obj, snapshot):
            raise Violation("miner_%s altered the user's pandas object" % which, bucket="miner:mutates-input:" + which)
        if not _same(_acc(obj, case["acc"]).to_pandas(), before):
            raise Violation("after miner_%s the accessor of the original object reports %r, before %r" %
                            (which, _acc(obj, case["acc"]).to_pandas().to_dict(), before.to_dict()), bucket="miner:mutates-accessor:" + which)
        # behaviour below the knee follows the new k_2 (closed form), scalar curve only
        if not frame:
            c2 = dict(cs[0])
            c2["k_2"] = {"original": "inf", "elementary": c2["k_1"], "haibach": 2.0 * c2["k_1"] - 1.0}[which]
            r2 = _Ref(c2)
            SD5, _ = r2.knee(0.5)
            S = case["rel"] * SD5
            n = _f(new.cycles(S))
            if not _close(n, r2.cycles(S, 0.5, False)):
                raise Violation("miner_%s: cycles(%r) below SD = %r, closed form %r" % (which, S, n, r2.cycles(S, 0.5, False)),
                                bucket="miner:behaviour:" + which)
            S = 1.5 * SD5
            n, n0 = _f(new.cycles(S)), _f(acc.cycles(S))
            if n != n0:
                raise Violation("miner_%s changes the life above SD: %r -> %r" % (which, n0, n), bucket="miner:above:" + which)
        cur = new


# --------------------------------------------------------------------------- 4. order in failure probability
@st.composite
def _prob_cases(draw, tier):
    ps = sorted(set(draw(st.lists(PROBS, min_size=2, max_size=6))))
    if len(ps) < 2:
        ps = [ps[0], ps[0] + (1 - ps[0]) / 2]
    return {"curve": draw(curves()), "ps": ps, "rel": draw(st.lists(st.floats(0.2, 5.0, allow_nan=False), min_size=1, max_size=4)),
            "nrel": draw(st.lists(_pow10(-2, 3), min_size=1, max_size=3)), "p_array": draw(st.booleans())}


@subcheck(PROP, "probability_order", strategy=_prob_cases, quick=3000, thorough=100000,
          doc="allowable cycles (and allowable load) are non-decreasing in the failure probability and equal the closed form")
def probability_order(case, ctx):
    c, ps = case["curve"], case["ps"]
    ref = _Ref(c)
    _label_curve(c, ctx)
    ctx.nontrivial()        # at least one target probability != 0.5
    acc = _pd_curve(c).woehler
    knees = [(float(t.SD), float(t.ND)) for t in (acc.transform_to_failure_probability(p) for p in ps)]
    for r in case["rel"]:
        S = r * ref.SD
        if case["p_array"]:
            Ns = [float(x) for x in np.asarray(acc.cycles(S, np.array(ps)))]
            ctx.label("p_array")
        else:
            Ns = [_f(acc.cycles(S, p)) for p in ps]
        if len(Ns) != len(ps):
            raise Violation("%d probabilities gave %d results" % (len(ps), len(Ns)), bucket="prob:length")
        for i, (p, N) in enumerate(zip(ps, Ns)):
            want = ref.cycles(S, p, S >= knees[i][0])
            if not _close(N, want):
                raise Violation("cycles(%r, P=%r) = %r, closed form %r" % (S, p, N, want), bucket="prob:closed-form")
            if i and N < Ns[i - 1] * (1 - ORD):
                raise Violation("allowable cycles shrink with failure probability: N(P=%r)=%r > N(P=%r)=%r at load %r" %
                                (ps[i - 1], Ns[i - 1], p, N, S), bucket="prob:cycles-order")
        if ref.TN > 1.001 and S >= knees[-1][0] and ps[-1] - ps[0] > 1e-3 and not Ns[-1] > Ns[0]:
            raise Violation("TN=%r but N(P=%r)=%r does not exceed N(P=%r)=%r" % (ref.TN, ps[-1], Ns[-1], ps[0], Ns[0]), bucket="prob:not-growing")
    for r in case["nrel"]:
        N = r * ref.ND
        Ls = [_f(acc.load(N, p)) for p in ps]
        for i, (p, L) in enumerate(zip(ps, Ls)):
            want = ref.load(N, p, N > knees[i][1])
            if not _close(L, want):
                raise Violation("load(%r, P=%r) = %r, closed form %r" % (N, p, L, want), bucket="prob:load-closed-form")
            if i and L < Ls[i - 1] * (1 - ORD):
                raise Violation("allowable load shrinks with failure probability: L(P=%r)=%r > L(P=%r)=%r at N=%r" %
                                (ps[i - 1], Ls[i - 1], p, L, N), bucket="prob:load-order")


# --------------------------------------------------------------------------- 5. TN / TS are the 10-90 quantile ratios
@st.composite
def _quantile_cases(draw, tier):
    return {"curve": draw(curves(scatter=draw(st.sampled_from(["TN", "TS", "both", "both", "one", "absent"])))),
            "rel": draw(st.floats(1.0, 5.0, allow_nan=False)), "p1": draw(PROBS), "p2": draw(PROBS)}


@subcheck(PROP, "scatter_quantiles", strategy=_quantile_cases, quick=3000, thorough=100000,
          doc="N_90/N_10 == TN for loads >= SD_90, SD_90/SD_10 == TS (TN = TS^k_1 resp. TS = TN^(1/k_1) when only one is given, "
              "1 when absent); for any two probabilities the ratio is T^((z2-z1)/(2 z_0.9))")
def scatter_quantiles(case, ctx):
    c = case["curve"]
    ref = _Ref(c)
    _label_curve(c, ctx)
    ctx.nontrivial()
    acc = _pd_curve(c).woehler
    if not (_close(float(acc.TN), ref.TN) and _close(float(acc.TS), ref.TS)):
        raise Violation("curve reports TN=%r TS=%r, expected %r %r from the given keys" % (float(acc.TN), float(acc.TS), ref.TN, ref.TS),
                        bucket="quantile:derived-T")
    sd10, sd90 = float(acc.transform_to_failure_probability(0.1).SD), float(acc.transform_to_failure_probability(0.9).SD)
    if not _close(sd90 / sd10, ref.TS):
        raise Violation("SD_90/SD_10 = %r, TS = %r" % (sd90 / sd10, ref.TS), bucket="quantile:TS")
    S = case["rel"] * sd90
    n10, n90 = _f(acc.cycles(S, 0.1)), _f(acc.cycles(S, 0.9))
    if not _close(n90 / n10, ref.TN):
        raise Violation("N_90/N_10 = %r at load %r >= SD_90 = %r, TN = %r" % (n90 / n10, S, sd90, ref.TN), bucket="quantile:TN")
    # general pair of probabilities
    p1, p2 = sorted((case["p1"], case["p2"]))
    e = (float(ndtri(p2)) - float(ndtri(p1))) / (2.0 * Z90)
    s1, s2 = float(acc.transform_to_failure_probability(p1).SD), float(acc.transform_to_failure_probability(p2).SD)
    if not _close(s2 / s1, ref.TS ** e):
        raise Violation("SD_%r/SD_%r = %r, expected TS^%r = %r" % (p2, p1, s2 / s1, e, ref.TS ** e), bucket="quantile:TS-general")
    S = case["rel"] * max(s1, s2)
    n1, n2 = _f(acc.cycles(S, p1)), _f(acc.cycles(S, p2))
    if not _close(n2 / n1, ref.TN ** e):
        raise Violation("N_%r/N_%r = %r at load %r, expected TN^%r = %r" % (p2, p1, n2 / n1, S, e, ref.TN ** e), bucket="quantile:TN-general")


# --------------------------------------------------------------------------- 6. probability shift is a group action
@st.composite
def _transform_cases(draw, tier):
    n = draw(st.sampled_from([0, 0, 2, 3]))
    cs = [draw(curves()) for _ in range(max(n, 1))]
    if n:
        for c in cs[1:]:
            for key in ("TN", "TS", "p0"):
                c[key] = None if cs[0][key] is None else (c[key] if c[key] is not None else cs[0][key])
            if cs[0]["k_2"] is None:
                c["k_2"] = None
            elif c["k_2"] is None:
                c["k_2"] = "inf"
    return {"curves": cs, "frame": n > 0, "p1": draw(PROBS), "p2": draw(PROBS), "via_pandas": draw(st.booleans()),
            "rel": draw(st.floats(0.2, 5.0, allow_nan=False))}


def _rows(res, frame):
    """-> list of dicts (one per curve) from a to_pandas() result"""
    if not frame:
        return [{k: float(v) for k, v in res.items()}]
    return [{k: float(v) for k, v in row.items()} for _, row in res.iterrows()]


def _cmp_curves(got, want, what, bucket):
    for i, (g, w) in enumerate(zip(got, want)):
        if set(g) != set(w):
            raise Violation("%s: keys %r vs %r" % (what, sorted(g), sorted(w)), bucket=bucket + ":keys")
        for k in w:
            tol = RTOL if k in ("SD", "ND") else 0.0
            if not (_close(g[k], w[k], tol) if tol else g[k] == w[k]):
                raise Violation("%s: curve %d %s = %r, expected %r" % (what, i, k, g[k], w[k]), bucket=bucket + ":" + k)


@subcheck(PROP, "transform_group", strategy=_transform_cases, quick=3000, thorough=100000,
          doc="transform(p1).transform(p2) == transform(p2); transform(native) is the identity; the result equals the closed form; "
              "the transformed curve evaluated at P equals the original evaluated at P")
def transform_group(case, ctx):
    cs, frame = case["curves"], case["frame"]
    obj = _container(cs, frame)
    refs = [_Ref(c) for c in cs]
    p1, p2 = case["p1"], case["p2"]
    ctx.label("frame" if frame else "series")
    ctx.nontrivial()
    acc = obj.woehler
    base = _rows(acc.to_pandas(), frame)
    t1 = acc.transform_to_failure_probability(p1)
    if case["via_pandas"]:
        t1 = t1.to_pandas().woehler
    t12 = _rows(t1.transform_to_failure_probability(p2).to_pandas(), frame)
    t2 = _rows(acc.transform_to_failure_probability(p2).to_pandas(), frame)
    # closed form
    want = []
    for b, r in zip(base, refs):
        w = dict(b)
        w["SD"], w["ND"] = r.knee(p2)
        w["failure_probability"] = p2
        want.append(w)
    _cmp_curves(t2, want, "transform(%r)" % p2, "transform:closed-form")
    _cmp_curves(t12, t2, "transform(%r).transform(%r) vs transform(%r)" % (p1, p2, p2), "transform:group")
    # identity
    natives = [r.p0 for r in refs]
    if len(set(natives)) == 1:
        ident = _rows(acc.transform_to_failure_probability(natives[0]).to_pandas(), frame)
        for g, w in zip(ident, base):
            for k in w:
                if not (_close(g[k], w[k], 1e-15) if k in ("SD", "ND") else g[k] == w[k]):
                    raise Violation("transform(native=%r) is not the identity: %s %r -> %r" % (natives[0], k, w[k], g[k]), bucket="transform:identity")
        back = _rows(t1.transform_to_failure_probability(natives[0]).to_pandas(), frame)
        _cmp_curves(back, base, "transform(%r).transform(native)" % p1, "transform:back")
    if not _same(obj, _container(cs, frame)):
        raise Violation("transform_to_failure_probability altered the user's pandas object", bucket="transform:mutates")
    # evaluation commutes with the shift
    if not frame:
        S = case["rel"] * refs[0].SD
        a, b = _f(acc.cycles(S, p2)), _f(t1.cycles(S, p2))
        if not _close(a, b):
            raise Violation("cycles(%r, P=%r): original curve %r, curve transformed to %r first %r" % (S, p2, a, p1, b), bucket="transform:eval")


# --------------------------------------------------------------------------- 7. scatter range <-> standard deviation
@st.composite
def _conv_cases(draw, tier):
    return {"T": draw(st.one_of(st.sampled_from([1.0, 1.25, 2.0, 10.0]), _pow10(0, 3))),
            "s": draw(st.one_of(st.sampled_from([0.0, 0.1, 1.0]), st.floats(0.0, 2.0, allow_nan=False))),
            "container": draw(st.sampled_from(["scalar", "array", "series"]))}


@subcheck(PROP, "scatter_conversion", strategy=_conv_cases, quick=2000, thorough=50000,
          doc="std_to_scattering_range and scattering_range_to_std are mutual inverses and T == 10^(2 z_0.9 s), z from scipy")
def scatter_conversion(case, ctx):
    T, s, cont = case["T"], case["s"], case["container"]
    ctx.label(cont)
    if cont != "scalar":
        ctx.nontrivial()
    wrap = {"scalar": lambda x: x, "array": lambda x: np.array([x, x]), "series": lambda x: pd.Series([x, x], index=["a", "b"])}[cont]
    first = lambda y: float(np.asarray(y).ravel()[0])     # noqa: E731
    sT = first(pf.scattering_range_to_std(wrap(T)))
    want = math.log10(T) / (2.0 * Z90)
    # log10 has abs error ~1e-16 near T=1; beyond that 1e-12 relative is two orders above the rounding of the constants
    if abs(sT - want) > 1e-12 * abs(want) + 1e-15:
        raise Violation("scattering_range_to_std(%r) = %r, expected log10(T)/(2 z_0.9) = %r" % (T, sT, want), bucket="conv:T-to-s")
    back = first(pf.std_to_scattering_range(wrap(sT)))
    if abs(back - T) > 1e-12 * T:
        raise Violation("std_to_scattering_range(scattering_range_to_std(%r)) = %r" % (T, back), bucket="conv:roundtrip-T")
    Ts = first(pf.std_to_scattering_range(wrap(s)))
    want = 10.0 ** (2.0 * Z90 * s)
    if abs(Ts - want) > 1e-12 * want:
        raise Violation("std_to_scattering_range(%r) = %r, expected 10^(2 z_0.9 s) = %r" % (s, Ts, want), bucket="conv:s-to-T")
    back = first(pf.scattering_range_to_std(wrap(Ts)))
    if abs(back - s) > 1e-12 * s + 1e-15:
        raise Violation("scattering_range_to_std(std_to_scattering_range(%r)) = %r" % (s, back), bucket="conv:roundtrip-s")


# --------------------------------------------------------------------------- 8. broadcasting == element-wise scalar evaluation
@st.composite
def _bc_cases(draw, tier):
    layout = draw(st.sampled_from(["series_x_array", "series_x_list_int", "series_x_series", "series_x_series_int", "frame_x_scalar",
                                   "frame_x_array", "frame_x_series_cross", "frame_x_series_aligned", "series_x_parray",
                                   "series_x_scalar_int", "series_x_array_int", "frame_x_scalar_int", "frame_x_array_int"]))
    nc = 1 if layout.startswith("series") else draw(st.integers(1, 4))
    ints = draw(st.integers(0, 2)) == 0
    cs = [draw(curves(ints=ints)) for _ in range(nc)]
    for c in cs[1:]:
        for key in ("TN", "TS", "p0"):
            c[key] = None if cs[0][key] is None else (c[key] if c[key] is not None else cs[0][key])
        if cs[0]["k_2"] is None:
            c["k_2"] = None
        elif c["k_2"] is None:
            c["k_2"] = "inf"
    nl = nc if layout in ("frame_x_array", "frame_x_array_int", "frame_x_series_aligned") else draw(st.integers(1, 5))
    if "int" in layout:
        vals = [float(v) for v in draw(st.lists(st.integers(1, 20000), min_size=nl, max_size=nl))]
    else:
        vals = draw(st.lists(st.one_of(st.just(1.0), st.floats(0.2, 5.0, allow_nan=False)), min_size=nl, max_size=nl))
    return {"layout": layout, "curves": cs, "vals": vals, "p": draw(st.one_of(st.none(), PROBS)),
            "ps": draw(st.lists(PROBS, min_size=1, max_size=4)),
            "labels": draw(st.permutations(list(range(nl)))), "perm": draw(st.permutations(list(range(nc)))),
            "fn": draw(st.sampled_from(["cycles", "load"])), "acc": draw(st.sampled_from(["woehler", "fatigue"])),
            "np_int": draw(st.booleans())}


@subcheck(PROP, "broadcast", strategy=_bc_cases, quick=2500, thorough=60000,
          doc="array / list / Series / DataFrame-of-curves x Series inputs give, element by element, the numbers of scalar calls; "
              "shape and index of the input are kept")
def broadcast(case, ctx):
    lay, cs, fn, p = case["layout"], case["curves"], case["fn"], case["p"]
    ctx.label(lay, fn)
    ctx.nontrivial()
    frame = lay.startswith("frame")
    obj = _container(cs, frame)
    acc = _acc(obj, case["acc"])
    singles = [_acc(_pd_curve(dict(c, ints=False)), case["acc"]) for c in cs]      # the oracle is the float64 evaluation
    if cs[0].get("ints"):
        ctx.label("params:int")
    kw = _kw(p)
    # values: relative to the first curve's native knee (loads) or ND (cycles); integer layouts use the integers themselves
    scale = 1.0 if "int" in lay else (cs[0]["SD"] if fn == "cycles" else cs[0]["ND"])
    vals = [v * scale for v in case["vals"]]
    if "int" in lay:
        vals = [int(v) for v in vals]

    def scalar(i, v, **k):
        return _f(getattr(singles[i], fn)(float(v), **(k or kw)))

    def cmp(got, want, where):
        if not (got == want or _close(got, want, 1e-12)):
            raise Violation("%s %s: %s gives %r, scalar call %r" % (lay, fn, where, got, want), bucket="broadcast:" + lay + ":" + fn)

    if lay == "series_x_scalar_int":
        v = np.int64(vals[0]) if case.get("np_int") else int(vals[0])
        cmp(_f(getattr(acc, fn)(v, **kw)), scalar(0, vals[0]), "%s scalar %r" % (type(v).__name__, v))
    elif lay in ("series_x_array", "series_x_list_int", "series_x_array_int"):
        arg = np.array(vals) if lay == "series_x_array" else np.array(vals, dtype=np.int64) if lay == "series_x_array_int" else list(vals)
        res = getattr(acc, fn)(arg, **kw)
        if isinstance(res, (pd.Series, pd.DataFrame)) or np.asarray(res).shape != (len(vals),):
            raise Violation("%s: result %s shape %r for %d inputs" % (lay, type(res).__name__, np.asarray(res).shape, len(vals)),
                            bucket="broadcast:shape:" + lay)
        for j, v in enumerate(vals):
            cmp(float(np.asarray(res)[j]), scalar(0, v), "element %d (%r)" % (j, v))
    elif lay in ("series_x_series", "series_x_series_int"):
        idx = pd.Index(["n%d" % k for k in case["labels"]], name="node")
        arg = pd.Series(vals, index=idx)
        if "int" in lay and arg.dtype != np.int64:
            raise AssertionError("harness: integer layout built a %s Series" % arg.dtype)
        res = getattr(acc, fn)(arg, **kw)
        if not isinstance(res, pd.Series) or not res.index.equals(idx):
            raise Violation("%s: result is %s with index %r, input index %r" % (lay, type(res).__name__, getattr(res, "index", None), idx),
                            bucket="broadcast:index:" + lay)
        for j, v in enumerate(vals):
            cmp(float(res.iloc[j]), scalar(0, v), "element %r (%r)" % (idx[j], v))
    elif lay in ("frame_x_scalar", "frame_x_scalar_int"):
        v = vals[0] if lay == "frame_x_scalar" else (np.int64(vals[0]) if case.get("np_int") else int(vals[0]))
        res = np.asarray(getattr(acc, fn)(v, **kw), dtype=float)
        if res.shape != (len(cs),):
            raise Violation("frame x scalar: result shape %r for %d curves" % (res.shape, len(cs)), bucket="broadcast:shape:" + lay)
        for i in range(len(cs)):
            cmp(float(res[i]), scalar(i, vals[0]), "curve %d" % i)
    elif lay in ("frame_x_array", "frame_x_array_int"):
        res = np.asarray(getattr(acc, fn)(np.array(vals, dtype=np.int64 if "int" in lay else float), **kw), dtype=float)
        if res.shape != (len(cs),):
            raise Violation("frame x array: result shape %r for %d curves" % (res.shape, len(cs)), bucket="broadcast:shape:" + lay)
        for i in range(len(cs)):
            cmp(float(res[i]), scalar(i, vals[i]), "curve %d with element %d" % (i, i))
    elif lay == "frame_x_series_cross":
        idx = pd.Index([10 * (k + 1) for k in case["labels"]], name="node")
        arg = pd.Series(vals, index=idx)
        res = getattr(acc, fn)(arg, **kw)
        if not isinstance(res, pd.Series) or len(res) != len(cs) * len(vals) or set(res.index.names) != {"curve", "node"}:
            raise Violation("frame x series: result %s len %s levels %r, expected %d rows over (curve, node)" %
                            (type(res).__name__, len(res), getattr(getattr(res, "index", None), "names", None), len(cs) * len(vals)),
                            bucket="broadcast:index:" + lay)
        seen = set()
        for key, got in res.items():
            d = dict(zip(res.index.names, key))
            i, j = int(d["curve"][1:]), list(idx).index(d["node"])
            seen.add((i, j))
            cmp(float(got), scalar(i, vals[j]), "(curve %d, node %r)" % (i, d["node"]))
        if len(seen) != len(cs) * len(vals):
            raise Violation("frame x series: %d distinct (curve,node) pairs, expected %d" % (len(seen), len(cs) * len(vals)),
                            bucket="broadcast:pairs:" + lay)
    elif lay == "frame_x_series_aligned":
        order = list(case["perm"])
        idx = pd.Index(["c%d" % i for i in order], name="curve")
        arg = pd.Series([vals[i] for i in order], index=idx)      # curve i <-> vals[i], presented in another order
        res = getattr(acc, fn)(arg, **kw)
        if not isinstance(res, pd.Series) or len(res) != len(cs) or sorted(res.index) != sorted(idx):
            raise Violation("frame x aligned series: result %s index %r" % (type(res).__name__, getattr(res, "index", None)),
                            bucket="broadcast:index:" + lay)
        for lab, got in res.items():
            i = int(lab[1:])
            cmp(float(got), scalar(i, vals[i]), "curve %s" % lab)
    elif lay == "series_x_parray":
        ps = case["ps"]
        buf = np.array(ps, dtype=np.float64)
        res = np.asarray(getattr(acc, fn)(vals[0], buf), dtype=float)
        if res.shape != (len(ps),):
            raise Violation("scalar x probability array: shape %r for %d probabilities" % (res.shape, len(ps)), bucket="broadcast:shape:" + lay)
        # the caller reuses its buffer: second call on the same curve object with the array refilled in place
        ps2 = [1.0 - q for q in ps]
        buf[:] = ps2
        res2 = np.asarray(getattr(acc, fn)(vals[0], buf), dtype=float)
        t2 = np.asarray(acc.transform_to_failure_probability(buf).to_pandas()["failure_probability"], dtype=float)
        if res2.shape != (len(ps),) or not np.array_equal(t2, np.array(ps2)):
            raise Violation("probability array refilled in place: transformed curve reports failure probabilities %r, requested %r" %
                            (t2.tolist(), ps2), bucket="broadcast:buffer-reuse:" + fn)
        for j, q in enumerate(ps2):
            cmp(float(res2[j]), scalar(0, vals[0], failure_probability=q), "probability %r (second call, same buffer refilled)" % q)
        for j, q in enumerate(ps):
            cmp(float(res[j]), scalar(0, vals[0], failure_probability=q), "probability %r" % q)
    else:       # pragma: no cover
        raise AssertionError(lay)


# --------------------------------------------------------------------------- 9. operand and parameter number types
DTYPES = ["int8", "int16", "int32", "int64", "uint8", "uint16", "uint32", "uint64", "float16", "float32", "float64", "pyint"]
_DMAX = {"int8": 127, "int16": 32767, "int32": 2 ** 31 - 1, "int64": 2 ** 53, "uint8": 255, "uint16": 65535, "uint32": 2 ** 32 - 1,
         "uint64": 2 ** 53, "pyint": 2 ** 53, "float16": 60000.0, "float32": 1e12, "float64": 1e12}


@st.composite
def _type_cases(draw, tier):
    frame = draw(st.booleans())
    ints = draw(st.booleans())
    nc = draw(st.integers(1, 4)) if frame else 1
    cs = [draw(curves(ints=ints)) for _ in range(nc)]
    for c in cs[1:]:
        for key in ("TN", "TS", "p0"):
            c[key] = None if cs[0][key] is None else (c[key] if c[key] is not None else cs[0][key])
        if cs[0]["k_2"] is None:
            c["k_2"] = None
        elif c["k_2"] is None:
            c["k_2"] = "inf"
    dt = draw(st.sampled_from(DTYPES))
    cont = draw(st.sampled_from(["scalar", "array", "series"]))
    n = 1 if cont == "scalar" else nc if frame else draw(st.integers(1, 5))
    hi = math.log10(_DMAX[dt])
    if dt.startswith("float"):
        vals = [float(np.dtype(dt).type(10.0 ** e)) for e in draw(st.lists(st.floats(-1.0, hi, allow_nan=False), min_size=n, max_size=n))]
    else:
        vals = [float(max(1, min(int(_DMAX[dt]), int(10.0 ** e)))) for e in draw(st.lists(st.floats(0.0, hi, allow_nan=False), min_size=n, max_size=n))]
    return {"curves": cs, "frame": frame, "dtype": dt, "container": cont, "vals": vals, "fn": draw(st.sampled_from(["cycles", "load", "load"])),
            "p": draw(st.one_of(st.none(), PROBS)), "acc": draw(st.sampled_from(["woehler", "fatigue"]))}


@subcheck(PROP, "operand_types", strategy=_type_cases, quick=3000, thorough=80000,
          doc="loads / cycle numbers as int8..int64, uint8..uint64, float16/32/64 numpy scalars, arrays, Series or python ints, curve "
              "parameters as integers (int64 Series, int64 columns next to a float k_2 column): same numbers as the float64 evaluation "
              "of the same values, curve by curve and element by element (rtol 1e-12), result in float64")
def operand_types(case, ctx):
    cs, frame, dt, cont, fn = case["curves"], case["frame"], case["dtype"], case["container"], case["fn"]
    ctx.label("dtype:" + dt, cont, fn, "frame" if frame else "series")
    if cs[0].get("ints"):
        ctx.label("params:int")
        if any(isinstance(c["k_2"], float) and c["k_2"] != int(c["k_2"]) for c in cs):
            ctx.label("params:int+float_k2")
    ctx.nontrivial()
    obj = _container(cs, frame)
    acc = _acc(obj, case["acc"])
    singles = [_acc(_pd_curve(dict(c, ints=False)), case["acc"]) for c in cs]
    kw = _kw(case["p"])
    vals = case["vals"]
    if dt == "pyint":
        typed = [int(v) for v in vals]
        arr = list(typed) if cont != "series" else typed
    else:
        arr = np.array(vals, dtype=dt)
        typed = [arr.dtype.type(v) for v in vals]
        if [float(x) for x in arr] != vals:
            raise AssertionError("harness: %r not representable as %s" % (vals, dt))
    if cont == "scalar":
        res = np.asarray(getattr(acc, fn)(typed[0], **kw))
        want_shape = (len(cs),) if frame else ()
    elif cont == "array":
        res = np.asarray(getattr(acc, fn)(arr, **kw))
        want_shape = (len(vals),)
    else:
        idx = obj.index if frame else pd.Index(["n%d" % j for j in range(len(vals))], name="node")
        ser = pd.Series(arr, index=idx)
        if dt != "pyint" and str(ser.dtype) != dt:
            raise AssertionError("harness: Series dtype %s for %s" % (ser.dtype, dt))
        out = getattr(acc, fn)(ser, **kw)
        if not isinstance(out, pd.Series) or not out.index.equals(idx):
            raise Violation("%s Series operand: result %s with index %r" % (dt, type(out).__name__, getattr(out, "index", None)), bucket="types:index")
        res = np.asarray(out)
        want_shape = (len(vals),)
    if res.shape != want_shape:
        raise Violation("%s %s operand: result shape %r, expected %r" % (dt, cont, res.shape, want_shape), bucket="types:shape")
    if res.dtype != np.float64:
        raise Violation("%s %s operand: result dtype %s, the float64 evaluation is promised for every number type" % (dt, cont, res.dtype),
                        bucket="types:dtype:" + fn)
    flat = res.reshape(-1)
    for j in range(max(len(flat), 1)):
        i = j if frame else 0
        v = vals[0] if cont == "scalar" else vals[j]
        want = _f(getattr(singles[i], fn)(float(v), **kw))
        got = float(flat[j])
        if not (got == want or _close(got, want, 1e-12)):
            raise Violation("%s(%s %s %r) on %s = %r, float64 evaluation of the same number gives %r" %
                            (fn, dt, cont, v, "curve %d of the frame" % i if frame else "the curve", got, want),
                            bucket="types:%s:%s:%s" % (fn, "unsigned" if dt.startswith("u") else "signed" if dt.startswith("i") or dt == "pyint" else dt,
                                                       "int-params" if cs[0].get("ints") else "float-params"))
