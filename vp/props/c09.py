"""C09 - FKM-nonlinear damage Woehler curves, damage parameter P_RAM, damage accumulation, safety index, load safety factors.

Oracles are closed forms and a literal accumulation loop written here in plain Python (``math`` only); the constants
that belong to the *statement* (mean-stress factor a_M, b_M of the guideline's table 2.14, the beta table of the load
safety concept, the gamma_L formulas 2.3-4 .. 2.3-8) are transcribed below and not read from pyLife.
"""

import math
import warnings

import numpy as np
import pandas as pd
from hypothesis import strategies as st

from ..core import Violation, subcheck, nontrivial_rule, assumptions

PROP = "C09"
EPS = 2.220446049250313e-16
RT = 1e-9        # round trips / closed forms: a handful of pow/div operations, error amplified by |1/d| <= 20 -> << 1e-9

nontrivial_rule(PROP, "Non-trivial: curve clauses - at least one probe within 1 % of a knee (N = 1e3, N_D, P_Z, P_D) AND one strictly inside each "
                      "finite-life branch; P_RAM - rows of both mean-stress signs, or a negative (S_a + k S_m); accumulation - table mixes closed and half "
                      "hystereses in both passes, or fails within the first two passes; beta - P_A < 1e-6 or P_A > 0.4; gamma_L - P_L = 2.5 with s > 0.")
assumptions(PROP, [
    "curve parameters: P_Z > P_D > 0, slopes in [-2, -0.05]; probes N in [1e-2, 1e3 N_D], P in [0.2 P_D, 5 P_Z]",
    "round trip N -> P -> N is asserted for N <= N_D (1 - 1e-9): closer to the endurance knee calc_P may round to P_D, which maps to inf by definition",
    "accumulation uses the finite-life branches continued below P_D (elementary Miner, as the guideline prescribes once P_max > P_D); "
    "cycles per traversal = number of hystereses of the second (steady-state) pass, guideline eq. 2.6-91; early failure = number of hystereses "
    "completed while the damage sum is still < 1",
    "tables whose running damage sum comes within 1e-9 of exactly 1 are discarded unless the sum is exact (pandas uses compensated summation)",
    "one to three assessment points (table without index, or MultiIndex with arbitrary integer point labels; every point has the same "
    "hysteresis pattern with its P values scaled; rows hysteresis-major, point-major or interleaved with every point's hystereses in order; "
    "results are read in ascending label order); both passes contain at least one hysteresis; collective has the S_min "
    "column the calculator uses for counting; independence of a point from the rest of a batch is C10's subject",
    "P_A for the safety index in [1e-12, 0.5] (RuntimeError tolerated only below 1e-12); load safety: P_A from the guideline's table, other values raise ValueError",
])

# --- transcribed from the guideline (FKM nonlinear tables 2.14, 2.3 / eqs 2.3-4..8) --------------------------------
MEAN_STRESS = {"Steel": (0.35, -0.1), "SteelCast": (0.35, 0.05), "Al_wrought": (1.0, -0.04)}
BETA_TABLE = [(1e-7, 5.20), (1e-6, 4.75), (1e-5, 4.27), (7.2e-5, 3.8), (1e-3, 3.09), (2.3e-1, 0.739), (0.5, 0.0)]
GROUPS = ["Steel", "SteelCast", "Al_wrought"]

_lg = lambda lo, hi: st.floats(math.log10(lo), math.log10(hi), allow_nan=False).map(lambda e: 10.0 ** e)


def _imports():
    import pylife.strength.woehler_fkm_nonlinear  # noqa: F401 (registers the accessors)
    import pylife.strength.fkm_load_distribution  # noqa: F401
    import pylife.strength.damage_parameter as dp
    import pylife.strength.fkm_nonlinear.damage_calculator as dc
    import pylife.strength.fkm_nonlinear.parameter_calculations as pc
    return dp, dc, pc


def _close(a, b, rt=RT):
    return a == b or abs(a - b) <= rt * max(abs(a), abs(b))


def _f(x):
    return float(np.asarray(x).reshape(-1)[0]) if np.ndim(x) else float(x)


# =====================================================================================================================
# 1. component Woehler curves
# =====================================================================================================================
@st.composite
def _curve_params(draw, kind):
    source = draw(st.sampled_from(["free", "free", "guideline"]))
    if source == "free":
        PZ = draw(_lg(1e-2, 1e4))
        ratio = draw(st.one_of(st.floats(0.001, 0.999), st.floats(0.9, 0.999999)))
        PD = PZ * ratio
        if not PD < PZ:
            PD = PZ * 0.5
        d1 = -draw(st.one_of(st.floats(0.05, 2.0), st.sampled_from([0.302, 0.289, 0.238, 0.63])))
        d2 = -draw(st.one_of(st.floats(0.05, 2.0), st.sampled_from([0.197, 0.189, 0.167])))
        return {"source": source, "P_Z": PZ, "P_D": PD, "d_1": d1, "d_2": d2}
    return {"source": source, "group": draw(st.sampled_from(GROUPS)), "R_m": draw(_lg(100.0, 3000.0)),
            "P_A": draw(st.sampled_from([0.5, 1e-3, 7.2e-5, 1e-5, 2.5e-2])),
            "n_P": draw(st.floats(0.9, 1.6)), "K_RP": draw(st.floats(0.5, 1.0))}


_unit = st.one_of(st.floats(0.0, 1.0), st.sampled_from([0.0, 1.0, 0.5]))


@st.composite
def _curve_case(draw, kind):
    c = draw(_curve_params(kind))
    # probes as fractions: mapped to N / P in run(); 'near' values hug the knees
    c["u"] = draw(st.lists(_unit, min_size=3, max_size=8))
    c["near"] = draw(st.lists(st.floats(-1e-2, 1e-2), min_size=1, max_size=4))
    c["delta"] = draw(st.lists(_lg(1e-9, 1.0), min_size=2, max_size=4))
    return c


def _resolve_curve(c, kind):
    """-> (P_Z, P_D, d_first, d_second) ; for guideline cases through pyLife's own parameter functions."""
    if c["source"] == "free":
        return c["P_Z"], c["P_D"], c["d_1"], c["d_2"]
    dp, dc, pc = _imports()
    ap = pd.Series({"MatGroupFKM": c["group"], "R_m": c["R_m"], "P_A": c["P_A"], "n_P": c["n_P"], "K_RP": c["K_RP"]})
    if kind == "RAM":
        ap = pc.calculate_material_woehler_parameters_P_RAM(ap)
        ap = pc.calculate_failure_probability_factor_P_RAM(ap)
        ap = pc.calculate_component_woehler_parameters_P_RAM(ap)
        return float(ap.P_RAM_Z), float(ap.P_RAM_D), float(ap.d_1), float(ap.d_2)
    ap = pc.calculate_material_woehler_parameters_P_RAJ(ap)
    ap = pc.calculate_failure_probability_factor_P_RAJ(ap)
    ap = pc.calculate_component_woehler_parameters_P_RAJ(ap)
    return float(ap.P_RAJ_Z), float(ap.P_RAJ_D_0), float(ap.d_RAJ), float(ap.d_RAJ)


class _Curve:
    """Uniform view on both curve types.  N_K: cycles at the upper knee (1e3 for P_RAM, none for P_RAJ: N_Z = 1)."""

    def __init__(self, kind, PZ, PD, da, db):
        _imports()
        self.kind, self.PZ, self.PD = kind, PZ, PD
        if kind == "RAM":
            self.obj = pd.Series({"P_RAM_Z": PZ, "P_RAM_D": PD, "d_1": da, "d_2": db}).woehler_P_RAM
            self.N_Z, self.d_hi, self.d_lo = 1e3, da, db
            self.calc_P = self.obj.calc_P_RAM
        else:
            self.obj = pd.Series({"P_RAJ_Z": PZ, "P_RAJ_D_0": PD, "d_RAJ": db}).woehler_P_RAJ
            self.N_Z, self.d_hi, self.d_lo = 1.0, db, db
            self.calc_P = self.obj.calc_P_RAJ
        self.calc_N = self.obj.calc_N
        # definition (docstrings): P = P_Z (N/N_Z)^d_hi for N < N_Z, P_Z (N/N_Z)^d_lo up to N_D where P = P_D
        self.N_D = self.N_Z * math.pow(PD / PZ, 1.0 / self.d_lo)

    def ref_P(self, N):
        if N >= self.N_D:
            return self.PD
        return self.PZ * math.pow(N / self.N_Z, self.d_hi if N < self.N_Z else self.d_lo)

    def ref_N(self, P):
        if P <= self.PD:
            return math.inf
        return self.N_Z * math.pow(P / self.PZ, 1.0 / (self.d_hi if P >= self.PZ else self.d_lo))


def _curve_check(case, ctx, kind):
    PZ, PD, da, db = _resolve_curve(case, kind)
    ctx.label(case["source"])
    if not (PZ > PD > 0 and da < 0 and db < 0):
        raise Violation("guideline parameters give an inadmissible curve: P_Z=%r P_D=%r d=%r,%r for %r" % (PZ, PD, da, db, case), bucket=kind + ":inadmissible")
    with warnings.catch_warnings():
        warnings.simplefilter("ignore")
        cv = _Curve(kind, PZ, PD, da, db)
        ND = cv.N_D
        amp = max(abs(1 / cv.d_hi), abs(1 / cv.d_lo), abs(cv.d_hi), abs(cv.d_lo), 1.0)
        rt = RT
        name = "P_%s" % kind

        def V(msg, bucket):
            return Violation("%s curve (P_Z=%r, P_D=%r, d=%r/%r): %s" % (name, PZ, PD, da, db, msg), bucket="%s:%s" % (kind, bucket))

        # ---- fatigue life limit = cycles at the endurance value
        if not _close(_f(cv.obj.fatigue_life_limit), ND, 1e-12 * amp) or _f(cv.obj.fatigue_strength_limit) != PD:
            raise V("fatigue_life_limit %r / fatigue_strength_limit %r, expected %r / %r" % (_f(cv.obj.fatigue_life_limit), _f(cv.obj.fatigue_strength_limit), ND, PD), "limits")

        # ---- infinite at and below the endurance value; finite (and close to N_D) just above it
        below = [PD, np.nextafter(PD, 0.0), PD * 0.5, PD * case["u"][0], 0.0, 5e-324]
        got = np.asarray(cv.calc_N(np.array(below)), dtype=float)
        for P, n in zip(below, got):
            if not (np.isinf(n) and n > 0):
                raise V("calc_N(%r) = %r, must be +inf at and below P_D" % (P, n), "not_infinite_below_PD")
            if not np.isinf(_f(cv.calc_N(P))):
                raise V("scalar calc_N(%r) = %r, must be +inf at and below P_D" % (P, _f(cv.calc_N(P))), "not_infinite_below_PD")
        just = float(np.nextafter(PD, math.inf))
        nj = _f(cv.calc_N(just))
        if not (math.isfinite(nj) and _close(nj, ND, rt)):
            raise V("calc_N(nextafter(P_D)) = %r, expected finite and ~ N_D = %r" % (nj, ND), "jump_above_PD")

        # ---- continuity at the knees, from both sides, both directions
        knees_N = [(cv.N_Z, PZ)] if kind == "RAM" else []
        for NK, PK in knees_N + [(ND, PD)]:
            for N in (float(np.nextafter(NK, 0.0)), NK, float(np.nextafter(NK, math.inf)), NK * (1 - 1e-13), NK * (1 + 1e-13)):
                p = _f(cv.calc_P(N))
                if not _close(p, PK, rt):
                    raise V("calc_P(%r) = %r but the knee value is %r (discontinuous at N = %r)" % (N, p, PK, NK), "discontinuous_calc_P")
        if kind == "RAM":
            for P in (float(np.nextafter(PZ, 0.0)), PZ, float(np.nextafter(PZ, math.inf))):
                n = _f(cv.calc_N(P))
                if not _close(n, 1e3, rt):
                    raise V("calc_N(%r) = %r but N(P_Z) = 1e3 (discontinuous at P_Z)" % (P, n), "discontinuous_calc_N")
            if _f(cv.calc_P(1e3)) != PZ:
                raise V("calc_P(1e3) = %r != P_Z" % _f(cv.calc_P(1e3)), "knee_value")
        else:
            if not _close(_f(cv.calc_P(1.0)), PZ, 1e-15) or not _close(_f(cv.calc_N(PZ)), 1.0, 1e-15):
                raise V("calc_P(1) = %r, calc_N(P_Z) = %r; P_Z is the value at N = 1" % (_f(cv.calc_P(1.0)), _f(cv.calc_N(PZ))), "knee_value")
        for N in (ND, ND * 1.5, ND * 1e3, float(np.nextafter(ND, math.inf))):
            if _f(cv.calc_P(N)) != PD:
                raise V("calc_P(%r) = %r beyond N_D = %r, expected P_D" % (N, _f(cv.calc_P(N)), ND), "beyond_ND")

        # ---- probes: N in [1e-2 N_Z/1e3.., N_D), P in (P_D, 5 P_Z]
        N_lo = 1e-2 if kind == "RAM" else 1e-3
        Ns, Ps = [], []
        for u in case["u"]:
            Ns.append(N_lo * (ND * (1 - 1e-9) / N_lo) ** u)
            Ps.append(PD * (1 + 1e-9) * (5 * PZ / (PD * (1 + 1e-9))) ** u)
        near_knee = False
        for e in case["near"]:
            for NK in ([cv.N_Z] if kind == "RAM" else []) + [ND]:
                N = NK * (1 + e)
                if N_lo <= N <= ND * (1 - 1e-9):
                    Ns.append(N)
                    near_knee = True
            for PK in (PZ, PD):
                P = PK * (1 + e)
                if PD * (1 + 1e-9) <= P <= 5 * PZ:
                    Ps.append(P)
                    near_knee = True
        if near_knee and any(N < cv.N_Z for N in Ns) and any(N > cv.N_Z for N in Ns):
            ctx.nontrivial()
        vN = np.asarray(cv.calc_N(np.array(Ps)), dtype=float)
        vP = np.asarray(cv.calc_P(np.array(Ns)), dtype=float)
        for i, P in enumerate(Ps):
            n = _f(cv.calc_N(P))
            if n != vN[i]:
                raise V("calc_N scalar %r vs array %r at P = %r" % (n, vN[i], P), "scalar_vs_array")
            if not (math.isfinite(n) and n > 0):
                raise V("calc_N(%r) = %r in the finite-life range" % (P, n), "not_finite")
            if not _close(n, cv.ref_N(P), rt):
                raise V("calc_N(%r) = %r, definition gives %r" % (P, n, cv.ref_N(P)), "calc_N_value")
            back = _f(cv.calc_P(n))
            if not _close(back, P, rt):
                raise V("calc_P(calc_N(%r)) = %r (N = %r)" % (P, back, n), "roundtrip_P")
        for i, N in enumerate(Ns):
            p = _f(cv.calc_P(N))
            if p != vP[i]:
                raise V("calc_P scalar %r vs array %r at N = %r" % (p, vP[i], N), "scalar_vs_array")
            if not _close(p, cv.ref_P(N), rt):
                raise V("calc_P(%r) = %r, definition gives %r" % (N, p, cv.ref_P(N)), "calc_P_value")
            back = _f(cv.calc_N(p))
            if not _close(back, N, rt * amp):
                raise V("calc_N(calc_P(%r)) = %r (P = %r)" % (N, back, p), "roundtrip_N")

        # ---- strictly decreasing (pairs separated by a relative step >= 1e-9; response >= 1e-9 * min|d| >> rounding)
        for u, dl in zip(case["u"], case["delta"]):
            P1 = PD * (1 + 1e-9) * (5 * PZ / (PD * (1 + 1e-9))) ** u
            P2 = P1 * (1 + dl)
            n1, n2 = _f(cv.calc_N(P1)), _f(cv.calc_N(P2))
            if not n2 < n1:
                raise V("calc_N not strictly decreasing: N(%r) = %r, N(%r) = %r" % (P1, n1, P2, n2), "not_decreasing_N")
            N1 = N_lo * (ND * (1 - 1e-9) / N_lo) ** u
            N2 = N1 * (1 + dl)
            if N2 < ND * (1 - 1e-9):
                p1, p2 = _f(cv.calc_P(N1)), _f(cv.calc_P(N2))
                if not p2 < p1:
                    raise V("calc_P not strictly decreasing: P(%r) = %r, P(%r) = %r" % (N1, p1, N2, p2), "not_decreasing_P")
        # decreasing across the knees as well
        if kind == "RAM":
            a, b, c3 = _f(cv.calc_N(PZ * (1 - 1e-6))), _f(cv.calc_N(PZ)), _f(cv.calc_N(PZ * (1 + 1e-6)))
            if not (a > b > c3):
                raise V("calc_N not decreasing across P_Z: %r %r %r" % (a, b, c3), "not_decreasing_knee")
            a, b, c3 = _f(cv.calc_P(1e3 * (1 - 1e-6))), _f(cv.calc_P(1e3)), _f(cv.calc_P(1e3 * (1 + 1e-6)))
            if not (a > b > c3) and ND > 1e3 * (1 + 1e-6):
                raise V("calc_P not decreasing across N = 1e3: %r %r %r" % (a, b, c3), "not_decreasing_knee")
        return cv


@subcheck(PROP, "pram_curve", strategy=lambda tier: _curve_case("RAM"), quick=1600, thorough=60000,
          doc="woehler_P_RAM: continuity at N=1e3 / N_D, strict decrease, inf at and below P_D, calc_N / calc_P_RAM mutual inverses, values by definition")
def pram_curve(case, ctx):
    _curve_check(case, ctx, "RAM")


@subcheck(PROP, "praj_curve", strategy=lambda tier: _curve_case("RAJ"), quick=1600, thorough=60000,
          doc="woehler_P_RAJ: same clauses; additionally the optional / updated endurance value P_RAJ_D of calc_N")
def praj_curve(case, ctx):
    cv = _curve_check(case, ctx, "RAJ")
    # explicit and updated endurance value: inf at and below it, unchanged above it
    PZ, PD = cv.PZ, cv.PD
    PDx = PD * (1 + 3 * case["u"][0])
    if PDx >= PZ:
        return
    with warnings.catch_warnings():
        warnings.simplefilter("ignore")
        probes = [PDx, float(np.nextafter(PDx, 0)), float(np.nextafter(PDx, math.inf)), PDx * 1.5, PD * 1.0000001]
        a = np.asarray(cv.calc_N(np.array(probes), P_RAJ_D=PDx), dtype=float)
        cv.obj.update_P_RAJ_D(PDx)
        b = np.asarray(cv.calc_N(np.array(probes)), dtype=float)
    for P, x, y in zip(probes, a, b):
        want = math.inf if P <= PDx else math.pow(P / PZ, 1.0 / cv.d_lo)
        for how, v in (("P_RAJ_D argument", x), ("update_P_RAJ_D", y)):
            if not (v == want or (math.isfinite(want) and _close(v, want))):
                raise Violation("P_RAJ curve with endurance value %r via %s: calc_N(%r) = %r, expected %r" % (PDx, how, P, v, want), bucket="RAJ:updated_PD")
    if _f(cv.obj.fatigue_strength_limit_final) != PDx or not _close(_f(cv.obj.fatigue_life_limit_final), math.pow(PDx / PZ, 1.0 / cv.d_lo), 1e-12 * abs(1 / cv.d_lo) + 1e-15):
        raise Violation("fatigue_*_limit_final after update_P_RAJ_D(%r): %r / %r" % (PDx, cv.obj.fatigue_strength_limit_final, cv.obj.fatigue_life_limit_final), bucket="RAJ:final_limits")


# =====================================================================================================================
# 2. damage parameter P_RAM
# =====================================================================================================================
_sm = st.one_of(st.floats(-2000.0, 2000.0), st.sampled_from([0.0, -0.0]), st.floats(-1.0, 1.0))


@st.composite
def _pram_case(draw, tier):
    group = draw(st.sampled_from(GROUPS))
    Rm = draw(_lg(100.0, 3000.0))
    E = draw(st.sampled_from([206e3, 70e3])) if draw(st.booleans()) else draw(_lg(1e4, 1e6))
    a_M, b_M = MEAN_STRESS[group]
    M = a_M * 1e-3 * Rm + b_M
    rows = []
    for _ in range(draw(st.integers(1, 12))):
        Sa = draw(_lg(1e-3, 3000.0))
        mode = draw(st.sampled_from(["free", "free", "zero_disc", "neg_disc"]))
        if mode == "free":
            Sm = draw(_sm)
        else:
            # S_a + k S_m = 0 (or just below): S_m = -S_a / k on the side where k applies
            sign = draw(st.sampled_from([1.0, -1.0]))
            k = M * (M + 2) if sign > 0 else M / 3 * (M / 3 + 2)
            Sm = -Sa / k if k != 0 else draw(_sm)
            if mode == "neg_disc":
                Sm *= draw(st.floats(1.0, 3.0))
        rows.append([Sa, Sm, draw(_lg(1e-6, 0.1))])
    # row labels: the damage parameter is a function of the row, whatever the rows are called.  "dup": labels i % m (two passes
    # stacked with pd.concat without ignore_index, node ids, load blocks); "shuffled": a permutation of 0..n-1; "offset": 100, 101, ..
    index = draw(st.sampled_from(["range", "dup", "dup", "shuffled", "offset"]))
    labels = None
    if index == "dup":
        m = draw(st.integers(1, max(1, len(rows) - 1)))
        labels = [i % m for i in range(len(rows))]
    elif index == "shuffled":
        labels = list(draw(st.permutations(range(len(rows)))))
    elif index == "offset":
        labels = [100 + i for i in range(len(rows))]
    return {"group": group, "R_m": Rm, "E": E, "rows": rows, "labels": labels}


@subcheck(PROP, "p_ram_value", strategy=_pram_case, quick=1600, thorough=60000,
          doc="P_RAM == sqrt((S_a + k S_m) eps_a E), k = M(M+2) for S_m >= 0, M/3 (M/3+2) for S_m < 0, M = a_M R_m/1000 + b_M; 0 if negative")
def p_ram_value(case, ctx):
    dp, dc, pc = _imports()
    a_M, b_M = MEAN_STRESS[case["group"]]
    M = a_M * 1e-3 * case["R_m"] + b_M
    rows = case["rows"]
    col = pd.DataFrame(rows, columns=["S_a", "S_m", "epsilon_a"])
    col["tag"] = np.arange(len(rows)) * 7
    labels = case.get("labels")
    if labels is not None:
        col.index = pd.Index(labels)
        dup = len(set(labels)) < len(labels)
        ctx.label("labels_duplicate" if dup else "labels_unique_non_range")
        if dup and any((rows[i][1] >= 0) != (rows[j][1] >= 0) for i in range(len(rows)) for j in range(i) if labels[i] == labels[j]):
            ctx.label("duplicate_label_with_both_mean_stress_signs")
    else:
        ctx.label("labels_range")
    before = col.copy(deep=True)
    ap = pd.Series({"MatGroupFKM": case["group"], "R_m": case["R_m"], "E": case["E"]})
    with warnings.catch_warnings():
        warnings.simplefilter("ignore")
        out = dp.P_RAM(col, ap).collective
    if not col.equals(before):
        raise Violation("P_RAM changed the collective it was given", bucket="pram:mutated_input")
    if len(out) != len(rows) or list(out["tag"]) != list(before["tag"]) or list(out.index) != list(before.index) \
            or not out[["S_a", "S_m", "epsilon_a"]].equals(before[["S_a", "S_m", "epsilon_a"]]):
        raise Violation("P_RAM collective lost or reordered rows/columns: %r" % out.to_dict("list"), bucket="pram:rows")
    signs = set()
    neg = False
    for (Sa, Sm, ea), got in zip(rows, out["P_RAM"].tolist()):
        k = M * (M + 2) if Sm >= 0 else M / 3 * (M / 3 + 2)
        disc = Sa + k * Sm
        signs.add(Sm >= 0)
        # |disc| below 8 ulp of its two terms is undecided by rounding: either outcome of the sign test is accepted
        fuzzy = abs(disc) <= 8 * EPS * max(abs(Sa), abs(k * Sm))
        want = math.sqrt(disc * ea * case["E"]) if disc >= 0 else 0.0
        if disc < 0:
            neg = True
        ok = (got == want) or _close(got, want, 1e-12) or (fuzzy and abs(got) <= math.sqrt(16 * EPS * max(abs(Sa), abs(k * Sm)) * ea * case["E"]))
        if not ok or math.isnan(got):
            raise Violation("P_RAM(S_a=%r, S_m=%r, eps_a=%r; %s R_m=%r E=%r) = %r, expected %r (M_sigma=%r, k=%r, S_a + k S_m = %r)"
                            % (Sa, Sm, ea, case["group"], case["R_m"], case["E"], got, want, M, k, disc),
                            bucket="pram:value:%s" % ("neg" if disc < 0 else "Sm>=0" if Sm >= 0 else "Sm<0"))
    if len(signs) == 2 or neg:
        ctx.nontrivial()
    ctx.label("has_negative_product" if neg else "all_positive")


# =====================================================================================================================
# 3. lifetime = literal accumulation
# =====================================================================================================================
@st.composite
def _table(draw, tier):
    PZ = draw(_lg(50.0, 2000.0))
    PD = PZ * draw(st.floats(0.1, 0.9))
    d1 = -draw(st.floats(0.15, 0.6))
    d2 = -draw(st.floats(0.1, 0.4))
    regime = draw(st.sampled_from(["long", "medium", "medium", "short", "early", "early"]))
    span = {"long": (0.05, 0.8), "medium": (0.3, 2.0), "short": (0.8, 4.0), "early": (1.5, 8.0)}[regime]
    nmax = 14 if tier == "quick" else 30
    n1, n2 = draw(st.integers(1, nmax)), draw(st.integers(1, nmax))
    rows = []
    for run, n in ((1, n1), (2, n2)):
        for _ in range(n):
            kind = draw(st.sampled_from(["span", "span", "span", "span", "zero", "PZ", "PD"]))
            P = {"zero": 0.0, "PZ": PZ, "PD": PD}.get(kind)
            if P is None:
                P = PZ * draw(_lg(*span))
            rows.append([P, draw(st.booleans()), run])
    # how the table is indexed: no index at all, or the (hysteresis_index, assessment_point_index) MultiIndex of the docstring with
    # arbitrary integer labels (node ids); a second point carries the same hystereses with all P scaled
    layout = draw(st.sampled_from(["no_index", "one_point", "multi_point", "multi_point"]))
    label = st.one_of(st.sampled_from([0, 1, 7, 10, 20, 1000003]), st.integers(-5, 60))
    if layout == "no_index":
        points = [{"id": None, "scale": 1.0}]
    elif layout == "one_point":
        points = [{"id": draw(label), "scale": 1.0}]
    else:
        # 2-3 points; scales far from 1 make one point fail within the two passes while another lives long
        k = draw(st.integers(2, 3))
        ids = sorted(draw(st.lists(label, min_size=k, max_size=k, unique=True)))
        scales = [draw(st.sampled_from([1.0, 0.5, 2.0, 1.25, 0.8, 0.2, 4.0])) for _ in ids]
        points = [{"id": i, "scale": sc} for i, sc in zip(ids, scales)]
    # a second listing of the same hystereses (see the metamorphic clause in run)
    n = len(rows)
    kind = draw(st.sampled_from(["none", "second_pass_first", "interleaved", "sorted_by_P", "random"]))
    if kind == "second_pass_first":
        order = list(range(n1, n)) + list(range(n1))
    elif kind == "interleaved":
        a, b, order = list(range(n1)), list(range(n1, n)), []
        while a or b:
            if b:
                order.append(b.pop(0))
            if a:
                order.append(a.pop(0))
    elif kind == "sorted_by_P":
        order = sorted(range(n), key=lambda i: (-rows[i][0], i))
    elif kind == "random":
        order = list(draw(st.permutations(range(n))))
    else:
        order = None
    # how the rows of a multi-point table are arranged: hysteresis-major (the recorder's layout), point-major (pd.concat of per-node
    # collectives, sort_index by point), or any interleaving that keeps every point's hystereses in their order
    arrangement = None
    if len(points) > 1:
        akind = draw(st.sampled_from(["hysteresis_major", "point_major", "point_major", "interleaved", "interleaved"]))
        if akind == "point_major":
            arrangement = [j for j in range(len(points)) for _ in range(n)]
            if draw(st.booleans()):
                arrangement = arrangement[::-1]           # last point first
        elif akind == "interleaved":
            arrangement = list(draw(st.permutations([j for j in range(len(points)) for _ in range(n)])))
    return {"P_Z": PZ, "P_D": PD, "d_1": d1, "d_2": d2, "rows": rows, "regime": regime, "points": points, "order": order, "order_kind": kind,
            "arrangement": arrangement}


def _literal(case, scale=1.0):
    """Plain accumulation for one assessment point (its P values are the table's times ``scale``)."""
    PZ, d1, d2 = case["P_Z"], case["d_1"], case["d_2"]
    dam, run, Ps = [], [], []
    for P, closed, r in case["rows"]:
        P = P * scale
        if P == 0.0:
            N = math.inf
        else:
            N = 1e3 * math.pow(P / PZ, 1.0 / (d1 if P >= PZ else d2))
        dam.append((1.0 if closed else 0.5) / N)
        run.append(r)
        Ps.append(P)
    total, sums = 0.0, []
    for d in dam:
        total += d
        sums.append(total)
    early = next((i for i, s in enumerate(sums) if s >= 1.0), None)
    D1 = math.fsum(d for d, r in zip(dam, run) if r == 1)
    D2 = math.fsum(d for d, r in zip(dam, run) if r == 2)
    return {"P": Ps, "dam": dam, "sums": sums, "early": early, "D1": D1, "D2": D2, "n1": run.count(1), "n2": run.count(2)}


def _points(case):
    """[(label | None, scale)] in the order of the result arrays (ascending label). Saved cases without the key: one point, no index."""
    pts = case.get("points") or [{"id": None, "scale": 1.0}]
    return [(q["id"], q["scale"]) for q in pts]


@subcheck(PROP, "lifetime_accumulation", strategy=_table, quick=1600, thorough=50000,
          doc="DamageCalculatorPRAM lifetime (traversals, cycles) == literal loop: pass 1 once, pass 2 repeated until the sum reaches 1, "
              "last pass linear, half hystereses weigh 0.5; early failure = hystereses completed with sum < 1; infinite life iff max P of pass 2 <= P_D; "
              "table without index, or with a (hysteresis_index, assessment_point_index) MultiIndex whose point labels are arbitrary integers "
              "(one to three points with rows hysteresis-major, point-major or interleaved, each point - also one failing within the two passes next to "
              "a long-lived one - compared with its own literal accumulation, incl. the cumulative_damage column); the same hystereses listed in another row order "
              "(second pass first, interleaved, sorted by P, random) give the same lifetime")
def lifetime_accumulation(case, ctx):
    ctx.label(case["regime"])
    lits = _run_table(case, ctx)
    # metamorphic: the two passes are identified by run_index, not by the position of the rows.  A table that lists the same hystereses
    # in another order (second pass first, passes interleaved, sorted by severity) has the same D1, D2 and therefore the same lifetime.
    # (Failure within the first two passes is counted hysteresis by hysteresis in table order, so it is not permuted.)
    order = case.get("order")
    if order and all(lit["early"] is None for lit in lits):
        ctx.label("reordered:" + case.get("order_kind", "given"))
        run = [case["rows"][i][2] for i in order]
        if any(a == 2 and b == 1 for a, b in zip(run[:-1], run[1:])):
            ctx.label("pass_2_row_before_pass_1_row")
            ctx.nontrivial()
        _run_table(dict(case, rows=[case["rows"][i] for i in order]), ctx, reordered=True)


def _run_table(case, ctx, reordered=False):
    dp, dc, pc = _imports()
    pts = _points(case)
    lits = [_literal(case, sc) for _, sc in pts]
    rows = case["rows"]
    if not reordered:
        ctx.label("no_index" if pts[0][0] is None else "%d_point_labels_%s" % (len(pts), "0..n-1" if [q[0] for q in pts] == list(range(len(pts))) else "other"))
    # decision stability of the 'sum reaches one' test
    for lit in lits:
        for s in lit["sums"]:
            if abs(s - 1.0) < 1e-9 and s != 1.0:
                ctx.skip("running damage sum within 1e-9 of 1")
    wc = pd.Series({"P_RAM_Z": case["P_Z"], "P_RAM_D": case["P_D"], "d_1": case["d_1"], "d_2": case["d_2"]}).woehler_P_RAM
    npt, nh = len(pts), len(rows)
    # (hysteresis, point) of every table row.  ``arrangement`` = which point the k-th row belongs to; every point's hystereses keep
    # their order, so the literal accumulation of a point does not depend on the arrangement
    arr = case.get("arrangement")
    if arr and npt > 1 and len(arr) == nh * npt:
        nxt = [0] * npt
        pairs = []
        for j in arr:
            pairs.append((nxt[j], j))
            nxt[j] += 1
        if not reordered:
            major = all(a[0] <= b[0] for a, b in zip(pairs[:-1], pairs[1:]))
            ctx.label("rows_hysteresis_major" if major else "rows_point_major" if all(a[1] == b[1] or b[0] == 0 for a, b in zip(pairs[:-1], pairs[1:])) else "rows_interleaved")
            if not major and any(l["early"] is not None for l in lits) and any(l["early"] is None for l in lits):
                ctx.label("not_hysteresis_major_and_some_but_not_all_points_fail_early")
                ctx.nontrivial()
    else:
        pairs = [(i, j) for i in range(nh) for j in range(npt)]
        if npt > 1 and not reordered:
            ctx.label("rows_hysteresis_major")
    col = pd.DataFrame({"P_RAM": [lits[j]["P"][i] for i, j in pairs],
                        "is_closed_hysteresis": [bool(rows[i][1]) for i, j in pairs],
                        "run_index": [rows[i][2] for i, j in pairs], "S_min": -1.0, "S_max": 1.0})
    if pts[0][0] is not None:
        col.index = pd.MultiIndex.from_tuples([(i, pts[j][0]) for i, j in pairs], names=["hysteresis_index", "assessment_point_index"])
    with warnings.catch_warnings():
        warnings.simplefilter("ignore")
        calc = dc.DamageCalculatorPRAM(col, wc)
        seqs = np.asarray(calc.lifetime_n_times_load_sequence, dtype=float).reshape(-1)
        cycs = np.asarray(calc.lifetime_n_cycles, dtype=float).reshape(-1)
        infs = np.asarray(calc.is_life_infinite).reshape(-1)
        pmaxs = np.asarray(calc.P_RAM_max, dtype=float).reshape(-1)
        dall = calc.collective["D"].tolist()
        call = calc.collective["cumulative_damage"].tolist()
        out_index = list(calc.collective.index)
    if pts[0][0] is not None and out_index != [(i, pts[j][0]) for i, j in pairs]:
        raise Violation("the calculator's collective does not keep the rows of the table it was given", bucket="life:collective_rows")
    if not (len(seqs) == len(cycs) == len(infs) == len(pmaxs) == npt and len(dall) == nh * npt):
        raise Violation("%d assessment point(s) but results of length %d/%d/%d/%d" % (npt, len(seqs), len(cycs), len(infs), len(pmaxs)), bucket="life:result_shape")
    closed = [r[1] for r in rows]
    mixed = all(any(c for c, r in zip(closed, [x[2] for x in rows]) if r == k) and any(not c for c, r in zip(closed, [x[2] for x in rows]) if r == k) for k in (1, 2))
    if not reordered:
        ctx.label("mixed_closed_half" if mixed else "not_mixed")
    for j, ((label, scale), lit) in enumerate(zip(pts, lits)):
        try:
            mine = [k for k, (i, jj) in enumerate(pairs) if jj == j]           # this point's rows, in hysteresis order
            for k, w in zip(mine, lit["sums"]):
                if not _close(call[k], w, 1e-11):
                    raise Violation("cumulative_damage in table row %d (hysteresis %d of assessment point %r) is %r, literal running sum of that point %r"
                                    % (k, pairs[k][0], label, call[k], w), bucket="life:cumulative_damage_column")
            _check_point(case, ctx, lit, label, mixed, float(seqs[j]), float(cycs[j]), bool(infs[j]), float(pmaxs[j]), [dall[k] for k in mine])
        except Violation as v:
            if reordered:
                raise Violation("same hystereses listed in another row order (run_index column now %r): %s" % ([r[2] for r in rows], v.msg),
                                bucket="life:reordered:" + v.bucket.split(":", 1)[-1])
            raise
    return lits


def _check_point(case, ctx, lit, label, mixed, seq, cyc, inf_life, pmax, dcol):
    rows = case["rows"]
    n1, n2, D1, D2 = lit["n1"], lit["n2"], lit["D1"], lit["D2"]

    def V(msg, bucket):
        return Violation("%s [assessment point %r; curve P_Z=%r P_D=%r d=%r/%r; D1=%r D2=%r n1=%d n2=%d]"
                         % (msg, label, case["P_Z"], case["P_D"], case["d_1"], case["d_2"], D1, D2, n1, n2), bucket="life:" + bucket)

    # per-hysteresis damage
    for i, (g, w) in enumerate(zip(dcol, lit["dam"])):
        if not (g == w or _close(g, w, 1e-12 * 20)):
            raise V("damage of hysteresis %d (P=%r, closed=%r) is %r, literal %r" % (i, lit["P"][i], rows[i][1], g, w), "damage_per_hysteresis")
    # infinite life
    want_pmax = max(P for P, r in zip(lit["P"], rows) if r[2] == 2)
    if pmax != want_pmax or inf_life != (want_pmax <= case["P_D"]):
        raise V("P_RAM_max = %r / is_life_infinite = %r, expected %r / %r" % (pmax, inf_life, want_pmax, want_pmax <= case["P_D"]), "infinite_life")

    if lit["early"] is not None:
        k = lit["early"]                 # hystereses completed while the sum was < 1
        ctx.nontrivial()
        if cyc != k:
            raise V("failure within the first two passes: lifetime_n_cycles = %r, literal accumulation reaches 1 at hysteresis index %d" % (cyc, k), "early_cycles")
        if k < n1:
            ctx.label("fails_in_pass_1")
            # less than one traversal: 0 whole traversals
            if seq != 0:
                raise V("failure inside pass 1 but lifetime_n_times_load_sequence = %r" % seq, "early_pass1_traversals")
        else:
            ctx.label("fails_in_pass_2")
            want = 1.0 + (1.0 - D1) / D2          # pass 1 once, then the fraction of pass 2 (linear within the pass)
            if not _close(seq, want, RT):
                if seq == 0 and ctx.known("FC09_a"):
                    return        # the documented sentinel 0 (known finding FC09_a); any other value is still a violation
                raise V("damage sum reaches 1 inside the first repetition of pass 2 (D1 = %.6g < 1 <= D1 + D2 = %.6g): lifetime_n_times_load_sequence = %r, "
                        "literal accumulation gives 1 + (1 - D1)/D2 = %r" % (D1, D1 + D2, seq, want), "early_pass2_traversals")
        return

    if D2 == 0.0:
        ctx.label("no_damage_in_pass_2")
        if not (math.isinf(seq) and seq > 0 and math.isinf(cyc) and cyc > 0):
            raise V("pass 2 does no damage, lifetime must be +inf, got %r traversals / %r cycles" % (seq, cyc), "zero_damage")
        return
    if mixed:
        ctx.nontrivial()
    x_est = (1.0 - D1) / D2
    if x_est <= 2e5:
        ctx.label("literal_loop")
        total, reps = D1, 1
        while total + D2 < 1.0:
            total += D2
            reps += 1
        want_seq = reps + (1.0 - total) / D2
        rt = 1e-9 + 4 * EPS * reps          # repeated addition: one rounding per repetition
    else:
        ctx.label("closed_form")
        want_seq = 1.0 + x_est
        rt = RT
    want_cyc = want_seq * n2
    if not _close(seq, want_seq, rt):
        raise V("lifetime_n_times_load_sequence = %r, literal accumulation gives %r" % (seq, want_seq), "traversals")
    if not _close(cyc, want_cyc, rt):
        raise V("lifetime_n_cycles = %r, literal accumulation gives %r traversals x %d hystereses = %r" % (cyc, want_seq, n2, want_cyc), "cycles")


# =====================================================================================================================
# 4. safety index
# =====================================================================================================================
_pa = st.one_of(_lg(1e-12, 0.5), _lg(1e-12, 1e-6), st.floats(0.4, 0.5), st.floats(0.0, 0.5, exclude_min=True), st.floats(0.3, 0.48), st.sampled_from([0.5, 1e-12, 7.2e-5, 2.5e-2, 0.23]),
                st.floats(1e-12, 0.5).map(lambda x: float(np.nextafter(x, 0))), _lg(1e-100, 1e-12))


@subcheck(PROP, "safety_index", strategy=lambda tier: _pa.map(lambda p: {"P_A": p}), quick=1600, thorough=60000,
          doc="compute_beta(P_A) == -Phi^-1(P_A) (|d beta| <= 1e-7) and Phi(-beta) == P_A (relative 1e-6)")
def safety_index(case, ctx):
    from scipy.special import ndtri
    dp, dc, pc = _imports()
    P = case["P_A"]
    ext = P < 1e-12
    ctx.label("P_A<1e-12(extension)" if ext else "P_A<1e-6" if P < 1e-6 else "P_A>0.4" if P > 0.4 else "mid")
    try:
        with warnings.catch_warnings():
            warnings.simplefilter("ignore")
            b = float(pc.compute_beta(P))
    except RuntimeError:
        if ext:
            ctx.tolerate("RuntimeError for P_A < 1e-12")
            return
        # FC09_b: for 0.48 <= P_A < 0.5 (root within 0.05 of 0) MINPACK's hybr sporadically (~1 % of the band) stops with
        # "not making good progress" on the non-smooth residual |Phi(x) - P_A| although it sits on the root
        if 0.48 <= P < 0.5:
            ctx.label("in_FC09_b_band_raised")
            if ctx.known("FC09_b"):
                return
        raise
    if P < 1e-6 or P > 0.4:
        ctx.nontrivial()
    want = -float(ndtri(P))
    # the root finder stops at a relative step of 1e-10; 1e-7 absolute leaves three digits beyond any tabulated beta
    if not abs(b - want) <= 1e-7:
        raise Violation("compute_beta(%r) = %r, -Phi^-1 = %r" % (P, b, want), bucket="beta:value")
    back = 0.5 * math.erfc(b / math.sqrt(2.0))
    if not abs(back - P) <= 1e-6 * P:
        raise Violation("Phi(-compute_beta(%r)) = %r" % (P, back), bucket="beta:roundtrip")


# =====================================================================================================================
# 5. load safety factors
# =====================================================================================================================
@st.composite
def _gamma_case(draw, tier):
    PA = draw(st.sampled_from([p for p, _ in BETA_TABLE] + [1e-4, 0.1]))
    PL = draw(st.sampled_from([2.5, 50, 50.0, 2.5000001]))
    s = draw(st.one_of(st.just(0.0), _lg(1e-3, 100.0)))
    lsd = draw(st.one_of(st.just(0.0), _lg(1e-4, 1.0)))
    layout = draw(st.sampled_from(["series", "series", "mesh", "mesh_2col", "mesh_2col"]))
    n = draw(st.integers(1, 8))
    k = n * (3 if layout.startswith("mesh") else 1)
    vals = draw(st.lists(st.one_of(st.floats(-1000.0, 1000.0), st.integers(-500, 500).map(float)), min_size=k, max_size=k))
    if max(abs(v) for v in vals) == 0.0:
        vals[0] = 1.0
    c = {"P_A": PA, "P_L": PL, "s_L": s, "LSD_s": lsd, "layout": layout, "load": vals}
    if layout == "mesh_2col":
        # a second field on the mesh (stress gradient, temperature, coordinate): "the load is given in the first column"
        scale = draw(st.sampled_from([1e-3, 1.0, 50.0, 1e4]))
        c["second_column"] = [scale * v for v in draw(st.lists(st.floats(-1.0, 1.0), min_size=k, max_size=k))]
        if draw(st.booleans()):
            c["second_column"][draw(st.integers(0, k - 1))] = -3.0 * scale * max(abs(v) for v in vals)    # surely beyond every load
    return c


def _beta_from_table(PA):
    for p, b in BETA_TABLE:
        if abs(PA - p) <= 1e-8 + 1e-5 * p:      # np.isclose defaults, as documented ("close to any of the tabulated values")
            return b
    return None


@subcheck(PROP, "load_safety_factors", strategy=_gamma_case, quick=1600, thorough=40000,
          doc="gamma_L normal: (L_max + alpha)/L_max, alpha = (0.7 beta - 2) s_L [P_L 2.5] or 0.7 beta s_L [P_L 50]; lognormal: max(1, 10^alpha); "
              "blanket: 1.1 / 1.0; scaled_load_sequence == gamma_L * load; L_max = largest |load| of a Series, a one-column mesh, or the FIRST column "
              "of a mesh with a second field (which stays unscaled)")
def load_safety_factors(case, ctx):
    _imports()
    vals = case["load"]
    if case["layout"] == "series":
        load = pd.Series(vals, name="load")
    else:
        n = len(vals) // 3
        data = {"S_v": vals}
        if case["layout"] == "mesh_2col":
            data["G"] = case["second_column"]
            ctx.label("second_column_exceeds_load" if max(abs(v) for v in case["second_column"]) > max(abs(v) for v in vals) else "second_column_small")
        load = pd.DataFrame(data, index=pd.MultiIndex.from_product([range(n), range(3)], names=["load_step", "node_id"]))
    Lmax = max(abs(v) for v in vals)          # the load is the first column, whatever else the mesh carries
    beta = _beta_from_table(case["P_A"])
    is25 = abs(case["P_L"] - 2.5) <= 1e-8 + 1e-5 * 2.5
    ctx.label("P_L=2.5" if is25 else "P_L=50", case["layout"], "P_A_in_table" if beta is not None else "P_A_not_in_table")
    par = lambda: pd.Series({"P_A": case["P_A"], "P_L": case["P_L"], "s_L": case["s_L"], "LSD_s": case["LSD_s"]})
    # the tabulated beta agrees with the safety index (self-consistency of the two halves of the statement)
    if beta is not None and abs(beta - (-_ndtri(case["P_A"]))) > 6e-3:
        raise Violation("harness table: beta(%r) = %r vs -Phi^-1 = %r" % (case["P_A"], beta, -_ndtri(case["P_A"])), bucket="gamma:table")
    results = {}
    for name in ("fkm_safety_normal_from_stddev", "fkm_safety_lognormal_from_stddev", "fkm_safety_blanket"):
        acc = getattr(load, name)
        try:
            g = acc.gamma_L(par())
            scaled = acc.scaled_load_sequence(par())
        except ValueError:
            if beta is None and name != "fkm_safety_blanket":
                ctx.tolerate("ValueError: P_A not tabulated")
                continue
            raise
        results[name] = (float(g), scaled)
    if beta is None:
        if set(results) != {"fkm_safety_blanket"}:
            raise Violation("P_A = %r is not tabulated but gamma_L was returned: %r" % (case["P_A"], {k: v[0] for k, v in results.items()}), bucket="gamma:untabulated")
    else:
        if is25 and (case["s_L"] > 0 or case["LSD_s"] > 0):
            ctx.nontrivial()
        a = (0.7 * beta - 2.0) if is25 else 0.7 * beta
        want = {"fkm_safety_normal_from_stddev": (Lmax + a * case["s_L"]) / Lmax,
                "fkm_safety_lognormal_from_stddev": max(1.0, 10.0 ** (a * case["LSD_s"]))}
        for k, w in want.items():
            if not _close(results[k][0], w, 1e-12):
                raise Violation("%s.gamma_L(P_A=%r, P_L=%r, s_L=%r, LSD_s=%r; L_max=%r) = %r, guideline formula gives %r"
                                % (k, case["P_A"], case["P_L"], case["s_L"], case["LSD_s"], Lmax, results[k][0], w), bucket="gamma:" + k)
    wb = 1.1 if is25 else 1.0
    if results["fkm_safety_blanket"][0] != wb:
        raise Violation("blanket gamma_L(P_L=%r) = %r, expected %r" % (case["P_L"], results["fkm_safety_blanket"][0], wb), bucket="gamma:blanket")
    for k, (g, scaled) in results.items():
        if case["layout"] == "mesh_2col":
            # scaled_by_constant: "only scales the first column ... and keeps the other columns unchanged"
            if list(scaled.columns) != ["S_v", "G"] or scaled["G"].tolist() != [float(v) for v in case["second_column"]]:
                raise Violation("%s.scaled_load_sequence altered the second column of the mesh" % k, bucket="gamma:second_column")
            scaled = scaled[["S_v"]]
        got = np.asarray(scaled, dtype=float).reshape(-1)
        wantv = np.asarray(vals, dtype=float) * g
        if got.shape != wantv.shape or not np.allclose(got, wantv, rtol=1e-12, atol=0.0, equal_nan=True):
            raise Violation("%s.scaled_load_sequence != gamma_L * load: %r vs %r" % (k, got.tolist(), wantv.tolist()), bucket="gamma:scaled:" + k)
        if list(scaled.index) != list(load.index):
            raise Violation("%s.scaled_load_sequence changed the index" % k, bucket="gamma:index")


def _ndtri(p):
    from scipy.special import ndtri
    return float(ndtri(p))
