"""C10 - FKM-nonlinear assessment: batch independence, sample insensitivity, monotonicity."""

import math

import numpy as np
import pandas as pd
from hypothesis import strategies as st

from ..core import Violation, subcheck, nontrivial_rule, assumptions
from . import _hcm  # noqa: F401  (loads the kernel before pylife.stress.rainflow is imported)
from . import c04

import pylife.strength.fkm_nonlinear.assessment_nonlinear_standard as ANS  # noqa: E402

nontrivial_rule("C10", "Non-trivial: at least one of the compared runs has a finite lifetime (P_RAM or P_RAJ); for batch "
                       "independence additionally >= 2 points with different load ratios.")
assumptions("C10", [
    "per-point load maxima are requested (max_load_independently_for_nodes=True), as the property says",
    "P_RAM results of two runs that use separately solved look-up tables agree to the notch-law solver's stop criterion "
    "(rtol 1e-5 in stress): lifetimes are compared with rtol 5e-3; runs that use the very same tables are compared with rtol 1e-9",
    "the P_RAJ damage sum is evaluated on n_bins logarithmic classes of the damage parameter: 'equal' / 'does not increase' is asserted up to "
    "one class, i.e. a factor exp(ln(P_klass_max/P_D_e)/n_bins/|d_RAJ|) in N, computed from the run's own parameters (n_bins = 1000 here)",
    "an infinite-life verdict may differ between two compared runs only if the largest damage parameter is within the same tolerance of the endurance value",
])

N_BINS = 1000


@st.composite
def _params(draw):
    group = draw(st.sampled_from(["Steel", "SteelCast", "Al_wrought"]))
    R_m = float(draw(st.sampled_from([300, 500, 800, 1200] if group != "Al_wrought" else [200, 350, 500])))
    p = {
        "MatGroupFKM": group, "FinishingFKM": "none", "R_m": R_m,
        "P_A": draw(st.sampled_from([0.5, 2.3e-1, 1e-3, 7.2e-5, 1e-5])),
        "P_L": draw(st.sampled_from([2.5, 50])),
        "c": draw(st.sampled_from([1.0, 1.4, 0.5])),
        "A_sigma": draw(st.sampled_from([339.4, 50.0, 2000.0])),
        "A_ref": 500.0,
        "G": draw(st.sampled_from([2 / 15, 0.01, 1.0, 8.0])),
        "K_p": draw(st.sampled_from([1.3, 2.0, 3.5])),
        "n_bins": N_BINS,
        "max_load_independently_for_nodes": True,
    }
    if draw(st.booleans()):
        p["R_z"] = float(draw(st.sampled_from([1.0, 25.0, 250.0])))
    else:
        p["K_RP"] = draw(st.sampled_from([1.0, 0.9, 0.75]))
    sc = draw(st.sampled_from(["none", "none", "s_L", "LSD_s"]))
    if sc == "s_L":
        p["s_L"] = float(draw(st.sampled_from([5.0, 10.0])))
    elif sc == "LSD_s":
        p["LSD_s"] = draw(st.sampled_from([0.02, 0.05]))
    return p


@st.composite
def _cases(draw, tier):
    p = draw(_params())
    base = draw(c04._sequences(tier))
    seq = base["seq"][:10 if tier == "quick" else 24]
    if len(set(seq)) < 2:
        seq = seq + [seq[-1] + 1.0]
    m = max(abs(x) for x in seq)
    # peak local stress c*L relative to R_m: from near the endurance limit to strongly plastic
    level = draw(st.sampled_from([0.4, 0.7, 1.0, 1.5]))
    unit = 2.0 ** math.floor(math.log2(level * p["R_m"] / p["c"] / m))
    return {"params": p, "seq": seq, "unit": unit}


def _series(p, node_ids=None):
    q = dict(p)
    kind = q.pop("flag_kind", "bool")
    if q.get("max_load_independently_for_nodes") is True and kind != "bool":
        # the same request as a numpy bool (a DataFrame cell, a comparison result) or as the integer 1
        q["max_load_independently_for_nodes"] = np.bool_(True) if kind == "np_bool" else 1
    if isinstance(q.get("G"), list):
        ids = list(range(len(q["G"]))) if node_ids is None else list(node_ids)
        q["G"] = pd.Series(q["G"], index=pd.Index(ids, name="node_id"), dtype=np.float64)
    else:
        q["G"] = float(q["G"])
    return pd.Series(q)


def assess(p, loads, multi=None, node_ids=None):
    """loads: list (single point) or list of lists per point (multi); node_ids: labels of the points in row order
    (default 0..n-1) - labels only, the position of a point in the batch is its position in every load step."""
    if multi is None:
        ls = pd.Series(np.asarray(loads, dtype=np.float64))
    else:
        n = len(multi)
        ids = list(range(n)) if node_ids is None else list(node_ids)
        idx = pd.MultiIndex.from_product([range(len(multi[0])), ids], names=["load_step", "node_id"])
        ls = pd.Series([multi[j][i] for i in range(len(multi[0])) for j in range(n)], index=idx, dtype=np.float64)
    return ANS.perform_fkm_nonlinear_assessment(_series(p, node_ids), ls, calculate_P_RAM=True, calculate_P_RAJ=True)


def _val(x, j=None):
    if j is not None and hasattr(x, "__len__"):
        x = np.asarray(x).ravel()[j]
    elif hasattr(x, "__len__"):
        x = np.asarray(x).ravel()[0]
    return x


def _raj_class_factor(res, j=None):
    """One logarithmic class of the P_RAJ damage sum, expressed as a factor in N.  The class limits are
    attributes that the library attaches to its assessment_parameters object (read-only use, for the tolerance)."""
    ap = res["assessment_parameters"]
    dp = res.get("P_RAJ_damage_parameter")
    src = None
    for cand in (ap, getattr(dp, "_assessment_parameters", None)):
        if cand is not None and hasattr(cand, "P_RAJ_klass_max") and hasattr(cand, "P_RAJ_D_e"):
            src = cand
            break
    d = abs(float(ap["d_RAJ"]))
    nb = int(ap["n_bins"])
    if src is None:
        # conservative fall-back from public values: classes span at most [P_D_0/10, 100 * largest P_RAJ]
        col = dp.collective
        kmax = 100.0 * float(col["P_RAJ"].max())
        pde = float(np.min(np.asarray(ap["P_RAJ_D_0"], dtype=float))) / 10.0
    else:
        kmax = float(np.max(np.asarray(src.P_RAJ_klass_max, dtype=float)))
        pde = float(np.min(np.asarray(src.P_RAJ_D_e, dtype=float)))
    if not (kmax > pde > 0):
        return 1.0
    return math.exp(math.log(kmax / pde) / nb / d)


def _cmp_equal(kind, a, b, tol_factor, what, info):
    """a, b lifetimes (may be inf). Equal up to factor tol_factor."""
    a, b = float(a), float(b)
    if a == b:
        return
    if math.isinf(a) or math.isinf(b) or a <= 0 or b <= 0:
        raise Violation("%s %s: %r vs %r (%s)" % (kind, what, a, b, info), bucket="%s:%s" % (kind, what))
    if max(a, b) / min(a, b) > tol_factor:
        raise Violation("%s %s: %r vs %r, ratio %.6g exceeds %.6g (%s)" % (kind, what, a, b, max(a, b) / min(a, b), tol_factor, info),
                        bucket="%s:%s" % (kind, what))


def _finite(res, j=None):
    return any(math.isfinite(float(_val(res[k], j))) for k in ("P_RAM_lifetime_n_cycles", "P_RAJ_lifetime_n_cycles"))


def _margin_small(res, kind, j, tol):
    """is the largest damage parameter within tol of the endurance value?"""
    try:
        if kind == "P_RAM":
            col = res["P_RAM_collective"] if "P_RAM_collective" in res else res["P_RAM_damage_calculator"].collective
            pmax = float(col["P_RAM"].groupby("assessment_point_index").max().iloc[j or 0])
            lim = float(_val(res["assessment_parameters"]["P_RAM_D"], j))
        else:
            col = res["P_RAJ_damage_parameter"].collective
            pmax = float(col["P_RAJ"].groupby("assessment_point_index").max().iloc[j or 0])
            lim = float(_val(res["assessment_parameters"]["P_RAJ_D_0"], j))
        return abs(pmax / lim - 1.0) <= tol
    except Exception:  # noqa
        return False


def _raj_rows(res, j):
    col = res["P_RAJ_damage_parameter"].collective
    if "assessment_point_index" in col.index.names:
        col = col.xs(j or 0, level="assessment_point_index")
    return col


def raj_case_names_differ(ra, ja, rb, jb):
    """F21 class: the crack-opening case (1, 2, 3, 4) chosen for some hysteresis differs between the two runs.
    The cases are selected by strict comparisons of strains that are equal up to the notch-law solver's noise
    (the largest hysteresis of the second pass returns to the largest strain of the history)."""
    try:
        a, b = list(_raj_rows(ra, ja)["case_name"]), list(_raj_rows(rb, jb)["case_name"])
    except Exception:  # noqa
        return False
    return a != b


def raj_crack_closes_under_scaling(lo, hi):
    """F17_b class: some hysteresis damages (P_RAJ > 0) in the less loaded run and has P_RAJ == 0 (crack stays closed)
    in the more loaded one."""
    try:
        a, b = list(_raj_rows(lo, None)["P_RAJ"]), list(_raj_rows(hi, None)["P_RAJ"])
    except Exception:  # noqa
        return False
    return len(a) == len(b) and any(x > 0 and y == 0 for x, y in zip(a, b))


def compare_results(ra, ja, rb, jb, same_tables, info, ctx, tag):
    for kind in ("P_RAM", "P_RAJ"):
        if kind == "P_RAM":
            tol = 1.0 + (1e-9 if same_tables else 5e-3)
        else:
            tol = max(_raj_class_factor(ra), _raj_class_factor(rb)) * (1.0 + (1e-9 if same_tables else 5e-3))
        ia, ib = bool(_val(ra[kind + "_is_life_infinite"], ja)), bool(_val(rb[kind + "_is_life_infinite"], jb))
        try:
            if ia != ib:
                if not same_tables and (_margin_small(ra, kind, ja, 1e-3) or _margin_small(rb, kind, jb, 1e-3)):
                    ctx.tolerate("%s verdict flips within solver tolerance of the endurance value" % kind)
                    continue
                raise Violation("%s %s_is_life_infinite: %r vs %r (%s)" % (tag, kind, ia, ib, info), bucket="%s:%s:verdict" % (tag, kind))
            for key in ("_lifetime_n_cycles", "_lifetime_n_times_load_sequence"):
                _cmp_equal(tag, _val(ra[kind + key], ja), _val(rb[kind + key], jb), tol, kind + key, info)
        except Violation:
            if kind == "P_RAJ" and not same_tables and raj_case_names_differ(ra, ja, rb, jb) and ctx.known("F21"):
                continue
            raise


# ---------------------------------------------------------------- (i) batch independence
@st.composite
def _batch_cases(draw, tier):
    case = draw(_cases(tier))
    # loads i/m with a prime m: loads and ranges other than +-max, +-2max (exact for every point) stay away
    # from the class edges of the look-up tables, where the class of a point would depend on rounding
    m = draw(st.sampled_from([37, 41, 43]))
    seq = draw(st.lists(st.integers(-m, m), min_size=2, max_size=9 if tier == "quick" else 20))
    seq.insert(draw(st.integers(0, len(seq))), m * draw(st.sampled_from([-1, 1])))
    seq = _off_edges([float(x) for x in seq], m)
    case["seq"] = seq
    level = draw(st.sampled_from([0.4, 0.7, 1.0, 1.5]))
    case["unit"] = 2.0 ** math.floor(math.log2(level * case["params"]["R_m"] / case["params"]["c"] / m))
    if draw(st.integers(0, 3)) == 0:
        # low-cycle regime: many large cycles at a multiple of R_m, so that the highest loaded point reaches the damage sum 1
        # within the two recorded passes (the early-failure branch of the damage calculators) next to points that do not
        cyc = draw(st.integers(12, 40 if tier == "quick" else 80))
        seq = []
        for _ in range(cyc):
            a = draw(st.integers(m - 8, m))
            seq += [float(a), -float(draw(st.integers(m - 12, a)))]
        seq[draw(st.integers(0, cyc - 1)) * 2] = float(m)
        case["seq"] = _off_edges(seq, m)
        level = draw(st.sampled_from([2.0, 3.0, 4.0]))
        case["unit"] = 2.0 ** math.floor(math.log2(level * case["params"]["R_m"] / case["params"]["c"] / m))
        case["lcf"] = True
    n = draw(st.integers(2, 4))
    factors = [1.0] + [draw(st.one_of(st.sampled_from([0.9, 0.75, 0.5, 0.37, 0.3, 0.2]), st.floats(0.15, 1.0))) for _ in range(n - 1)]
    order = list(draw(st.permutations(range(n))))
    case["factors"] = [factors[i] for i in order]
    if draw(st.booleans()):
        # small gradients (n_bm clipped to 1) and large ones (n_bm > 1 and different from point to point)
        case["params"]["G"] = [draw(st.sampled_from([2 / 15, 0.01, 1.0, 0.3, 5.0, 12.0, 30.0])) for _ in range(n)]
    # node ids are labels: 0..n-1, an ascending selection with gaps, or the same ids in the order an unsorted node set gives
    case["params"]["flag_kind"] = draw(st.sampled_from(["bool", "bool", "np_bool", "int"]))
    layout = draw(st.sampled_from(["range", "gaps", "unsorted", "unsorted"]))
    ids = sorted(draw(st.lists(st.integers(1, 5000), min_size=n, max_size=n, unique=True)))
    if layout == "unsorted":
        ids = list(draw(st.permutations(ids)))
    case["node_ids"] = None if layout == "range" else ids
    case["id_layout"] = layout
    return case


def _off_edges(seq, m):
    """Move samples (by whole numbers, deterministically) until no load or range sits on a class edge, see _on_class_edge."""
    seq = list(seq)
    for _ in range(40):
        if not _on_class_edge(seq):
            break
        for i, x in enumerate(seq):
            if abs(x) == m:
                continue
            trial = seq[:i] + seq[i + 1:]
            if _on_class_edge(trial + [float(m)]) or not _on_class_edge(seq):
                continue
            # x takes part in an edge coincidence: nudge it towards zero
            seq[i] = x - 1.0 if x > 0 else x + 1.0
            break
    return seq


def _on_class_edge(seq):
    """A load or a range of the sequence sits on a class edge of the 100-class tables, where the class of a point
    depends on the rounding of its load ratio.  Exact for every point (and therefore allowed): the loads +-max
    themselves, the range between +max and -max, and ranges between +-max and 0."""
    m = max(abs(x) for x in seq)

    def on_edge(v):
        q = abs(v) / m * 100.0
        return v != 0.0 and abs(q - round(q)) < 1e-6

    for x in seq:
        if on_edge(x) and abs(x) != m:
            return True
    for a in seq:
        for b in seq:
            if a == b or not on_edge(a - b):
                continue
            exact = (abs(a) == m and b == 0.0) or (abs(b) == m and a == 0.0) or (abs(a) == m and b == -a)
            if not exact:
                return True
    return False


@subcheck("C10", "batch_independence", strategy=_batch_cases, quick=64, thorough=1500, shards=16,
          doc="point j of a batch (per-point maxima, uniform or per-point G) == point j assessed alone")
def batch_independence(case, ctx):
    p, seq, unit, factors = case["params"], case["seq"], case["unit"], case["factors"]
    if _on_class_edge(seq):
        ctx.skip("a load or range of the sequence sits on a class edge (class would depend on rounding of the load ratio)")
    base = [x * unit for x in seq]
    multi = [[f * x for x in base] for f in factors]
    ctx.label("points=%d" % len(factors), "G_per_point" if isinstance(p["G"], list) else "G_uniform", "node_ids=" + case.get("id_layout", "range"))
    if case.get("lcf"):
        ctx.label("low_cycle_long_sequence")
    try:
        rb = assess(p, None, multi=multi, node_ids=case.get("node_ids"))
    except ValueError as e:
        for j in range(len(factors)):
            pj = dict(p)
            if isinstance(p["G"], list):
                pj["G"] = p["G"][j]
            assess(pj, multi[j])          # every point can be assessed alone ...
        raise Violation("the batch raises %s although every point is assessed alone without error (factors %r, node ids %r, base loads %r)" % (
            str(e).replace("\n", " ")[:200], factors, case.get("node_ids"), base), bucket="batch:raises")
    any_finite = False
    for j, f in enumerate(factors):
        pj = dict(p)
        if isinstance(p["G"], list):
            pj["G"] = p["G"][j]
        ra = assess(pj, multi[j])
        any_finite = any_finite or _finite(ra)
        compare_results(rb, j, ra, None, False, "point %d of factors %r, base loads %r, params %r" % (j, factors, base, p), ctx, "batch")
    if any_finite and len(set(factors)) > 1:
        ctx.nontrivial()
    ctx.label("finite" if any_finite else "all_infinite")


@st.composite
def _batch_sequences(draw, tier):
    case = draw(_batch_cases(tier))
    n = len(case["factors"])
    # a second batch in the same process: same parameters, same number of points, same largest point, other ratios
    second = []
    for f in case["factors"]:
        second.append(f if f == 1.0 else draw(st.sampled_from([0.8, 0.6, 0.45, 0.25])))
    case["factors2"] = second
    return case


@subcheck("C10", "batch_sequence", strategy=_batch_sequences, quick=24, thorough=800, shards=16,
          doc="history of calls: a second batch with the same parameters, number of points and largest point but other load ratios still gives every point its single-run result (no state carried from call to call)")
def batch_sequence(case, ctx):
    p, seq, unit = case["params"], case["seq"], case["unit"]
    if _on_class_edge(seq):
        ctx.skip("a load or range of the sequence sits on a class edge")
    base = [x * unit for x in seq]
    any_finite = False
    for k, factors in enumerate((case["factors"], case["factors2"])):
        multi = [[f * x for x in base] for f in factors]
        rb = assess(p, None, multi=multi, node_ids=case.get("node_ids"))
        if k == 0:
            continue       # the first call only primes whatever state there may be
        for j, f in enumerate(factors):
            pj = dict(p)
            if isinstance(p["G"], list):
                pj["G"] = p["G"][j]
            ra = assess(pj, multi[j])
            any_finite = any_finite or _finite(ra)
            compare_results(rb, j, ra, None, False, "second batch: point %d of factors %r after a batch with %r, base loads %r, params %r" % (
                j, factors, case["factors"], base, p), ctx, "sequence")
    if any_finite and case["factors"] != case["factors2"]:
        ctx.nontrivial()


# ---------------------------------------------------------------- (ii) insensitivity to non-reversal samples
@st.composite
def _refined_cases(draw, tier):
    case = draw(_cases(tier))
    r = draw(c04._refined(tier))
    m = max(abs(x) for x in r["seq"])
    level = draw(st.sampled_from([0.4, 0.7, 1.0, 1.5]))
    case["seq"], case["refined"], case["prepended"] = r["seq"], r["refined"], r["prepended"]
    if draw(st.integers(0, 3)) == 0 and not r["prepended"]:
        # a long plateau at the very end (3-5 equal samples)
        case["refined"] = r["refined"] + [r["refined"][-1]] * draw(st.integers(2, 4))
    case["unit"] = 2.0 ** math.floor(math.log2(level * case["params"]["R_m"] / case["params"]["c"] / m))
    return case


@subcheck("C10", "sample_insensitivity", strategy=_refined_cases, quick=64, thorough=1500, shards=16,
          doc="adding non-reversal samples / repeated values (also at the end and before the first sample) leaves lifetimes and verdicts unchanged")
def sample_insensitivity(case, ctx):
    p, unit = case["params"], case["unit"]
    a = [x * unit for x in case["seq"]]
    b = [x * unit for x in case["refined"]]
    if case["prepended"]:
        # samples before the first one change the very first loading path: outside the relation (see C04)
        ctx.label("prepended")
    ra, rb = assess(p, a), assess(p, b)
    if _finite(ra) and len(b) > len(a):
        ctx.nontrivial()
    ctx.label("finite" if _finite(ra) else "infinite")
    try:
        compare_results(ra, None, rb, None, True, "base %r refined %r params %r" % (a, b, p), ctx, "refine")
    except Violation:
        if (c04.residual_F01_class(case["seq"]) or c04.residual_F01_class(case["refined"])) and ctx.known("F01b"):
            return
        if case["prepended"]:
            ctx.tolerate("prepended samples changed the first loading path (pass-1 damage differs)")
            return
        raise


# ---------------------------------------------------------------- (iii) monotonicity
@st.composite
def _mono_cases(draw, tier):
    case = draw(_cases(tier))
    case["what"] = draw(st.sampled_from(["scale", "scale", "roughness", "P_A"]))
    case["f"] = draw(st.sampled_from([1.0, 1.03125, 1.25, 2.0, 3.0]))
    return case


def _raj_monotonicity_known(tag, lo_res, hi_res, ctx):
    """Known findings on the monotonicity of the P_RAJ lifetime (only consulted when the relation fails)."""
    if tag in ("roughness", "P_A"):
        # F17: lowering the component Woehler curve (rougher surface, smaller P_A) can raise the crack-growth lifetime
        return ctx.known("F17")
    if tag == "scale":
        if raj_crack_closes_under_scaling(lo_res, hi_res):
            return ctx.known("F17_b")
        if raj_case_names_differ(lo_res, None, hi_res, None):
            return ctx.known("F21")
    return False


def _not_increasing(tag, lo_res, hi_res, info, ctx):
    """hi_res is the more severe case: its lifetime must not be larger."""
    for kind in ("P_RAM", "P_RAJ"):
        tol = 1.0 + 1e-9 if kind == "P_RAM" else max(_raj_class_factor(lo_res), _raj_class_factor(hi_res)) * (1.0 + 1e-9)
        a = float(_val(lo_res[kind + "_lifetime_n_cycles"]))
        b = float(_val(hi_res[kind + "_lifetime_n_cycles"]))
        if b > a * tol:
            if kind == "P_RAJ" and _raj_monotonicity_known(tag, lo_res, hi_res, ctx):
                continue
            raise Violation("%s: %s lifetime increases from %r to %r (allowed factor %.6g) %s" % (tag, kind, a, b, tol, info),
                            bucket="mono:%s:%s" % (tag, kind))
        ia, ib = bool(_val(lo_res[kind + "_is_life_infinite"])), bool(_val(hi_res[kind + "_is_life_infinite"]))
        if ib and not ia:
            if kind == "P_RAJ" and _raj_monotonicity_known(tag, lo_res, hi_res, ctx):
                continue
            raise Violation("%s: %s verdict changes from finite to infinite life %s" % (tag, kind, info), bucket="mono:%s:%s:verdict" % (tag, kind))


@subcheck("C10", "monotonicity", strategy=_mono_cases, quick=48, thorough=2000, shards=16,
          doc="scaling loads by f >= 1, a rougher surface, a smaller failure probability never increase the lifetime")
def monotonicity(case, ctx):
    p, unit = dict(case["params"]), case["unit"]
    loads = [x * unit for x in case["seq"]]
    what = case["what"]
    ctx.label(what)
    if what == "scale":
        # a safety margin given as an absolute standard deviation does not scale with the loads
        lo = assess(p, loads)
        try:
            hi = assess(p, [x * case["f"] for x in loads])
        except RuntimeError as e:
            if not str(e).startswith("Failed to converge"):
                raise
            # the scaled-up sequence is refused by the notch-law solver (scipy's secant iteration gives up, e.g. at
            # 3.8 R_m with K_p = 1.3): no lifetime is reported, so there is nothing the property could compare.
            # Convergence of the solvers inside their domain is C06's subject.
            ctx.tolerate("scaled-up loads refused: notch-law solver did not converge")
            ctx.label("scaled_run_refused_by_solver")
            return
        info = "loads %r scaled by %r, params %r" % (loads, case["f"], p)
    elif what == "roughness":
        p1, p2 = dict(p), dict(p)
        p1.pop("K_RP", None); p2.pop("K_RP", None)
        p1["R_z"], p2["R_z"] = 6.3, 100.0
        lo, hi = assess(p1, loads), assess(p2, loads)
        info = "R_z 6.3 -> 100, loads %r params %r" % (loads, p)
    else:
        p1, p2 = dict(p), dict(p)
        p1["P_A"], p2["P_A"] = 1e-3, 1e-5
        lo, hi = assess(p1, loads), assess(p2, loads)
        info = "P_A 1e-3 -> 1e-5, loads %r params %r" % (loads, p)
    if _finite(lo) or _finite(hi):
        ctx.nontrivial()
    _not_increasing(what, lo, hi, info, ctx)


# ---------------------------------------------------------------- (iv) N_10 <= N_50 <= N_90
@subcheck("C10", "quantile_order", strategy=_cases, quick=32, thorough=1500, shards=16,
          doc="P_A = 0.5, P_L = 50: reported N_10 <= N_50 <= N_90 (both damage parameters)")
def quantile_order(case, ctx):
    p = dict(case["params"])
    p["P_A"], p["P_L"] = 0.5, 50
    p.pop("s_L", None); p.pop("LSD_s", None)
    loads = [x * case["unit"] for x in case["seq"]]
    r = assess(p, loads)
    if _finite(r):
        ctx.nontrivial()
    for kind in ("P_RAM", "P_RAJ"):
        keys = [kind + "_lifetime_N_10", kind + "_lifetime_N_50", kind + "_lifetime_N_90"]
        if not all(k in r for k in keys):
            raise Violation("%s: N_10/N_50/N_90 not reported for P_A=0.5, P_L=50 (keys %r)" % (kind, [k for k in keys if k not in r]),
                            bucket="quantile:%s:missing" % kind)
        n10, n50, n90 = (float(_val(r[k])) for k in keys)
        if not (n10 <= n50 * (1 + 1e-12) and n50 <= n90 * (1 + 1e-12)):
            raise Violation("%s: N_10=%r N_50=%r N_90=%r not ordered (loads %r params %r)" % (kind, n10, n50, n90, loads, p),
                            bucket="quantile:%s" % kind)
