"""C11 - Miner damage is linear and agrees with the predicted Gassner lifetime.

Reference model (plain Python, no pyLife): the amplitude of every member is computed from the class limits / from-to values
of the case, the allowable cycles from the closed-form piecewise Basquin curve at 50 % failure probability (what
``cycles(load)`` evaluates by default), damage literally as n_i / N(S_i), and the life of a collective under a Miner rule as
H / sum(h_i / N_rule(S_i)) - the total number of cycles after which the literal damage sum is one.

Floating point: all sums are sums of non-negative terms (condition number 1), each term is a few ``pow`` calls with
exponents <= 2*15-1, so results agree to ~1e-13; comparisons use rtol 1e-9 (DESIGN 3/C11).  Linearity relations compare
the same pyLife numbers up to re-association, rtol 1e-12.
"""

import math

import numpy as np
import pandas as pd
from hypothesis import strategies as st
from scipy.special import ndtri

from ..core import Violation, subcheck, nontrivial_rule, assumptions

import pylife.materiallaws.woehlercurve  # noqa: F401
import pylife.strength.fatigue  # noqa: F401
import pylife.strength.miner  # noqa: F401
import pylife.strength.solidity  # noqa: F401
import pylife.stress.collective  # noqa: F401

PROP = "C11"
RTOL = 1e-9
LIN = 1e-12

nontrivial_rule(PROP, "Non-trivial: the collective has >= 3 occupied members/classes and at least one empty class or at least one "
                      "occupied member below the endurance limit SD (at 50 % failure probability).")
assumptions(PROP, [
    "domain: k_1 in (1,15], k_2 in {absent, inf, k_1, 2k_1-1, k_1*[1,2.5]}, SD in [1,1e4], ND in [1e3,1e8], TN/TS absent or in [1,10], "
    "native failure probability absent, 0.5 or in [0.01,0.99]; collectives with 1..8 range classes (x 1..2 mean classes), from/to "
    "matrices, from/to or range/mean frames; cycle counts 0 or in [1e-3,1e7]; largest class amplitude between 0.3 and 5 SD",
    "cycle counts are float64 or (a third of the cases) whole numbers held as int64 Series / columns; kind hist_rh is the int64 histogram "
    "returned by LoadCollective.range_histogram() for single cycles placed inside the classes (0.1..0.9 of the class width)",
    "frames may carry repeated row labels (a third of the frame cases); a sixth of the collectives has a heavily occupied member 1e-9..5e-6 "
    "(relative) below SD, which is below SD for every clause (no tolerance band wider than 1e-12 around the knee)",
    "at least one member with positive amplitude is occupied (an all-empty collective has no life to predict)",
    "damage and Gassner cycles are evaluated at the default failure probability 0.5 (what Fatigue.damage and gassner_cycles do)",
    "Miner-Haibach Gassner cycles are asserted when the largest class amplitude is >= SD; below SD the docstring promises an "
    "infinite lifetime multiple while the formula returns a finite one - that region is counted (tolerated_by_contract), not asserted",
    "range/mean frames: |mean| <= 100 range, so that from/to reconstruction loses < 1e-13 of the amplitude",
])

Z90 = float(ndtri(0.9))


# --------------------------------------------------------------------------- reference
def _pow(x, y):
    try:
        return math.pow(x, y)
    except OverflowError:
        return math.inf
    except ZeroDivisionError:
        return math.inf


class _RefCurve:
    def __init__(self, c):
        self.k1 = float(c["k_1"])
        k2 = c.get("k_2")
        self.k2 = math.inf if k2 in (None, "inf") else float(k2)
        TN, TS = c.get("TN"), c.get("TS")
        if TN is None and TS is None:
            TN = TS = 1.0
        elif TS is None:
            TS = TN ** (1.0 / self.k1)
        elif TN is None:
            TN = TS ** self.k1
        self.TN, self.TS = TN, TS
        self.p0 = 0.5 if c.get("p0") is None else float(c["p0"])
        dz = 0.0 if self.p0 == 0.5 else -float(ndtri(self.p0))
        self.SD = float(c["SD"]) * 10.0 ** (dz * math.log10(TS) / (2 * Z90))
        self.ND = float(c["ND"]) * 10.0 ** (dz * math.log10(TN) / (2 * Z90)) * (self.SD / float(c["SD"])) ** (-self.k1)

    def k2_of(self, rule):
        return {"own": self.k2, "original": math.inf, "elementary": self.k1, "haibach": 2.0 * self.k1 - 1.0}[rule]

    def N(self, S, rule="own"):
        """allowable cycles at amplitude S (50 %) under a Miner rule"""
        if S <= 0.0:
            return math.inf
        if S >= self.SD:
            return self.ND * _pow(S / self.SD, -self.k1)
        k2 = self.k2_of(rule)
        if math.isinf(k2):
            return math.inf
        return self.ND * _pow(S / self.SD, -k2)

    def damage(self, amps, cyc, rule="own"):
        return [0.0 if n == 0 else n / self.N(S, rule) for S, n in zip(amps, cyc)]

    def life(self, amps, cyc, rule):
        d = math.fsum(self.damage(amps, cyc, rule))
        return math.inf if d == 0 else math.fsum(cyc) / d


def _pd_curve(c):
    d = {"k_1": c["k_1"], "SD": c["SD"], "ND": c["ND"]}
    if c.get("k_2") == "inf":
        d["k_2"] = np.inf
    elif c.get("k_2") is not None:
        d["k_2"] = c["k_2"]
    for key in ("TN", "TS"):
        if c.get(key) is not None:
            d[key] = c[key]
    if c.get("p0") is not None:
        d["failure_probability"] = c["p0"]
    return pd.Series(d)


def _loc(iv, loc):
    l, r = iv
    return l if loc == "left" else r if loc == "right" else (l + r) / 2.0


def ref_amplitudes(coll, factor=None):
    """amplitude of every member, from the definition of the collective kind"""
    f = coll["factor"] if factor is None else factor
    kind, loc = coll["kind"], coll.get("loc", "mid")
    out = []
    for row in coll["rows"]:
        if kind in ("hist_range", "hist_range_mean", "hist_rh"):
            a = _loc(row[0], loc) / 2.0
        elif kind == "hist_from_to":
            a = abs(_loc(row[0], loc) - _loc(row[1], loc)) / 2.0
        elif kind == "coll_from_to":
            a = abs(row[0] - row[1]) / 2.0
        else:   # coll_range_mean
            a = row[0] / 2.0
        out.append(a * f)
    return out


def ref_cycles(coll):
    return [1.0] * len(coll["rows"]) if coll["cycles"] is None else [float(x) for x in coll["cycles"]]


def build(coll, cycles=None, rows=None, force_cycles=False):
    """-> pyLife load collective accessor for the members ``rows`` (default all) with the given cycle counts."""
    kind, loc, f = coll["kind"], coll.get("loc", "mid"), coll["factor"]
    sel = list(range(len(coll["rows"]))) if rows is None else list(rows)
    api = coll.get("scale_api", False)
    g = 1.0 if api else f
    R = [coll["rows"][i] for i in sel]
    cyc = coll["cycles"] if cycles is None else cycles
    cyc = None if cyc is None else [float(cyc[i]) for i in sel]
    # integer-typed counts (int64 Series / column) whenever the case says so and the counts are the (integral) original ones
    as_int = cycles is None and cyc is not None and coll.get("counts") == "int"
    dtype = np.int64 if as_int else float
    if cyc is None and force_cycles:
        cyc = [1.0] * len(sel)
    if kind == "hist_rh" and cycles is None and rows is None:
        return _from_range_histogram(coll, g, f if api else None, loc)
    if kind == "hist_rh":
        kind = "hist_range"

    def iv(k, name):
        return pd.IntervalIndex.from_arrays([r[k][0] * g for r in R], [r[k][1] * g for r in R], name=name)

    if kind == "hist_range":
        obj = pd.Series(cyc, index=iv(0, "range"), name="cycles", dtype=dtype)
    elif kind == "hist_range_mean":
        obj = pd.Series(cyc, index=pd.MultiIndex.from_arrays([iv(0, "range"), iv(1, "mean")], names=["range", "mean"]), name="cycles", dtype=dtype)
    elif kind == "hist_from_to":
        obj = pd.Series(cyc, index=pd.MultiIndex.from_arrays([iv(0, "from"), iv(1, "to")], names=["from", "to"]), name="cycles", dtype=dtype)
    else:
        a, b = ("from", "to") if kind == "coll_from_to" else ("range", "mean")
        d = {a: [r[0] * g for r in R], b: [r[1] * g for r in R]}
        if cyc is not None:
            d["cycles"] = np.array(cyc, dtype=dtype)
        labels = coll.get("labels") or list(range(len(coll["rows"])))
        obj = pd.DataFrame(d, index=pd.Index([labels[i] for i in sel]))
    lc = obj.load_collective
    if api:
        lc = lc.scale(f)
    if kind.startswith("hist") and loc != "mid":
        lc = lc.use_class_right() if loc == "right" else lc.use_class_left()
    return lc


def _from_range_histogram(coll, g, scale, loc):
    """the histogram as pyLife itself produces it: single cycles counted by LoadCollective.range_histogram() (int64 counts)"""
    R = coll["rows"]
    edges = [R[0][0][0] * g] + [r[0][1] * g for r in R]
    rng = [(r[0][0] + (r[0][1] - r[0][0]) * t) * g for r, ts in zip(R, coll["members"]) for t in ts]
    df = pd.DataFrame({"from": [-x / 2.0 for x in rng], "to": [x / 2.0 for x in rng]})
    bins = pd.IntervalIndex.from_breaks(edges) if coll.get("bins_as_intervals") else edges
    lc = df.load_collective.range_histogram(bins)
    if scale is not None:
        lc = lc.scale(scale)
    if loc != "mid":
        lc = lc.use_class_right() if loc == "right" else lc.use_class_left()
    return lc


# --------------------------------------------------------------------------- strategies
def _pow10(lo, hi):
    return st.floats(lo, hi, allow_nan=False).map(lambda e: float(10.0 ** e))


@st.composite
def curves(draw):
    k1 = draw(st.one_of(st.sampled_from([2.0, 3.0, 5.0, 6.0, 7.0]), st.floats(1.01, 15.0, allow_nan=False)))
    kind = draw(st.sampled_from(["inf", "absent", "k_1", "haibach", "float"]))
    k2 = {"inf": "inf", "absent": None, "k_1": k1, "haibach": 2.0 * k1 - 1.0}.get(kind)
    if kind == "float":
        k2 = k1 * draw(st.floats(1.0, 2.5, allow_nan=False))
    SD = draw(st.one_of(st.sampled_from([100.0, 125.0, 200.0]), _pow10(0, 4)))
    ND = draw(st.one_of(st.sampled_from([1e6, 2e6]), _pow10(3, 8)))
    sk = draw(st.sampled_from(["absent", "absent", "TN", "TS", "both"]))
    T = st.one_of(st.sampled_from([1.0, 1.25, 4.0]), st.floats(1.0, 10.0, allow_nan=False))
    TN = draw(T) if sk in ("TN", "both") else None
    TS = draw(st.one_of(st.sampled_from([1.0, 1.1]), st.floats(1.0, 2.0, allow_nan=False))) if sk in ("TS", "both") else None
    p0 = draw(st.sampled_from([None, None, 0.5, "x"]))
    if p0 == "x":
        p0 = draw(st.one_of(st.sampled_from([0.1, 0.9, 0.025]), st.floats(0.01, 0.99, allow_nan=False)))
    return {"k_1": k1, "k_2": k2, "SD": SD, "ND": ND, "TN": TN, "TS": TS, "p0": p0}


@st.composite
def _edges(draw, n):
    """n+1 increasing class limits in [0,1], regular or irregular, first limit 0 or positive"""
    if draw(st.booleans()):
        lo = draw(st.sampled_from([0.0, 0.0, 0.1, 0.5]))
        return [lo + (1.0 - lo) * i / n for i in range(n + 1)]
    w = draw(st.lists(st.floats(0.02, 1.0, allow_nan=False), min_size=n + 1, max_size=n + 1))
    if draw(st.booleans()):
        w[0] = 0.0
    tot, acc, out = sum(w), 0.0, []
    for x in w:
        acc += x
        out.append(acc / tot)
    return out


COUNT = st.one_of(st.integers(1, 1000).map(float), _pow10(-3, 7), _pow10(0, 7).map(lambda x: float(round(x))))


@st.composite
def _cycles(draw, n, amps, need_empty=None):
    """non-negative counts; the pattern of empty classes is forced; spectra mostly fall with the amplitude"""
    shape = draw(st.sampled_from(["free", "falling", "falling"]))
    cyc = [draw(COUNT) for _ in range(n)]
    if shape == "falling":
        order = sorted(range(n), key=lambda i: amps[i])
        vals = sorted(cyc, reverse=True)
        for rank, i in enumerate(order):
            cyc[i] = vals[rank]
    pattern = need_empty or draw(st.sampled_from(["none", "top", "top", "bottom", "middle", "random", "top+bottom"]))
    by_amp = sorted(range(n), key=lambda i: amps[i])
    empty = set()
    if n >= 2:
        if "top" in pattern:
            empty |= set(by_amp[-draw(st.integers(1, max(1, n // 3))):])
        if "bottom" in pattern:
            empty |= set(by_amp[:draw(st.integers(1, max(1, n // 3)))])
        if pattern == "middle" and n >= 3:
            empty.add(by_amp[draw(st.integers(1, n - 2))])
        if pattern == "random":
            empty |= set(i for i in range(n) if draw(st.booleans()))
    positive = [i for i in range(n) if amps[i] > 0]
    if not [i for i in positive if i not in empty]:      # keep one occupied member with positive amplitude
        empty.discard(positive[-1] if "top" not in pattern else positive[0])
    for i in empty:
        cyc[i] = 0.0
    return cyc, pattern


LEVEL = st.one_of(st.sampled_from([0.3, 0.9, 1.0, 1.1, 2.0, 5.0]), st.floats(0.3, 5.0, allow_nan=False), st.floats(1.0, 3.0, allow_nan=False))


@st.composite
def collectives(draw, curve, kinds=None, need_empty=None, level=None):
    kind = draw(st.sampled_from(kinds or ["hist_range", "hist_range", "hist_range_mean", "hist_from_to", "coll_from_to", "coll_range_mean", "hist_rh"]))
    coll = {"kind": kind}
    if kind in ("hist_range", "hist_range_mean", "hist_rh"):
        n = draw(st.integers(1, 8))
        e = draw(_edges(n))
        loc = draw(st.sampled_from(["mid", "mid", "right", "left"]))
        if loc == "left" and e[0] == 0.0:
            e[0] = e[1] / 4.0
        rng = [[e[i], e[i + 1]] for i in range(n)]
        if kind in ("hist_range", "hist_rh"):
            rows = [[r] for r in rng]
        else:
            m = draw(st.integers(1, 2))
            me = sorted(draw(st.lists(st.floats(-2.0, 2.0, allow_nan=False), min_size=m + 1, max_size=m + 1, unique=True)))
            rows = [[r, [me[j], me[j + 1]]] for r in rng for j in range(m)]
        coll.update(loc=loc, rows=rows)
    elif kind == "hist_from_to":
        n = draw(st.integers(2, 4))
        e = draw(_edges(n))
        loc = draw(st.sampled_from(["mid", "mid", "right", "left"]))
        cls = [[e[i], e[i + 1]] for i in range(n)]
        pairs = [(i, j) for i in range(n) for j in range(n)]
        keep = draw(st.lists(st.sampled_from(pairs), min_size=2, max_size=8, unique=True))
        if all(i == j for i, j in keep):
            keep.append((0, n - 1))
        coll.update(loc=loc, rows=[[cls[i], cls[j]] for i, j in keep])
    else:
        n = draw(st.integers(1, 8))
        amp = draw(st.lists(st.one_of(st.floats(0.01, 1.0, allow_nan=False), st.sampled_from([0.25, 0.5, 1.0])), min_size=n, max_size=n))
        mean = [a * draw(st.one_of(st.just(0.0), st.floats(-50.0, 50.0, allow_nan=False))) for a in amp]
        if kind == "coll_from_to":
            rows = [[m - a, m + a] if draw(st.booleans()) else [m + a, m - a] for a, m in zip(amp, mean)]
        else:
            rows = [[2.0 * a, m] for a, m in zip(amp, mean)]
        # row labels: a permutation, or repeated labels as pd.concat() of several rainflow results leaves them
        if draw(st.integers(0, 2)) == 0 and n >= 2:
            labels = [draw(st.integers(0, (n - 1) // 2)) for _ in range(n)]
            coll["dup_labels"] = len(set(labels)) < n
        else:
            labels = list(draw(st.permutations(list(range(n)))))
        coll.update(rows=rows, labels=labels)
    coll["factor"] = 1.0
    rel = ref_amplitudes(coll)
    top = max(rel)
    # largest member amplitude = level * SD(50 %)
    lvl = draw(level or LEVEL)
    coll["factor"] = lvl * _RefCurve(curve).SD / top
    # near tie: one member lies 1e-9 .. 5e-6 (relative) below the endurance limit - clearly below, far outside rounding noise
    near = None
    if draw(st.integers(0, 5)) == 0:
        cand = [i for i, a in enumerate(rel) if a >= 0.05 * top]
        near = cand[draw(st.integers(0, len(cand) - 1))]
        eps = 10.0 ** (-draw(st.floats(5.3, 9.0, allow_nan=False)))
        coll["factor"] = (1.0 - eps) * _RefCurve(curve).SD / rel[near]
        coll["near_knee"] = near
    coll["scale_api"] = draw(st.booleans())
    if kind.startswith("coll") and need_empty is None and draw(st.integers(0, 3)) == 0:
        coll["cycles"], coll["pattern"] = None, "unit"
    else:
        coll["cycles"], coll["pattern"] = draw(_cycles(len(coll["rows"]), rel, need_empty))
    if near is not None and coll["cycles"] is not None:
        coll["cycles"][near] = max(coll["cycles"][near], float(draw(st.sampled_from([1e3, 1e5, 1e7]))))     # heavily occupied
    # type of the counts: float64, or int64 (then the counts are whole numbers)
    coll["counts"] = "float"
    if kind == "hist_rh":
        # every class holds as many single cycles as its count (1..6); the cycles lie well inside their class
        coll["members"] = [[] if x == 0 else draw(st.lists(st.floats(0.1, 0.9, allow_nan=False), min_size=1, max_size=6)) for x in coll["cycles"]]
        coll["cycles"] = [float(len(m)) for m in coll["members"]]
        coll["counts"] = "int"
        coll["bins_as_intervals"] = draw(st.booleans())
    elif coll["cycles"] is not None and draw(st.integers(0, 2)) == 0:
        coll["cycles"] = [float(math.ceil(x)) for x in coll["cycles"]]
        coll["counts"] = "int"
    return coll


@st.composite
def base_cases(draw, tier, **kw):
    c = draw(curves())
    return {"curve": c, "coll": draw(collectives(c, **kw))}


# --------------------------------------------------------------------------- helpers
def _describe(case, ctx):
    """labels + non-trivial rule; returns (ref curve, amplitudes, cycles)"""
    c, coll = case["curve"], case["coll"]
    ref = _RefCurve(c)
    amps, cyc = ref_amplitudes(coll), ref_cycles(coll)
    occ = [a for a, n in zip(amps, cyc) if n > 0]
    ctx.label("kind:" + coll["kind"], "empty:" + coll["pattern"], "counts:" + coll.get("counts", "float"))
    if coll["kind"].startswith("hist"):
        ctx.label("loc:" + coll["loc"])
    if top_class_empty(case):
        ctx.label("top_class_empty")
    if coll.get("dup_labels"):
        ctx.label("duplicate_row_labels")
    if coll.get("near_knee") is not None:
        ctx.label("member_just_below_SD")
    below = any(a < ref.SD for a in occ)
    if below:
        ctx.label("occupied_below_SD")
    if max(amps) < ref.SD:
        ctx.label("all_below_SD")
    if ref.p0 != 0.5:
        ctx.label("native_p_not_0.5")
    if len(occ) >= 3 and (len(occ) < len(cyc) or below):
        ctx.nontrivial()
    return ref, amps, cyc


def top_class_empty(case):
    """F04 class: the member with the largest amplitude has zero cycles (some occupied member exists by construction)."""
    coll = case["coll"]
    amps, cyc = ref_amplitudes(coll), ref_cycles(coll)
    return max(amps) > max(a for a, n in zip(amps, cyc) if n > 0)


def native_sd_differs(case):
    """FC11_a class: the curve's native failure probability is not 0.5 and TS != 1, so that SD(native) != SD(50 %)."""
    ref = _RefCurve(case["curve"])
    return ref.p0 != 0.5 and ref.TS != 1.0


def _close(a, b, rtol=RTOL):
    if math.isinf(a) or math.isinf(b):
        return a == b
    return abs(a - b) <= rtol * max(abs(a), abs(b))


def _damage(curve_obj, lc, n):
    d = curve_obj.fatigue.damage(lc)
    if not isinstance(d, pd.Series) or len(d) != n:
        raise Violation("damage() returned %s of length %s for %d members" % (type(d).__name__, len(d) if hasattr(d, "__len__") else "?", n),
                        bucket="damage:shape")
    return [float(x) for x in d.values]


def _rule_curve(c, rule):
    obj = _pd_curve(c)
    if rule == "own":
        return obj
    return getattr(obj.woehler, "miner_" + rule)().to_pandas()


# --------------------------------------------------------------------------- 1. damage = n_i / N(S_i)
@subcheck(PROP, "member_damage", strategy=lambda tier: base_cases(tier), quick=2500, thorough=100000,
          doc="damage of every member equals n_i / N(S_i) of the literal reference (own k_2 and the three Miner variants), index kept")
def member_damage(case, ctx):
    c, coll = case["curve"], case["coll"]
    ref, amps, cyc = _describe(case, ctx)
    lc = build(coll)
    got_amp = [float(x) for x in lc.amplitude.values]
    for i, (g, w) in enumerate(zip(got_amp, amps)):
        if not _close(g, w, 1e-12) and abs(g - w) > 1e-12 * max(amps):
            raise Violation("amplitude of member %d is %r, reference %r" % (i, g, w), bucket="member:amplitude")
    for rule in ("own", "original", "elementary", "haibach"):
        got = _damage(_rule_curve(c, rule), build(coll), len(amps))
        want = ref.damage(amps, cyc, rule)
        for i, (g, w) in enumerate(zip(got, want)):
            if abs(amps[i] / ref.SD - 1.0) <= 1e-12:
                # the member sits on the knee up to rounding of SD(50 %): either branch of the curve is a correct answer
                ctx.label("member_on_knee")
                k2 = ref.k2_of(rule)
                branches = [cyc[i] / (ref.ND * _pow(amps[i] / ref.SD, -ref.k1)),
                            cyc[i] / (ref.ND * _pow(amps[i] / ref.SD, -k2)) if math.isfinite(k2) else 0.0]
                if any(_close(g, b) for b in branches):
                    continue
            if math.isnan(g) or not _close(g, w):
                raise Violation("rule %s: damage of member %d (amplitude %r, cycles %r) = %r, reference n/N = %r" %
                                (rule, i, amps[i], cyc[i], g, w), bucket="member:damage:" + rule)


# --------------------------------------------------------------------------- 2. additivity
@st.composite
def _additive_cases(draw, tier):
    case = draw(base_cases(tier))
    n = len(case["coll"]["rows"])
    case["mask"] = draw(st.lists(st.booleans(), min_size=n, max_size=n))
    case["share"] = draw(st.lists(st.floats(0.0, 1.0, allow_nan=False), min_size=n, max_size=n))
    case["rule"] = draw(st.sampled_from(["own", "elementary", "haibach"]))
    return case


@subcheck(PROP, "additive", strategy=_additive_cases, quick=3000, thorough=100000,
          doc="damage(A ++ B) == damage(A) + damage(B): members split into two collectives, and cycle counts of one binning split in two")
def additive(case, ctx):
    c, coll = case["curve"], case["coll"]
    _describe(case, ctx)
    n = len(coll["rows"])
    cv = _rule_curve(c, case["rule"])
    whole = _damage(cv, build(coll, force_cycles=True), n)
    A = [i for i in range(n) if case["mask"][i]]
    B = [i for i in range(n) if not case["mask"][i]]
    parts = {}
    for name, sel in (("A", A), ("B", B)):
        if sel:
            d = _damage(cv, build(coll, rows=sel, force_cycles=True), len(sel))
            for i, x in zip(sel, d):
                parts[i] = x
                if not _close(x, whole[i], LIN):
                    raise Violation("member %d: damage %r inside the whole collective, %r inside part %s" % (i, whole[i], x, name), bucket="additive:member")
    sw, sp = math.fsum(whole), math.fsum(parts[i] for i in A) + math.fsum(parts[i] for i in B)
    if not _close(sw, sp, LIN):
        raise Violation("damage(A++B) = %r, damage(A)+damage(B) = %r" % (sw, sp), bucket="additive:sum")
    # same binning, counts split
    cyc = ref_cycles(coll)
    c1 = [x * s for x, s in zip(cyc, case["share"])]
    c2 = [x - y for x, y in zip(cyc, c1)]
    d1, d2 = _damage(cv, build(coll, cycles=c1), n), _damage(cv, build(coll, cycles=c2), n)
    for i in range(n):
        if not (_close(d1[i] + d2[i], whole[i], LIN) or abs(d1[i] + d2[i] - whole[i]) <= 1e-15 * max(whole)):
            raise Violation("class %d: damage(n1)+damage(n2) = %r, damage(n1+n2) = %r" % (i, d1[i] + d2[i], whole[i]), bucket="additive:counts")


# --------------------------------------------------------------------------- 3. proportional to the counts
@st.composite
def _prop_cases(draw, tier):
    case = draw(base_cases(tier))
    case["c"] = draw(st.one_of(st.sampled_from([0.0, 0.5, 2.0, 1000.0]), _pow10(-3, 6)))
    case["rule"] = draw(st.sampled_from(["own", "elementary", "haibach"]))
    return case


@subcheck(PROP, "proportional", strategy=_prop_cases, quick=2000, thorough=60000,
          doc="damage(c * cycles) == c * damage(cycles), member by member")
def proportional(case, ctx):
    c, coll, k = case["curve"], case["coll"], case["c"]
    _describe(case, ctx)
    n = len(coll["rows"])
    cv = _rule_curve(c, case["rule"])
    cyc = ref_cycles(coll)
    d1 = _damage(cv, build(coll, force_cycles=True), n)
    dk = _damage(cv, build(coll, cycles=[k * x for x in cyc]), n)
    for i in range(n):
        if math.isnan(dk[i]) or not _close(dk[i], k * d1[i], LIN):
            raise Violation("member %d: damage(%r * n) = %r, %r * damage(n) = %r" % (i, k, dk[i], k, k * d1[i]), bucket="proportional")


# --------------------------------------------------------------------------- 4. order of the members is irrelevant
@st.composite
def _perm_cases(draw, tier):
    case = draw(base_cases(tier))
    case["perm"] = draw(st.permutations(list(range(len(case["coll"]["rows"])))))
    case["rule"] = draw(st.sampled_from(["own", "elementary", "haibach"]))
    return case


@subcheck(PROP, "permutation", strategy=_perm_cases, quick=1500, thorough=60000,
          doc="reordering the members permutes the member damages and leaves the damage sum, the lifetime multiples and the Gassner cycles unchanged")
def permutation(case, ctx):
    c, coll, perm = case["curve"], case["coll"], list(case["perm"])
    _describe(case, ctx)
    n = len(coll["rows"])
    cv = _rule_curve(c, case["rule"])
    d0 = _damage(cv, build(coll, force_cycles=True), n)
    dp = _damage(cv, build(coll, rows=perm, force_cycles=True), n)
    for pos, i in enumerate(perm):
        if not _close(dp[pos], d0[i], LIN):
            raise Violation("member %d has damage %r, after reordering %r" % (i, d0[i], dp[pos]), bucket="permutation:member")
    if not _close(math.fsum(d0), math.fsum(dp), LIN):
        raise Violation("damage sum %r, after reordering %r" % (math.fsum(d0), math.fsum(dp)), bucket="permutation:sum")
    for accname in ("gassner_miner_elementary", "gassner_miner_haibach"):
        a0 = getattr(cv, accname)
        g0, A0 = float(a0.gassner_cycles(build(coll, force_cycles=True))), float(a0.lifetime_multiple(build(coll, force_cycles=True)))
        g1 = float(getattr(cv, accname).gassner_cycles(build(coll, rows=perm, force_cycles=True)))
        A1 = float(getattr(cv, accname).lifetime_multiple(build(coll, rows=perm, force_cycles=True)))
        if not (_close(g0, g1, LIN) or (math.isnan(g0) and math.isnan(g1))) or not (_close(A0, A1, LIN) or (math.isnan(A0) and math.isnan(A1))):
            raise Violation("%s: Gassner cycles %r / multiple %r, after reordering %r / %r" % (accname, g0, A0, g1, A1), bucket="permutation:" + accname)


# --------------------------------------------------------------------------- 5. original <= Haibach <= elementary
@subcheck(PROP, "rule_order", strategy=lambda tier: base_cases(tier), quick=2000, thorough=60000,
          doc="damage under Miner original <= Haibach <= elementary, member by member and in the sum; equal for members at or above SD")
def rule_order(case, ctx):
    c, coll = case["curve"], case["coll"]
    ref, amps, cyc = _describe(case, ctx)
    n = len(amps)
    d = {rule: _damage(_rule_curve(c, rule), build(coll), n) for rule in ("original", "haibach", "elementary")}
    for i in range(n):
        o, h, e = d["original"][i], d["haibach"][i], d["elementary"][i]
        if any(math.isnan(x) or x < 0 for x in (o, h, e)):
            raise Violation("member %d: damages %r %r %r" % (i, o, h, e), bucket="order:invalid")
        if o > h * (1 + LIN) or h > e * (1 + LIN):
            raise Violation("member %d (amplitude %r, SD %r): original %r, Haibach %r, elementary %r" % (i, amps[i], ref.SD, o, h, e), bucket="order:member")
        if amps[i] >= ref.SD * (1 + 1e-12) and not (o == h == e):
            raise Violation("member %d above SD: original %r, Haibach %r, elementary %r differ" % (i, o, h, e), bucket="order:above")
        if amps[i] < ref.SD * (1 - 1e-12) and o != 0.0:
            raise Violation("member %d below SD has damage %r under Miner original" % (i, o), bucket="order:original-below")
    so, sh, se = (math.fsum(d[r]) for r in ("original", "haibach", "elementary"))
    if so > sh * (1 + LIN) or sh > se * (1 + LIN):
        raise Violation("damage sums: original %r, Haibach %r, elementary %r" % (so, sh, se), bucket="order:sum")


# --------------------------------------------------------------------------- 6./7. Gassner cycles give damage one
def _applied(coll, cyc, total):
    H = math.fsum(cyc)
    return [x * (total / H) for x in cyc]


@st.composite
def _gassner_cases(draw, tier, haibach=False):
    case = draw(base_cases(tier, level=st.one_of(LEVEL, st.floats(1.0, 5.0, allow_nan=False)) if haibach else None))
    case["raw_curve"] = draw(st.booleans())
    return case


@subcheck(PROP, "gassner_elementary", strategy=lambda tier: _gassner_cases(tier), quick=3000, thorough=100000,
          doc="collective applied for gassner_cycles (Miner elementary) total cycles has damage sum 1 under the elementary curve; "
              "equals the reference life; the Gassner-shifted curve gives the same life at the largest occurring amplitude")
def gassner_elementary(case, ctx):
    c, coll = case["curve"], case["coll"]
    ref, amps, cyc = _describe(case, ctx)
    n = len(amps)
    me = _rule_curve(c, "elementary")
    # the curve with its own k_2 can be used where cycles(max amplitude) is on the k_1 line, whether the implementation takes the
    # largest occurring or the largest class amplitude: largest occurring amplitude > SD
    occ_max = max(a for a, k in zip(amps, cyc) if k > 0)
    raw = case["raw_curve"] and occ_max >= ref.SD * (1 + 1e-12)
    ctx.label("curve:raw" if raw else "curve:made_elementary")
    acc = (_pd_curve(c) if raw else me).gassner_miner_elementary
    want = ref.life(amps, cyc, "elementary")
    # the Gassner line through the largest amplitude that occurs (not affected by an empty top class)
    line = float(np.asarray(acc.gassner(build(coll)).cycles(occ_max)))
    if not _close(line, want):
        raise Violation("gassner(collective).cycles(largest occurring amplitude %r) = %r, reference life %r" % (occ_max, line, want),
                        bucket="gassner-ele:shifted-curve")
    if top_class_empty(case) and ctx.known("F04"):
        return
    g = float(acc.gassner_cycles(build(coll)))
    if not math.isfinite(g) or g <= 0:
        raise Violation("gassner_cycles = %r" % g, bucket="gassner-ele:nonfinite")
    D = math.fsum(_damage(me, build(coll, cycles=_applied(coll, cyc, g)), n))
    if not _close(D, 1.0):
        raise Violation("Miner elementary: damage sum after gassner_cycles = %r total cycles is %r (reference life %r)%s" %
                        (g, D, want, "; top class empty" if top_class_empty(case) else ""), bucket="gassner-ele:damage" +
                        (":top-empty" if top_class_empty(case) else ""))
    if not _close(g, want):
        raise Violation("gassner_cycles = %r, reference life %r" % (g, want), bucket="gassner-ele:reference")


@subcheck(PROP, "gassner_haibach", strategy=lambda tier: _gassner_cases(tier, haibach=True), quick=3000, thorough=100000,
          doc="collective applied for gassner_cycles (Miner Haibach) total cycles has damage sum 1 under the Haibach curve (largest class "
              "amplitude >= SD); equals the reference life")
def gassner_haibach(case, ctx):
    c, coll = case["curve"], case["coll"]
    ref, amps, cyc = _describe(case, ctx)
    n = len(amps)
    mh = _rule_curve(c, "haibach")
    # asserted where the largest *occurring* amplitude is >= SD (then so is the largest class amplitude, whichever of the two
    # the implementation refers the lifetime multiple to)
    occ_max = max(a for a, k in zip(amps, cyc) if k > 0)
    on_knee = abs(occ_max / ref.SD - 1.0) <= 1e-12 or abs(max(amps) / ref.SD - 1.0) <= 1e-12
    # with that amplitude on the knee (up to rounding of SD) an own k_2 = inf makes cycles(max amplitude) ambiguous: use the Haibach curve
    raw = case["raw_curve"] and not on_knee
    acc = (_pd_curve(c) if raw else mh).gassner_miner_haibach
    ctx.label("curve:raw" if raw else "curve:made_haibach")
    if on_knee:
        ctx.label("max_amplitude_on_knee")
    A = float(acc.lifetime_multiple(build(coll)))
    if occ_max < ref.SD and not abs(occ_max / ref.SD - 1.0) <= 1e-12:
        # docstring: lifetime multiple is inf there; formula: finite.  Reported, not asserted (DESIGN section 5).
        ctx.tolerate("haibach_%s_below_SD:multiple_%s" % ("all" if max(amps) < ref.SD else "occupied", "inf" if math.isinf(A) else "finite"))
        return
    if native_sd_differs(case) and ctx.known("FC11_a"):
        return
    g = float(acc.gassner_cycles(build(coll)))
    want = ref.life(amps, cyc, "haibach")
    if not math.isfinite(g) or g <= 0:
        raise Violation("gassner_cycles = %r (lifetime multiple %r)" % (g, A), bucket="gassner-hai:nonfinite")
    D = math.fsum(_damage(mh, build(coll, cycles=_applied(coll, cyc, g)), n))
    cls = ":native-p" if native_sd_differs(case) else ""
    if not _close(D, 1.0):
        raise Violation("Miner Haibach: damage sum after gassner_cycles = %r total cycles is %r (reference life %r)%s" %
                        (g, D, want, "; native failure probability %r, TS %r" % (ref.p0, ref.TS) if cls else ""), bucket="gassner-hai:damage" + cls)
    if not _close(g, want):
        raise Violation("gassner_cycles = %r, reference life %r" % (g, want), bucket="gassner-hai:reference" + cls)


# --------------------------------------------------------------------------- 8. effective damage sum
@st.composite
def _eds_cases(draw, tier):
    case = draw(base_cases(tier))
    case["rule"] = draw(st.sampled_from(["elementary", "haibach"]))
    case["raw_curve"] = draw(st.booleans())
    # steep spectra make the lifetime multiple large (D_m at the lower bound); a single class makes it 1 (upper bound)
    boost = draw(st.sampled_from([None, None, 1e3, 1e6]))
    coll = case["coll"]
    if boost and coll["cycles"] is not None and coll["kind"] != "hist_rh":
        amps = ref_amplitudes(coll)
        lo = min(range(len(amps)), key=lambda i: amps[i])
        if coll["cycles"][lo] > 0:
            coll["cycles"][lo] = coll["cycles"][lo] * boost
    return case


@subcheck(PROP, "effective_damage_sum", strategy=_eds_cases, quick=2000, thorough=60000,
          doc="effective damage sum lies in [0.3, 1] and equals clip(2 / A^(1/4), 0.3, 1) for the lifetime multiple A of the same collective")
def effective_damage_sum(case, ctx):
    c, coll, rule = case["curve"], case["coll"], case["rule"]
    ref, amps, cyc = _describe(case, ctx)
    cv = _pd_curve(c) if case["raw_curve"] else _rule_curve(c, rule)
    acc = getattr(cv, "gassner_miner_" + rule)
    dm = float(acc.effective_damage_sum(build(coll)))
    A = float(acc.lifetime_multiple(build(coll)))
    ctx.label("rule:" + rule)
    if not (0.3 <= dm <= 1.0):
        raise Violation("effective damage sum %r outside [0.3, 1] (lifetime multiple %r)" % (dm, A), bucket="eds:range")
    if not (A > 0):
        raise Violation("lifetime multiple %r" % A, bucket="eds:multiple")
    raw = 2.0 / A ** 0.25
    want = min(max(raw, 0.3), 1.0)
    ctx.label("dm:lower_bound" if raw < 0.3 else "dm:upper_bound" if raw > 1.0 else "dm:inside")
    if not _close(dm, want, 1e-12):
        raise Violation("effective damage sum %r, expected clip(2/A^0.25) = %r for A = %r" % (dm, want, A), bucket="eds:formula")
    # the multiple itself against the reference: A = life / N(amplitude the multiple refers to)
    if rule == "elementary" and not top_class_empty(case):
        Aref = ref.life(amps, cyc, "elementary") / ref.N(max(amps), "elementary")
        if not _close(A, Aref):
            raise Violation("Miner elementary lifetime multiple %r, reference life/N(max amplitude) = %r" % (A, Aref), bucket="eds:A-elementary")
    if rule == "haibach" and max(amps) >= ref.SD * (1 + 1e-12) and not native_sd_differs(case) and not top_class_empty(case):
        Aref = ref.life(amps, cyc, "haibach") / ref.N(max(amps), "haibach")
        if not _close(A, Aref):
            raise Violation("Miner Haibach lifetime multiple %r, reference life/N(max amplitude) = %r" % (A, Aref), bucket="eds:A-haibach")
