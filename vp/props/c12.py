"""C12 - mean stress transformation follows the iso-damage lines of the Haigh diagram.

Oracles: closed FKM formulas and a q-space polygon walk (vp/refs/haigh_ref.py, no pyLife), path
independence / idempotence (no reference needed), interface agreement, cycle conservation and
class placement of the matrix interface.

Tolerances
----------
RTOL = 1e-9 on transformed amplitudes.  pyLife recomputes R = lower/upper and mean = a (1+R)/(1-R) from the
from/to representation and evaluates (1-Rg)(a + M m)/(1-Rg + M(1+Rg)); each step costs a few ulp, amplified by
1/(1 + M q) <= 1e3 (cases with a smaller factor are outside the generated domain, see DOMAIN_MARGIN), by
1/|1-R_goal| <= 64 and by 1/|1-R| of the cycle (|q| <= 3e5 in the 'free' class): 1e-16 * 1e3 * 3e5 stays below 1e-9
with two decades to spare, while any modelling error (wrong segment, wrong slope, skipped segment) is O(M) ~ 1e-2.
"""

import math

import numpy as np
import pandas as pd
from hypothesis import strategies as st

from ..core import Violation, subcheck, nontrivial_rule, assumptions
from ..refs import haigh_ref as ref

INF = float("inf")
RTOL = 1e-9
DOMAIN_MARGIN = 1e-3      # smallest admitted factor 1 + M q on the way (exact amplitude stays positive AND well conditioned)

nontrivial_rule("C12", "Non-trivial: at least one cycle whose source segment differs from the target's segment, or that lies exactly on / one ulp "
                       "beside a segment border ray, or the target is R = -inf or R > 1 (matrix sub-check: >= 2 occupied classes with "
                       "amplitude > 0; interface sub-check: parameters as DataFrame, or a non-default index / column layout).")
assumptions("C12", [
    "domain: amplitude > 0 (matrix classes with amplitude 0 are only counted for conservation), 0 <= M2 <= M <= 0.99, five-segment "
    "M0 >= M1 >= M2 >= M3 >= 0, 0 <= M4 <= 0.6, 0 < R12 < R23 < 1; target R != 1, |1 - R_goal| >= 1/64, R_goal = +inf is not used "
    "(it is the same ray as -inf, which is the spelling pyLife documents)",
    "the statement's restriction 'exact iso-damage amplitude stays positive' is decided by the reference walk only: every factor "
    "1 + M q met between source and target must be >= 1e-3 (cases below are discarded and counted)",
    "generic diagrams are built with HaighDiagram.from_dict: any tiling of (-inf, 1) plus optionally (1, inf) (or (1, b), (b, inf) - class "
    "split_R_gt_1), in the documented row order ((1, inf) first) or rotated (class rotated_order); diagrams that leave part of the plane "
    "uncovered are used only with cycles and targets inside the covered part; segment borders of generic diagrams are >= 1e-3 apart "
    "(pyLife orders segments by a rounded function of their mid points; micro-segments of width 1e-200 are not a meaningful diagram)",
    "matrix interface: regular and irregular class grids, class mids represent the cycles (pyLife's convention), -1 <= R_goal < 1",
])


# --------------------------------------------------------------------------- helpers
def _f(x):
    """JSON value -> float ('-inf' / 'inf' are stored as strings)."""
    if x == "-inf":
        return -INF
    if x == "inf":
        return INF
    return float(x)


def _j(x):
    if x == -INF:
        return "-inf"
    if x == INF:
        return "inf"
    return float(x)


def _segs(case_segments):
    return [(_f(l), _f(r), float(M)) for l, r, M in case_segments]


def _MS():
    import pylife.strength.meanstress as MS
    return MS


def _call_twice_unchanged(fn, arrays, what):
    """Plain-function interface: the caller's arrays are not modified and a second call with the very same arrays gives the
    same result (a transformation that doubles its input in place is right once and wrong ever after)."""
    before = [a.copy() for a in arrays]
    first = np.array(fn(*arrays), dtype=float)
    for b, a in zip(before, arrays):
        if not (b.dtype == a.dtype and b.shape == a.shape and np.array_equal(b, a, equal_nan=True)):
            raise Violation("%s modified the array it was given: %r -> %r" % (what, b.tolist()[:6], a.tolist()[:6]),
                            bucket="input_modified:" + what)
    second = np.array(fn(*arrays), dtype=float)
    if not np.array_equal(first, second, equal_nan=True):
        raise Violation("%s called twice with the same arrays: %r then %r" % (what, first.tolist()[:6], second.tolist()[:6]),
                        bucket="call_twice:" + what)
    return first


def _frame_unchanged(before, obj, what):
    ok = (type(before) is type(obj) and before.index.equals(obj.index) and list(before.index.names) == list(obj.index.names)
          and before.equals(obj))
    if ok and isinstance(obj, pd.DataFrame):
        ok = list(before.columns) == list(obj.columns) and [str(t) for t in before.dtypes] == [str(t) for t in obj.dtypes]
    if ok and isinstance(obj, pd.Series):
        ok = str(before.dtype) == str(obj.dtype) and before.name == obj.name
    if not ok:
        raise Violation("%s modified the object it was called on / given" % what, bucket="input_modified:" + what)


def _close(got, want, rtol=RTOL):
    return abs(got - want) <= rtol * max(abs(want), abs(got))


def _R_of(a, m):
    """R = lower/upper of the cycle the way pyLife derives it (from = m - a, to = m + a)."""
    up, lo = m + a, m - a
    if up == 0.0:
        return -INF if lo < 0 else 0.0
    return lo / up


def _region(a, m):
    up, lo = m + a, m - a
    if up == 0.0:
        return "R=-inf"
    if up < 0.0:
        return "R>1"
    if lo == 0.0:
        return "R=0"
    if lo < 0.0:
        return "R<0"
    return "0<R<1"


def _goal_class(Rg):
    if Rg == -INF:
        return "goal=-inf"
    if Rg > 1.0:
        return "goal>1"
    if Rg == 0.0:
        return "goal=0"
    if Rg == -1.0:
        return "goal=-1"
    return "goal<0" if Rg < 0 else "goal in (0,1)"


def _seg_index(qsegs, q, toward):
    """index of the q-segment that holds q (borders: the one on the ``toward`` side)."""
    for i, (l, r, _) in enumerate(qsegs):
        if l < q < r:
            return i, False
        if q == r and i + 1 < len(qsegs):
            return (i + 1 if toward > 0 else i), True
        if q == l and i == 0:
            return i, True
        if q == r and i + 1 == len(qsegs):
            return i, True
    return None, False


def _nontrivial_cycle(qsegs, a, m, Rg, beside):
    qg = ref.q_of_R(Rg)
    q = m / a
    i, on_border = _seg_index(qsegs, q, 1 if qg > q else -1)
    k, _ = _seg_index(qsegs, qg, 1 if q > qg else -1)
    return on_border or beside or i != k or Rg == -INF or Rg > 1.0


def f12_class(a, m, Rg):
    """F12: the cycle lies strictly inside R > 1 (upper < 0) and the target is R = -inf."""
    return Rg == -INF and (m + a) < 0.0


def f12a_class(segments, a, m, Rg):
    """F12_a: the cycle lies in R > 1, the finite target lies beyond the (-inf, x] segment (x < R_goal < 1), and pyLife's
    tie-break between the (-inf, x] and the (.., inf) segment - both get the same 'distance' from the target - processes
    (-inf, x] first.  The tie is broken by numpy's quicksort argsort (not stable: SIMD sorting networks), so the predicate
    repeats that argsort on the same distance values instead of guessing from the row order."""
    if not ((m + a) < 0.0 and Rg != -INF and Rg < 1.0):
        return False
    A = [i for i, (l, r, _) in enumerate(segments) if l == -INF]
    B = [i for i, (l, r, _) in enumerate(segments) if r == INF]
    if not A or not B or not segments[A[0]][1] < Rg:
        return False
    qg = (1.0 + Rg) / (1.0 - Rg)
    dist = []
    for l, r, _ in segments:
        mid = (l + r) / 2.0
        dist.append((-1.0 if math.isinf(mid) else (1.0 + mid) / (1.0 - mid)) - qg)
    left = [i for i, d in enumerate(dist) if d < 0.0]
    order = [left[k] for k in np.argsort(np.array([dist[i] for i in left]), kind="quicksort")]
    return A[0] in order and B[0] in order and order.index(A[0]) < order.index(B[0])


def f12b_class(segments, a=None, m=None, Rg=None):
    """F12_b: the diagram has more than one segment beyond R = 1.  Every cycle is affected, not only those starting or ending
    there: a cycle that passes the ray R = -inf on its way is captured by the (b, inf] segment and dragged to R = b."""
    return sum(1 for l, r, _ in segments if l >= 1.0) >= 2


# --------------------------------------------------------------------------- strategies
GRID = 64.0


def _grid_R_below_1():
    return st.integers(-256, 62).map(lambda k: k / GRID)


def _grid_R_above_1():
    return st.integers(66, 512).map(lambda k: k / GRID)


@st.composite
def _goal(draw, borders, qmin, allow_gt1=True, allow_inf=True):
    """target R; borders = finite border R values of the diagram."""
    opts = ["fixed", "grid<1", "float<1"]
    if borders:
        opts.append("border")
    if allow_inf:
        opts += ["-inf", "-inf"]
    if allow_gt1:
        opts += ["grid>1", "float>1"]
    kind = draw(st.sampled_from(opts))
    if kind == "-inf":
        return -INF
    if kind == "fixed":
        return draw(st.sampled_from([-1.0, 0.0, 0.5, -0.5, 0.25]))
    if kind == "border":
        b = [x for x in borders if x != 1.0 and abs(1.0 - x) >= 1.0 / GRID]
        return draw(st.sampled_from(b)) if b else 0.0
    if kind == "grid<1":
        return draw(_grid_R_below_1())
    if kind == "float<1":
        return draw(st.floats(-20.0, 1.0 - 1.0 / GRID, allow_nan=False))
    # R > 1: q = (1+R)/(1-R) in (-inf, -1); keep q >= qmin  <=>  R >= (qmin-1)/(qmin+1)
    rmin = 1.0 + 1.0 / GRID if qmin <= -100 else max(1.0 + 1.0 / GRID, (qmin - 1.0) / (qmin + 1.0) * (1 + 1e-9))
    if qmin >= -1.0 or rmin > 40.0:
        return -INF
    if kind == "grid>1":
        k = draw(st.integers(int(math.ceil(rmin * GRID)), max(int(math.ceil(rmin * GRID)), 512)))
        return k / GRID
    return draw(st.floats(rmin, max(rmin, 50.0), allow_nan=False))


def _exact_cycle(R, j, unit):
    """(amplitude, mean) of a cycle lying exactly on the ray R (R on the 1/64 grid or -inf); all values exact."""
    if R == -INF:
        up, lo = 0.0, -2.0 * j * unit
    else:
        k = R * GRID
        if R < 1.0:
            up, lo = GRID * j * unit, k * j * unit
        else:
            up, lo = -GRID * j * unit, -k * j * unit
    return (up - lo) / 2.0, (up + lo) / 2.0, up, lo


@st.composite
def _cycles(draw, rays, qmin, nmin=1, nmax=6):
    """amplitude/mean lists; ``rays``: R values on which cycles are placed exactly / one ulp beside."""
    n = draw(st.integers(nmin, nmax))
    amp, mean, beside = [], [], []
    rays = [r for r in rays if r != 1.0 and r != INF]
    rays = [r for r in rays if r < 1.0 or ref.q_of_R(r) >= qmin]
    for _ in range(n):
        kind = draw(st.sampled_from(["q", "q", "free", "ray", "ray", "beside"]))
        if kind in ("ray", "beside") and rays:
            R = draw(st.sampled_from(rays))
            j = draw(st.integers(1, 4000))
            unit = 2.0 ** draw(st.integers(-9, 0))
            ongrid = R == -INF or (R * GRID == math.floor(R * GRID))
            if ongrid:
                a, m, up, lo = _exact_cycle(R, j, unit)
            else:
                up = (GRID * j * unit) if R < 1.0 else -(GRID * j * unit)
                lo = R * up
                a, m = (up - lo) / 2.0, (up + lo) / 2.0
            b = kind == "beside" or not ongrid
            if kind == "beside":
                lo2 = float(np.nextafter(lo, draw(st.sampled_from([-INF, INF]))))
                a, m = (up - lo2) / 2.0, (up + lo2) / 2.0
            if a > 0 and m / a >= qmin:
                amp.append(a); mean.append(m); beside.append(b)
                continue
        a = 10.0 ** draw(st.floats(-2.0, 3.0, allow_nan=False))
        if kind == "free":
            m = draw(st.floats(-3e3, 3e3, allow_nan=False))
            if m / a < qmin:
                m = -m
        else:
            m = a * draw(st.floats(max(qmin, -8.0), 8.0, allow_nan=False))
        amp.append(a); mean.append(m); beside.append(False)
    return amp, mean, beside


def _qmin(M4):
    """lowest admitted q for a diagram whose R > 1 segment has slope M4 (1 + M4 q >= 0.1)."""
    return -1e9 if M4 <= 0.0 else -0.9 / M4


@st.composite
def _fkm_params(draw):
    M = draw(st.one_of(st.sampled_from([0.0, 0.3, 0.5, 0.99]), st.floats(0.0, 0.99, allow_nan=False)))
    M2 = draw(st.sampled_from(["third", "equal", "zero", "free"]))
    M2 = {"third": M / 3.0, "equal": M, "zero": 0.0}.get(M2)
    if M2 is None:
        M2 = draw(st.floats(0.0, 1.0, allow_nan=False)) * M
    return {"M": M, "M2": M2}


@st.composite
def _five_params(draw):
    M0 = draw(st.floats(0.0, 0.99, allow_nan=False))
    fr = st.one_of(st.sampled_from([0.0, 1.0, 1.0 / 3.0]), st.floats(0.0, 1.0, allow_nan=False))
    M1 = M0 * draw(fr)
    M2 = M1 * draw(fr)
    M3 = M2 * draw(fr)
    M4 = draw(st.one_of(st.just(0.0), st.floats(0.0, 0.6, allow_nan=False)))
    if draw(st.integers(0, 4)) > 0:
        k12 = draw(st.integers(1, 61))
        k23 = draw(st.integers(k12 + 1, 62))
        R12, R23 = k12 / GRID, k23 / GRID
    else:
        R12 = draw(st.floats(0.02, 0.9, allow_nan=False))
        R23 = draw(st.floats(R12 + 0.01, 0.98, allow_nan=False))
    return {"M0": M0, "M1": M1, "M2": M2, "M3": M3, "M4": M4, "R12": R12, "R23": R23}


# --------------------------------------------------------------------------- 1. FKM-Goodman closed form
@st.composite
def _fkm_cases(draw, tier):
    p = draw(_fkm_params())
    Rg = draw(_goal([0.0], -1e9))
    amp, mean, beside = draw(_cycles([0.0, -1.0, -INF, Rg, 2.0, 0.5], -1e9))
    return {"M": p["M"], "M2": p["M2"], "R_goal": _j(Rg), "amplitude": amp, "mean": mean, "beside": beside}


@subcheck("C12", "fkm_closed_form", strategy=_fkm_cases, quick=1200, thorough=48000,
          doc="fkm_goodman(amplitude, mean, M, M2, R_goal) == closed FKM formulas (via the equivalent amplitude at R=-1), rtol 1e-9; "
              "the q-space walk must agree with the closed form as well (cross-check of the two oracles)")
def fkm_closed_form(case, ctx):
    M, M2, Rg = case["M"], case["M2"], _f(case["R_goal"])
    amp, mean = case["amplitude"], case["mean"]
    MS = _MS()
    got = _call_twice_unchanged(lambda a, m: MS.fkm_goodman(a, m, M, M2, Rg),
                                [np.array(amp, dtype=np.float64), np.array(mean, dtype=np.float64)], "fkm_goodman")
    if len(got) != len(amp):
        raise Violation("fkm_goodman returned %d amplitudes for %d cycles" % (len(got), len(amp)), bucket="fkm:length")
    qsegs = ref.q_segments(ref.fkm_goodman_segments(M, M2))
    ctx.label(_goal_class(Rg))
    for i, (a, m) in enumerate(zip(amp, mean)):
        ctx.label(_region(a, m))
        want = ref.fkm_goodman_closed_form(a, m, M, M2, Rg)
        w2, worst = ref.walk(a, m, qsegs, ref.q_of_R(Rg))
        if not _close(w2, want, 1e-12):
            raise Violation("harness: reference walk %r and closed form %r disagree" % (w2, want), bucket="harness:oracles")
        if _nontrivial_cycle(qsegs, a, m, Rg, case["beside"][i]):
            ctx.nontrivial()
        if not _close(float(got[i]), want):
            raise Violation("fkm_goodman(a=%r, m=%r [%s], M=%r, M2=%r, R_goal=%r) = %r, closed form %r"
                            % (a, m, _region(a, m), M, M2, Rg, float(got[i]), want),
                            bucket="fkm:%s->%s" % (_region(a, m), _goal_class(Rg)))


# --------------------------------------------------------------------------- 2. five-segment vs reference
@st.composite
def _five_cases(draw, tier):
    p = draw(_five_params())
    qmin = _qmin(p["M4"])
    Rg = draw(_goal([0.0, p["R12"], p["R23"]], qmin))
    amp, mean, beside = draw(_cycles([0.0, -1.0, -INF, p["R12"], p["R23"], Rg, 2.0], qmin))
    return dict(p, R_goal=_j(Rg), amplitude=amp, mean=mean, beside=beside)


@subcheck("C12", "five_segment_reference", strategy=_five_cases, quick=1200, thorough=48000,
          doc="five_segment_correction(...) == iso-damage polygon walk in q = mean/amplitude space, rtol 1e-9, for cycles in the domain")
def five_segment_reference(case, ctx):
    Rg = _f(case["R_goal"])
    amp, mean = case["amplitude"], case["mean"]
    P = [case[k] for k in ("M0", "M1", "M2", "M3", "M4", "R12", "R23")]
    qsegs = ref.q_segments(ref.five_segment_segments(*P))
    qg = ref.q_of_R(Rg)
    wants = [ref.walk(a, m, qsegs, qg) for a, m in zip(amp, mean)]
    if all(w[1] < DOMAIN_MARGIN for w in wants):
        ctx.skip("every cycle leaves the domain (iso-damage amplitude not safely positive)")
    MS = _MS()
    got = _call_twice_unchanged(lambda a, m: MS.five_segment_correction(a, m, *P, Rg),
                                [np.array(amp, dtype=np.float64), np.array(mean, dtype=np.float64)], "five_segment_correction")
    ctx.label(_goal_class(Rg), "M4>0" if case["M4"] > 0 else "M4=0")
    known = None
    for i, (a, m) in enumerate(zip(amp, mean)):
        want, worst = wants[i]
        if worst < DOMAIN_MARGIN:
            ctx.label("cycle_out_of_domain")
            continue
        ctx.label(_region(a, m))
        if f12_class(a, m, Rg) and case["M4"] > 0:
            ctx.label("F12_class")
            if known is None:
                known = ctx.known("F12")
            if known:
                continue
        if _nontrivial_cycle(qsegs, a, m, Rg, case["beside"][i]):
            ctx.nontrivial()
        if not _close(float(got[i]), want):
            raise Violation("five_segment_correction(a=%r, m=%r [%s], %s, R_goal=%r) = %r, iso-damage walk gives %r"
                            % (a, m, _region(a, m), dict((k, case[k]) for k in ("M0", "M1", "M2", "M3", "M4", "R12", "R23")),
                               Rg, float(got[i]), want),
                            bucket="five:%s->%s" % (_region(a, m), _goal_class(Rg)))


# --------------------------------------------------------------------------- 3. any gap-free diagram: reference + relations
@st.composite
def _diagram(draw, allow_partial=True, allow_split=True, allow_rotated=True):
    kind = draw(st.sampled_from(["fkm", "five", "generic", "generic", "generic"]))
    if kind == "fkm":
        p = draw(_fkm_params())
        segs = ref.fkm_goodman_segments(p["M"], p["M2"])
        return {"kind": kind, "params": p, "segments": segs, "rotated": False}
    if kind == "five":
        p = draw(_five_params())
        segs = ref.five_segment_segments(*[p[k] for k in ("M0", "M1", "M2", "M3", "M4", "R12", "R23")])
        return {"kind": kind, "params": p, "segments": segs, "rotated": False}
    nb = draw(st.integers(0, 4))
    # borders at least 1e-3 apart (rounded to a 1e-3 grid): pyLife orders the segments by a rounded function of their
    # mid points, micro-segments below the resolution of that arithmetic are outside the domain
    br = sorted(set(draw(st.lists(st.one_of(st.sampled_from([0.0, -1.0, 0.5]), _grid_R_below_1(),
                                            st.integers(-6000, 970).map(lambda i: i / 1000.0)), min_size=nb, max_size=nb))))
    edges = [-INF] + br + [1.0]
    Mst = st.one_of(st.sampled_from([0.0, 0.3]), st.floats(0.0, 0.95, allow_nan=False))
    segs = [(edges[i], edges[i + 1], draw(Mst)) for i in range(len(edges) - 1)]
    tail = draw(st.sampled_from(["one", "one", "one", "none" if allow_partial else "one", "split" if allow_split else "one",
                                 "split" if allow_split else "one"]))
    M4 = draw(st.one_of(st.just(0.0), st.floats(0.0, 0.6, allow_nan=False)))
    if tail == "one":
        segs = [(1.0, INF, M4)] + segs
    elif tail == "split":
        b = draw(st.one_of(_grid_R_above_1(), st.integers(1050, 20000).map(lambda i: i / 1000.0)))
        Mx = st.one_of(st.just(0.0), st.floats(0.0, 0.6, allow_nan=False))
        if draw(st.booleans()):
            segs = [(1.0, b, M4), (b, INF, draw(Mx))] + segs
        else:       # three segments beyond R = 1
            b2 = b + draw(st.integers(50, 8000)) / 1000.0
            segs = [(1.0, b, M4), (b, b2, draw(Mx)), (b2, INF, draw(Mx))] + segs
    # other row orders that the validation accepts: rotations of a diagram that covers the whole plane
    rot = draw(st.integers(0, len(segs) - 1)) if (allow_rotated and tail != "none" and draw(st.integers(0, 3)) == 0) else 0
    segs = segs[rot:] + segs[:rot]
    return {"kind": "generic", "params": None, "segments": segs, "rotated": rot > 0}


def _diagram_qmin(segs):
    return max([_qmin(M) for l, r, M in segs if l >= 1.0] or [-1.0])


def _diagram_borders(segs):
    out = set()
    for l, r, _ in segs:
        out.update(x for x in (l, r) if x not in (-INF, INF, 1.0))
    return sorted(out)


@st.composite
def _relation_cases(draw, tier):
    d = draw(_diagram())
    segs = d["segments"]
    qmin = _diagram_qmin(segs)
    covered_gt1 = any(l >= 1.0 for l, r, _ in segs)
    borders = _diagram_borders(segs)
    R1 = draw(_goal(borders, qmin, allow_gt1=covered_gt1))
    R2 = draw(_goal(borders, qmin, allow_gt1=covered_gt1))
    rays = [0.0, -1.0, -INF, R1, R2] + borders + ([2.0] if covered_gt1 else [])
    amp, mean, beside = draw(_cycles(rays, qmin if covered_gt1 else -1.0, nmax=5))
    return {"kind": d["kind"], "params": d["params"], "rotated": d["rotated"],
            "segments": [[_j(l), _j(r), M] for l, r, M in segs],
            "R1": _j(R1), "R2": _j(R2), "amplitude": amp, "mean": mean, "beside": beside}


def _make_diagram(case):
    MS = _MS()
    if case["kind"] == "fkm":
        return MS.HaighDiagram.fkm_goodman(pd.Series(dict(case["params"])))
    if case["kind"] == "five":
        return MS.HaighDiagram.five_segment(pd.Series(dict(case["params"])))
    return MS.HaighDiagram.from_dict({(l, r): M for l, r, M in _segs(case["segments"])})


def _apply(hd, amp, mean, Rg):
    df = pd.DataFrame({"range": 2.0 * np.asarray(amp, dtype=float), "mean": np.asarray(mean, dtype=float)})
    res = hd.transform(df, Rg)
    if list(res.columns) != ["range", "mean"] or len(res) != len(amp):
        raise Violation("HaighDiagram.transform returned columns %r / %d rows for %d cycles" % (list(res.columns), len(res), len(amp)),
                        bucket="transform:shape")
    return [float(x) / 2.0 for x in res["range"]], [float(x) for x in res["mean"]]


def _known_classes(segs, legs):
    """legs: (a, m, Rg, direct) tuples the relations of one cycle depend on.  Returns the id of the known-finding class the
    cycle belongs to, or None.  F12 changes the amplitude only if the R > 1 segment has a slope; the returned mean (asserted on
    the direct leg only) is affected in any case."""
    slope_gt1 = any(l >= 1.0 and M > 0.0 for l, r, M in segs)
    for a, m, Rg, direct in legs:
        if f12b_class(segs, a, m, Rg):
            return "F12_b"
        if f12_class(a, m, Rg) and (direct or slope_gt1):
            return "F12"
        if f12a_class(segs, a, m, Rg):
            return "F12_a"
    return None


@subcheck("C12", "diagram_relations", strategy=_relation_cases, quick=700, thorough=28000,
          doc="any gap-free diagram (FKM, five-segment, from_dict): T(R2) == reference walk and lands on the target ray; "
              "T(R2) o T(R1) == T(R2); T(R1) o T(R1) == T(R1); a cycle already at R2 is unchanged (all rtol 1e-9)")
def diagram_relations(case, ctx):
    segs = _segs(case["segments"])
    R1, R2 = _f(case["R1"]), _f(case["R2"])
    amp, mean = case["amplitude"], case["mean"]
    qsegs = ref.q_segments(segs, require_full=False)
    q1, q2 = ref.q_of_R(R1), ref.q_of_R(R2)
    ctx.label(case["kind"], _goal_class(R2))
    if case["rotated"]:
        ctx.label("rotated_order")
    if sum(1 for l, r, _ in segs if l >= 1.0) >= 2:
        ctx.label("split_R_gt_1")
    if not any(l >= 1.0 for l, r, _ in segs):
        ctx.label("partial_no_R_gt_1")
    # domain by the reference: direct leg, first leg, second leg
    dom, want2, want1 = [], [], []
    for a, m in zip(amp, mean):
        w2, f2 = ref.walk(a, m, qsegs, q2)
        w1, f1 = ref.walk(a, m, qsegs, q1)
        f12 = ref.walk(w1, w1 * q1, qsegs, q2)[1] if f1 >= DOMAIN_MARGIN else 0.0
        dom.append(min(f1, f2, f12) >= DOMAIN_MARGIN)
        want2.append(w2); want1.append(w1)
    if not any(dom):
        ctx.skip("every cycle leaves the domain (iso-damage amplitude not safely positive)")
    hd = _make_diagram(case)
    a2, m2 = _apply(hd, amp, mean, R2)
    a1, m1 = _apply(hd, amp, mean, R1)
    a12, m12 = _apply(hd, a1, m1, R2)
    a11, m11 = _apply(hd, a1, m1, R1)
    active = {}
    for i, (a, m) in enumerate(zip(amp, mean)):
        if not dom[i]:
            ctx.label("cycle_out_of_domain")
            continue
        ctx.label(_region(a, m))
        legs = [(a, m, R2, True), (a, m, R1, False), (want1[i], want1[i] * q1, R2, False), (want1[i], want1[i] * q1, R1, False)]
        hit = _known_classes(segs, legs)
        if hit:
            ctx.label(hit + "_class")
            if hit not in active:
                active[hit] = ctx.known(hit)
            if active[hit]:
                continue
        if _nontrivial_cycle(qsegs, a, m, R2, case["beside"][i]) or _nontrivial_cycle(qsegs, a, m, R1, case["beside"][i]):
            ctx.nontrivial()
        where = "a=%r, m=%r [%s], segments %r" % (a, m, _region(a, m), case["segments"])
        tag = "%s->%s" % (_region(a, m), _goal_class(R2))
        if not _close(a2[i], want2[i]):
            raise Violation("transform to R=%r: amplitude %r, iso-damage walk gives %r (%s)" % (R2, a2[i], want2[i], where),
                            bucket="reference:" + tag)
        if abs(m2[i] - a2[i] * q2) > RTOL * max(abs(a2[i]), abs(m2[i])):
            raise Violation("transform to R=%r: result (amplitude %r, mean %r) is not on the target ray mean = %r * amplitude (%s)"
                            % (R2, a2[i], m2[i], q2, where), bucket="on_ray:" + tag)
        if m / a == q2 and not (_close(a2[i], a) and abs(m2[i] - m) <= RTOL * max(abs(a), abs(m))):
            raise Violation("cycle already at R=%r changed: (%r, %r) -> (%r, %r) (%s)" % (R2, a, m, a2[i], m2[i], where),
                            bucket="at_target:" + tag)
        if not _close(a12[i], a2[i]):
            raise Violation("path dependence: via R=%r then R=%r gives amplitude %r, directly %r (%s)" % (R1, R2, a12[i], a2[i], where),
                            bucket="path:%s->%s->%s" % (_region(a, m), _goal_class(R1), _goal_class(R2)))
        if not (_close(a11[i], a1[i]) and abs(m11[i] - m1[i]) <= RTOL * max(abs(a1[i]), abs(m1[i]))):
            raise Violation("not idempotent: transforming to R=%r twice gives (%r, %r), once (%r, %r) (%s)"
                            % (R1, a11[i], m11[i], a1[i], m1[i], where), bucket="idempotent:%s" % _goal_class(R1))


# --------------------------------------------------------------------------- 4. continuity and monotonicity in amplitude
@st.composite
def _mono_cases(draw, tier):
    d = draw(_diagram(allow_partial=False, allow_split=False, allow_rotated=False))
    segs = d["segments"]
    qmin = _diagram_qmin(segs)
    borders = _diagram_borders(segs)
    Rg = draw(_goal(borders, qmin))
    # fixed mean, amplitudes straddling the border rays that this mean line crosses
    sign = draw(st.sampled_from([-1.0, 1.0, 1.0]))
    mean = sign * 10.0 ** draw(st.floats(-1.0, 3.0, allow_nan=False))
    qb = sorted(set(ref.q_of_R(b) for b in borders + [-INF]))
    qb = [q for q in qb if q * sign > 0 and q >= qmin * 0.999]
    amps, pairs = [], []
    for q in draw(st.lists(st.sampled_from(qb), min_size=1, max_size=3, unique=True)) if qb else []:
        ab = mean / q
        delta = draw(st.sampled_from([1e-9, 1e-12, 0.0]))
        if delta == 0.0:
            lo, hi = float(np.nextafter(ab, 0.0)), float(np.nextafter(ab, INF))
        else:
            lo, hi = ab * (1.0 - delta), ab * (1.0 + delta)
        amps += [lo, ab, hi]
        pairs.append([lo, hi])
    for _ in range(draw(st.integers(1, 5))):
        a = abs(mean) * 10.0 ** draw(st.floats(-1.0, 1.5, allow_nan=False))
        amps.append(a)
    amps = sorted(set(a for a in amps if a > 0 and mean / a >= qmin))
    return {"kind": d["kind"], "params": d["params"], "rotated": False, "segments": [[_j(l), _j(r), M] for l, r, M in segs],
            "R_goal": _j(Rg), "mean": mean, "amplitudes": amps, "pairs": pairs}


@subcheck("C12", "continuous_monotone", strategy=_mono_cases, quick=800, thorough=32000,
          doc="fixed mean, increasing amplitudes (incl. pairs 1 ulp / 1e-12 / 1e-9 on both sides of every border ray crossed): transformed "
              "amplitude non-decreasing (slack 1e-10 relative for rounding) and no jump across a border "
              "(|jump| <= (2 delta / margin + 1e-10) * value, margin = smallest 1 + M q on the way)")
def continuous_monotone(case, ctx):
    segs = _segs(case["segments"])
    Rg = _f(case["R_goal"])
    m = case["mean"]
    amps = case["amplitudes"]
    qsegs = ref.q_segments(segs)
    qg = ref.q_of_R(Rg)
    marg = [ref.walk(a, m, qsegs, qg)[1] for a in amps]
    keep = [i for i, f in enumerate(marg) if f >= DOMAIN_MARGIN]
    if len(keep) < 2:
        ctx.skip("fewer than two cycles inside the domain")
    amps = [amps[i] for i in keep]
    marg = [marg[i] for i in keep]
    ctx.label(case["kind"], _goal_class(Rg))
    if any(f12_class(a, m, Rg) for a in amps) and any(l >= 1.0 and M > 0 for l, r, M in segs):
        ctx.label("F12_class")
        if ctx.known("F12"):
            return
    hd = _make_diagram(case)
    got, gm = _apply(hd, amps, [m] * len(amps), Rg)
    if case["pairs"]:
        ctx.nontrivial()
    for i in range(len(amps) - 1):
        if got[i + 1] < got[i] * (1.0 - 1e-10):
            raise Violation("not monotone in amplitude: mean %r, amplitude %r -> %r but %r -> %r (R_goal %r, segments %r)"
                            % (m, amps[i], got[i], amps[i + 1], got[i + 1], Rg, case["segments"]), bucket="monotone:" + _goal_class(Rg))
    for lo, hi in case["pairs"]:
        if lo in amps and hi in amps:
            i, k = amps.index(lo), amps.index(hi)
            delta = (hi - lo) / hi
            bound = (2.0 * delta / min(marg[i], marg[k]) + 1e-10) * max(got[i], got[k])
            if abs(got[k] - got[i]) > bound:
                raise Violation("jump across a segment border: mean %r, amplitudes %r / %r -> %r / %r (allowed %r; R_goal %r, segments %r)"
                                % (m, lo, hi, got[i], got[k], bound, Rg, case["segments"]), bucket="jump:" + _goal_class(Rg))


# --------------------------------------------------------------------------- 5. interfaces agree
@st.composite
def _interface_cases(draw, tier):
    method = draw(st.sampled_from(["fkm", "five"]))
    nparam = draw(st.sampled_from([0, 0, 1, 2, 3]))          # 0: a Series of parameters, else DataFrame rows
    params = [draw(_fkm_params() if method == "fkm" else _five_params()) for _ in range(max(1, nparam))]
    qmin = max(_qmin(p.get("M4", 0.0)) for p in params)
    borders = [0.0] + ([p[k] for p in params for k in ("R12", "R23")] if method == "five" else [])
    Rg = draw(_goal(borders, qmin))
    layout = draw(st.sampled_from(["plain", "named", "multi"]))
    if nparam and layout != "plain":
        plink = draw(st.sampled_from(["cross", "cross2", "aligned"])) if layout == "multi" else draw(st.sampled_from(["cross", "cross2"]))
    else:
        plink = "cross" if nparam else "series"
    # 'aligned': parameters per node - every node key must occur on both sides (the broadcaster's documented use)
    amp, mean, beside = draw(_cycles([0.0, -1.0, -INF, Rg] + borders, qmin, nmin=2 if plink == "aligned" else 1, nmax=5))
    columns = draw(st.sampled_from(["range_mean", "from_to", "to_from", "mixed"]))
    # upper load -0.0 (from < 0, to = -0.0; e.g. what scale(-1) makes of a pulsating cycle): the same cycle as upper load 0.0
    neg_zero = columns != "range_mean" and draw(st.integers(0, 2)) == 0
    if neg_zero:
        a0 = draw(st.integers(1, 4000)) / 8.0
        amp[0], mean[0], beside[0] = a0, -a0, False
    # the parameter Series may carry a name (a row of a DataFrame of materials), parameter frames may be indexed by strings
    pname = draw(st.sampled_from([None, None, "steel", 3, ["t", 1]])) if not nparam else None
    pindex = draw(st.sampled_from(["int", "str"])) if nparam else "int"
    return {"method": method, "params": params, "frame": bool(nparam), "param_link": plink, "layout": layout,
            "neg_zero_upper": neg_zero, "param_name": pname, "param_index": pindex,
            "columns": columns,
            "cycles_column": draw(st.booleans()), "R_goal": _j(Rg), "amplitude": amp, "mean": mean, "beside": beside}


@subcheck("C12", "interfaces_agree", strategy=_interface_cases, quick=500, thorough=20000,
          doc="df.meanstress_transform.fkm_goodman / five_segment (Series of parameters with or without a name - str, int, tuple -, DataFrame "
              "of parameters indexed by ints or strings, range/mean or from/to columns in either orientation, upper load 0.0 or -0.0, extra "
              "index levels) == plain function per parameter row (rtol 1e-12: same arithmetic), result on the target ray, inputs unchanged")
def interfaces_agree(case, ctx):
    MS = _MS()
    Rg = _f(case["R_goal"])
    qg = ref.q_of_R(Rg)
    amp = np.array(case["amplitude"], dtype=float)
    mean = np.array(case["mean"], dtype=float)
    n = len(amp)
    keys = ("M", "M2") if case["method"] == "fkm" else ("M0", "M1", "M2", "M3", "M4", "R12", "R23")
    ctx.label(case["method"], case["layout"], case["param_link"], case["columns"], _goal_class(Rg))
    # ---- collective
    lay = case["layout"]
    if lay == "plain":
        index = pd.RangeIndex(n)
        ckeys = [(i,) for i in range(n)]
        cnames = [None]
    elif lay == "named":
        index = pd.Index([10 + 3 * i for i in range(n)], name="cyc")
        ckeys = [(10 + 3 * i,) for i in range(n)]
        cnames = ["cyc"]
    else:
        tup = [(1 + i % 2, 100 + i) for i in range(n)]
        index = pd.MultiIndex.from_tuples(tup, names=["node", "cyc"])
        ckeys = tup
        cnames = ["node", "cyc"]
    cols = case["columns"]
    if cols == "range_mean":
        df = pd.DataFrame({"range": 2.0 * amp, "mean": mean}, index=index)
    else:
        lo, hi = mean - amp, mean + amp
        flip = {"from_to": np.zeros(n, bool), "to_from": np.ones(n, bool), "mixed": np.arange(n) % 2 == 1}[cols]
        if case.get("neg_zero_upper"):
            hi = np.where(hi == 0.0, -0.0, hi)
            if np.signbit(hi[hi == 0.0]).any():
                ctx.label("upper_load_negative_zero")
                ctx.nontrivial()
        df = pd.DataFrame({"from": np.where(flip, hi, lo), "to": np.where(flip, lo, hi)}, index=index)
    if case["cycles_column"]:
        df["cycles"] = np.arange(1.0, n + 1.0)
    # amplitude/mean as pyLife sees them (from/to round trip of range/mean input costs an ulp)
    a_in = np.abs((mean - amp) - (mean + amp)) / 2.0
    m_in = ((mean - amp) + (mean + amp)) / 2.0
    # ---- parameters
    plist = case["params"]
    if not case["frame"]:
        par = pd.Series({k: plist[0][k] for k in keys})
        pname = case.get("param_name")
        if pname is not None:
            par.name = tuple(pname) if isinstance(pname, list) else pname
            ctx.label("parameter_series_named:%s" % type(par.name).__name__)
            ctx.nontrivial()
        pkeys = [()]
        pnames = []
    else:
        link = case["param_link"]
        if link == "aligned":
            plist = (plist * 2)[:2]
            pidx = pd.Index([1, 2], name="node")
            pkeys = [(1,), (2,)]
            pnames = ["node"]
        elif link == "cross2":
            pidx = pd.MultiIndex.from_tuples([("s%d" % (i // 2), i) for i in range(len(plist))], names=["batch", "mat"])
            pkeys = [("s%d" % (i // 2), i) for i in range(len(plist))]
            pnames = ["batch", "mat"]
        else:
            if case.get("param_index") == "str":
                labels = ["steel", "alu", "cast iron"][:len(plist)]
                ctx.label("parameter_frame_string_index")
            else:
                labels = [7 + i for i in range(len(plist))]
            pidx = pd.Index(labels, name="mat")
            pkeys = [(x,) for x in labels]
            pnames = ["mat"]
        par = pd.DataFrame({k: [p[k] for p in plist] for k in keys}, index=pidx)
    df0 = df.copy(deep=True)
    keys_before = (par.copy(deep=True), list(par.index) if isinstance(par, pd.Series) else list(par.columns))
    acc = df.meanstress_transform
    res = (acc.fkm_goodman(par, Rg) if case["method"] == "fkm" else acc.five_segment(par, Rg))
    r_amp, r_mean = res.amplitude, res.meanstress
    # the collective the caller holds is unchanged, and so are the values of the parameters he passed
    # (fkm_goodman may ADD the default 'M2' to a parameter set without it - here M2 is always given)
    _frame_unchanged(df0, df, "meanstress_transform.%s [collective]" % case["method"])
    if not all(np.array_equal(np.asarray(par[k], dtype=float), np.asarray(keys_before[0][k], dtype=float)) for k in keys_before[1]):
        raise Violation("meanstress_transform.%s changed the parameter values it was given" % case["method"], bucket="input_modified:parameters")
    # expected rows
    expected = {}
    for pk, p in zip(pkeys, plist):
        if case["method"] == "fkm":
            want = MS.fkm_goodman(a_in, m_in, p["M"], p["M2"], Rg)
        else:
            want = MS.five_segment_correction(a_in, m_in, *[p[k] for k in keys], Rg)
        for i, ck in enumerate(ckeys):
            if case["frame"] and case["param_link"] == "aligned":
                if ck[0] != pk[0]:
                    continue
                key = ck
            else:
                key = tuple(pk) + tuple(ck)
            expected[key] = (float(want[i]), i, p)
    names = (cnames if (case["frame"] and case["param_link"] == "aligned") else pnames + cnames)
    if len(r_amp) != len(expected):
        raise Violation("accessor result has %d rows, expected %d (parameter rows x cycles)" % (len(r_amp), len(expected)), bucket="iface:rows")
    if len(names) > 1:
        if set(r_amp.index.names) != set(names):
            raise Violation("accessor result index levels %r, expected %r" % (list(r_amp.index.names), names), bucket="iface:levels")
        r_amp = r_amp.reorder_levels(names)
        r_mean = r_mean.reorder_levels(names)
    got = {}
    for k, v, mm in zip(r_amp.index, r_amp.values, r_mean.values):
        k = k if isinstance(k, tuple) else (k,)
        if k in got:
            raise Violation("accessor result has duplicate row %r" % (k,), bucket="iface:duplicate")
        got[k] = (float(v), float(mm))
    if set(got) != set(expected):
        raise Violation("accessor result rows %r, expected %r" % (sorted(got)[:6], sorted(expected)[:6]), bucket="iface:keys")
    known = None
    qsegs_cache = {}
    for key, (want, i, p) in expected.items():
        g, gm = got[key]
        a, m = float(a_in[i]), float(m_in[i])
        if not _close(g, want, 1e-12):
            raise Violation("accessor (%s, %s, %s) row %r: amplitude %r, plain function %r (a=%r, m=%r, R_goal=%r, params %r)"
                            % (case["method"], case["layout"], case["param_link"], key, g, want, a, m, Rg, p), bucket="iface:amplitude")
        if f12_class(a, m, Rg):
            ctx.label("F12_class")
            if known is None:
                known = ctx.known("F12")
            if known:
                continue
        if abs(gm - g * qg) > RTOL * max(abs(g), abs(gm)):
            raise Violation("accessor row %r: (amplitude %r, mean %r) is not on the target ray R=%r (a=%r, m=%r, params %r)"
                            % (key, g, gm, Rg, a, m, p), bucket="iface:on_ray:%s->%s" % (_region(a, m), _goal_class(Rg)))
    if case["frame"] or lay != "plain" or cols != "range_mean":
        ctx.nontrivial()


# --------------------------------------------------------------------------- 6. matrix interface
@st.composite
def _axis_edges(draw, lo_range, aligned_unit=None):
    n = draw(st.integers(1, 6))
    if aligned_unit is not None:
        start = aligned_unit * draw(st.integers(*lo_range))
        return [start + aligned_unit * i for i in range(n + 1)]
    start = draw(st.floats(float(lo_range[0]), float(lo_range[1]), allow_nan=False))
    if draw(st.integers(0, 3)) == 0:        # irregular
        w = draw(st.lists(st.floats(0.25, 20.0, allow_nan=False), min_size=n, max_size=n))
        e = [start]
        for x in w:
            e.append(e[-1] + x)
        return e
    width = draw(st.floats(0.5, 60.0, allow_nan=False))
    return [float(x) for x in np.linspace(start, start + width, n + 1)]


@st.composite
def _matrix_cases(draw, tier):
    kind = draw(st.sampled_from(["from_to", "range_mean"]))
    aligned = draw(st.integers(0, 3)) == 0
    if kind == "from_to":
        unit = draw(st.sampled_from([0.5, 1.0, 2.0])) if aligned else None
        e1 = draw(_axis_edges((-40, 40), unit))
        e2 = draw(_axis_edges((-40, 40), unit))
        if draw(st.integers(0, 2)) == 0:
            e2 = list(e1)          # same classes for from and to: the diagonal classes have the range 0
    else:
        unit = draw(st.sampled_from([0.5, 1.0, 2.0])) if aligned else None
        if aligned:
            n = draw(st.integers(1, 6))
            e1 = [unit * i for i in range(n + 1)]
            e2 = draw(_axis_edges((-20, 20), unit))
        else:
            n = draw(st.integers(1, 6))
            w = draw(st.floats(0.5, 80.0, allow_nan=False))
            e1 = [float(x) for x in np.linspace(0.0, w, n + 1)]
            e2 = draw(_axis_edges((-40, 40), None))
    extra = draw(st.sampled_from(["none", "none", "node", "node_element"]))
    groups = {"none": 1, "node": draw(st.integers(1, 3)), "node_element": 4}[extra]
    ncls = (len(e1) - 1) * (len(e2) - 1)
    cnt = st.one_of(st.sampled_from([0.0, 0.0, 1.0, 2.0, 5.0]), st.integers(0, 10**6).map(float))
    counts = draw(st.lists(cnt, min_size=ncls * groups, max_size=ncls * groups))
    sens = draw(st.sampled_from(["free", "free", "zero"])) if aligned else "free"
    p = draw(_fkm_params()) if sens == "free" else {"M": 0.0, "M2": 0.0}
    pernode = extra != "none" and draw(st.booleans())
    p2 = draw(_fkm_params()) if pernode else None
    Rg = draw(st.one_of(st.sampled_from([-1.0, 0.0, 0.5, -1.0 / 3.0]), st.floats(-1.0, 1.0 - 1.0 / GRID, allow_nan=False)))
    return {"kind": kind, "edges1": e1, "edges2": e2, "aligned": aligned, "extra": extra, "groups": groups, "counts": counts,
            "sparse": draw(st.booleans()), "closed": draw(st.sampled_from(["right", "right", "left"])),
            "M": p["M"], "M2": p["M2"], "per_node": p2, "R_goal": Rg}


def _build_matrix(case):
    e1, e2 = case["edges1"], case["edges2"]
    n1, n2 = ("from", "to") if case["kind"] == "from_to" else ("range", "mean")
    i1 = pd.IntervalIndex.from_breaks(e1, closed=case["closed"])
    i2 = pd.IntervalIndex.from_breaks(e2, closed=case["closed"])
    levels, names = [i1, i2], [n1, n2]
    if case["extra"] == "node":
        levels.append(pd.Index(range(1, case["groups"] + 1))); names.append("node")
    elif case["extra"] == "node_element":
        levels += [pd.Index([1, 2]), pd.Index([5, 6])]; names += ["node", "element"]
    idx = pd.MultiIndex.from_product(levels, names=names)
    ser = pd.Series(np.array(case["counts"], dtype=float), index=idx, name="cycles")
    return ser, names[2:]


def matrix_reorder_class(ser, extra_names):
    """F12_c: inside some group of the extra index levels the rows are not sorted by the first-appearance rank of their
    class-level values (sparse matrices).  Such rows are reordered by the broadcast inside HaighDiagram.transform."""
    names = list(ser.index.names)
    cls = [n for n in names if n not in extra_names]
    rank = {}
    for n in cls:
        r = {}
        for v in ser.index.get_level_values(n):
            r.setdefault(v, len(r))
        rank[n] = r
    last = {}
    for row in ser.index:
        g = tuple(row[names.index(n)] for n in extra_names)
        key = tuple(rank[n][row[names.index(n)]] for n in cls)
        if g in last and key < last[g]:
            return True
        last[g] = key
    return False


def _class_cycle(kind, iv1, iv2):
    if kind == "from_to":
        f, t = iv1.mid, iv2.mid
        return abs(f - t) / 2.0, (f + t) / 2.0
    return iv1.mid / 2.0, iv2.mid


@subcheck("C12", "matrix_transform", strategy=_matrix_cases, quick=500, thorough=20000,
          doc="series.meanstress_transform.fkm_goodman on from/to and range/mean matrices (extra index levels, per-node parameters): total cycles "
              "conserved per group (rtol 1e-12), every class's cycles land in the result class that holds the closed-form range of its mid "
              "(cumulative counts, 1e-9 edge tolerance), result classes lie on the target ray")
def matrix_transform(case, ctx):
    _MS()       # registers the accessors
    ser, extra_names = _build_matrix(case)
    if case["sparse"]:
        ser = ser[ser.values > 0]
    ctx.label(case["kind"], "extra:" + case["extra"], "closed_" + case["closed"], "aligned" if case["aligned"] else "free_grid")
    if len(ser) == 0:
        ctx.skip("sparse matrix without any occupied class")
    Rg = float(case["R_goal"])
    qg = ref.q_of_R(Rg)
    per_node = case["per_node"]
    if per_node is not None:
        nodes = sorted(set(ser.index.get_level_values("node")))
        rows = [{"M": case["M"], "M2": case["M2"]} if k % 2 == 0 else per_node for k in range(len(nodes))]
        haigh = pd.DataFrame(rows, index=pd.Index(nodes, name="node"))
        pmap = dict(zip(nodes, rows))
        ctx.label("per_node_parameters")
    else:
        haigh = pd.Series({"M": case["M"], "M2": case["M2"]})
    ser0 = ser.copy(deep=True)
    res = ser.meanstress_transform.fkm_goodman(haigh, Rg).to_pandas()
    _frame_unchanged(ser0, ser, "series.meanstress_transform.fkm_goodman [matrix]")
    want_levels = {"range", "mean"} | set(extra_names)
    if set(res.index.names) != want_levels:
        raise Violation("result index levels %r, expected %r" % (list(res.index.names), sorted(want_levels)), bucket="matrix:levels")
    # group keys
    def gkey(idx_row, names):
        return tuple(idx_row[names.index(n)] for n in extra_names)
    src_names = list(ser.index.names)
    res_names = list(res.index.names)
    src = {}
    for row, v in zip(ser.index, ser.values):
        a, m = _class_cycle(case["kind"], row[0], row[1])
        g = gkey(row, src_names)
        p = pmap[row[src_names.index("node")]] if per_node is not None else case
        r = 0.0 if a == 0.0 else 2.0 * ref.fkm_goodman_closed_form(a, m, p["M"], p["M2"], Rg)
        src.setdefault(g, []).append((r, float(v), a))
    out = {}
    ri, mi = res_names.index("range"), res_names.index("mean")
    for row, v in zip(res.index, res.values):
        out.setdefault(gkey(row, res_names), []).append((row[ri], row[mi], float(v)))
    if not any(a > 0 for g in src for r, v, a in src[g]):
        ctx.skip("no class with amplitude > 0")
    occupied_pos = sum(1 for g in src for r, v, a in src[g] if v > 0 and a > 0)
    if any(a == 0.0 and v > 0 for g in src for r, v, a in src[g]):
        ctx.label("zero_amplitude_class_occupied")
    if occupied_pos >= 2:
        ctx.nontrivial()
    total_src = sum(v for g in src for r, v, a in src[g])
    total_out = float(np.nansum(res.values)) if len(res) else 0.0
    if abs(total_out - total_src) > 1e-12 * max(total_src, 1.0):
        raise Violation("total number of cycles %r -> %r (%s matrix %dx%d, R_goal %r, M %r, M2 %r)"
                        % (total_src, total_out, case["kind"], len(case["edges1"]) - 1, len(case["edges2"]) - 1, Rg, case["M"], case["M2"]),
                        bucket="matrix:total")
    rmax = max(r for g in src for r, v, a in src[g])
    tol = 1e-9 * max(rmax, 1e-300)
    placement = True
    if matrix_reorder_class(ser, extra_names):
        ctx.label("F12_c_class")
        placement = not ctx.known("F12_c")
    for g, items in src.items():
        got = out.get(g, [])
        tsrc = sum(v for r, v, a in items)
        tout = sum(v for _, _, v in got)
        if abs(tsrc - tout) > 1e-12 * max(tsrc, 1.0):
            raise Violation("group %r: cycles %r -> %r" % (g, tsrc, tout), bucket="matrix:group_total")
        edges = sorted(set([iv.right for iv, _, _ in got])) if placement else []
        for e in edges:
            cum = sum(v for iv, _, v in got if iv.right <= e)
            lo = sum(v for r, v, a in items if r < e - tol)
            hi = sum(v for r, v, a in items if r <= e + tol)
            if not (lo - 1e-9 * max(tsrc, 1.0) <= cum <= hi + 1e-9 * max(tsrc, 1.0)):
                raise Violation("group %r: %r cycles in result classes up to range %r, but the closed form puts between %r and %r there "
                                "(%s matrix, R_goal %r)" % (g, cum, e, lo, hi, case["kind"], Rg), bucket="matrix:placement")
        for iv, mv, v in got:
            # result classes lie on the target ray: mean edges = range edges / 2 * q_goal
            for x, y in ((iv.left, mv.left), (iv.right, mv.right)):
                if abs(y - x / 2.0 * qg) > 1e-9 * max(abs(x), abs(y), 1e-300):
                    raise Violation("result class range %r / mean %r is not on the target ray R=%r" % (iv, mv, Rg), bucket="matrix:on_ray")
    for g in out:
        if g not in src and sum(v for _, _, v in out[g]) != 0:
            raise Violation("result has cycles in group %r that the source does not have" % (g,), bucket="matrix:ghost_group")
