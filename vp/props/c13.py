"""C13 - signal broadcasting aligns operands without altering data or inputs.

Code under test: ``pylife.core.broadcaster.Broadcaster.broadcast`` (and through it every ``PylifeSignal``),
downstream ``WoehlerCurve.cycles`` / ``basquin_load`` and ``HaighDiagram.transform`` (droplevel=['R']).

Oracle: the dictionary join of ``vp/refs/join_ref.py`` (plain Python).  A result row is identified by its key
tuple; the value an operand must show in that row is the value it held under the row's key *restricted to the
operand's own levels* (NaN if it has no such key).  Levels are matched by NAME, never by position; the order of
levels and of rows of the result is left free (the statement only asks that both results carry the identical
index).  Unnamed levels are private to their operand; where a result has several unnamed levels every assignment
of them to the operands' unnamed levels is tried and one consistent assignment is enough.

Comparisons
-----------
Index keys and broadcast values are compared EXACTLY (``==``, NaN matches NaN): broadcasting copies values, no
arithmetic is involved; an int column that became float because NaN rows were added compares equal by value.
Downstream calculations (batch vs. element by element through the same public API with scalar operands) use
RTOL = 1e-12: both sides evaluate the same closed formula, the batch with numpy's vectorised ``power`` and the
scalar call with a 0-d array; the two kernels may differ by 1 ulp per operation (measured in this sandbox), a
handful of operations in a row stays below 1e-14, while a mis-aligned row differs in O(1).
"""

import itertools
import math

import numpy as np
import pandas as pd
from hypothesis import strategies as st

from ..core import Violation, subcheck, nontrivial_rule, assumptions
from ..refs import join_ref as ref

PROP = "C13"
RTOL = 1e-12

nontrivial_rule(PROP, "Non-trivial: both operands are indexed pandas objects and their indexes are not identical (names, order or keys "
                      "differ) - for the scalar/array sub-check: the parameter is an array of length >= 2 or the object a DataFrame; for "
                      "histories: >= 2 broadcasts of which one re-uses an operand or a result of an earlier step; for downstream "
                      "sub-checks: >= 2 curves/diagrams and >= 2 loads with non-identical indexes.")
assumptions(PROP, [
    "domain: every operand has >= 1 row, unique key tuples, unique level names inside one operand, no NaN keys; one kind of key per level "
    "name (int, str, float or Interval - overlapping Intervals included), so object and parameter never mix key types on a shared level",
    "unnamed (None) levels are never shared between operands (tests/core/test_broadcaster.py pins named x None -> cross join), except when "
    "both operands carry the very same Index object; the oracle accepts any consistent assignment of the result's unnamed levels",
    "quantifier restriction honoured by construction: when only some levels are shared (overlapping names), every key on the shared levels "
    "occurs in both operands; for contained / equal names keys may be missing on either side (NaN rows); in the contained-with-missing-keys "
    "class only the clauses the statement spells out are asserted (identical index, row values, no duplicate rows, every matching key combination present), "
    "not the exact row set (pandas drops the unmatched keys of the operand with fewer levels - observed, not judged)",
    "level names are strings or None: INTEGER level names are not generated - pandas resolves them against level numbers and its index "
    "join already returns wrong rows for a level named 0 (Broadcaster gives wrong values for names [zz] x [0], IndexError for a level "
    "named 1 on the unchanged code; reported to the coordinator, not asserted); falsy STRING names ('') are generated",
    "DataFrame column labels never coincide with index level names (no pyLife signal does that; pandas itself calls it ambiguous)",
    "a Series whose index is one unnamed level is a *record* (one signal with keys as in the class docstring): with a pandas parameter it is "
    "spread over the parameter's rows; with scalar/array parameters every Series is a record",
    "result level order, row order, Series names and dtypes are not part of the statement and are not asserted; DataFrame column labels are",
    "droplevel sub-check (droplevel is not documented; domain taken from the two repo tests and the only caller, HaighDiagram.transform, which "
    "drops 'R'): exactly ONE level is dropped and it belongs to the object alone",
    "downstream sub-checks use fully matched layouts (no NaN rows) because a missing curve has no 'scalar result' to compare with",
])

NAMES = ["a", "b", "c", "d"]
# Level names are arbitrary strings: names that look like the placeholders pandas (reset_index, read_csv) or an
# implementation may invent for unnamed levels must behave like any other name - in particular next to unnamed levels.
NAME_POOLS = [
    NAMES,
    ["level_0", "level_1", "level_2", "index"],
    ["level_0", "a", "level_1", "index"],
    ["None", "Unnamed: 0", "level_0", "0"],
    ["", "a", "level_0", "b"],        # a falsy name (the empty string) is a name, not "unnamed"
]
POOLS = {
    "int": [0, 1, 2, 3, 10, -1],
    "str": ["p", "q", "r", "s", "t", "u"],
    "float": [0.5, 1.5, 2.5, -1.0, 2.0, 1e6],
    "interval": [[0.0, 1.0], [1.0, 2.0], [2.0, 3.0], [1.5, 2.5], [0.0, 3.0], [-1.0, 0.0]],
}


# =========================================================================== case <-> pandas <-> model
def _mkey(k):
    """JSON key -> hashable model key (Interval = list [left, right] in JSON)."""
    if isinstance(k, (list, tuple)):
        return ("iv", float(k[0]), float(k[1]))
    return k


def _pykey(k):
    """pandas index entry -> model key."""
    if isinstance(k, pd.Interval):
        return ("iv", float(k.left), float(k.right))
    if isinstance(k, np.generic):
        k = k.item()
    if isinstance(k, float) and math.isnan(k):
        return None
    if k is pd.NaT or k is pd.NA:
        return None
    return k


def _level_index(keys, kind, name=None):
    if kind == "interval":
        return pd.IntervalIndex.from_tuples([tuple(k) for k in keys], name=name)
    if kind == "float":
        return pd.Index([float(k) for k in keys], dtype=np.float64, name=name)
    return pd.Index(list(keys), name=name)


def build_index(op):
    names, kinds, rows = op["names"], op["kinds"], op["rows"]
    if len(names) == 1:
        keys = [r[0] for r in rows]
        if op.get("range_index") and keys == list(range(len(keys))):
            return pd.RangeIndex(len(keys), name=names[0])
        return _level_index(keys, kinds[0], names[0])
    arrays = [_level_index([r[i] for r in rows], kinds[i]) for i in range(len(names))]
    return pd.MultiIndex.from_arrays(arrays, names=names)


def build(op, index=None):
    """Operand description -> pandas object."""
    idx = build_index(op) if index is None else index
    dtype = np.int64 if op.get("dtype") == "int" else np.float64
    vals = [[np.nan if v is None else v for v in row] for row in op["values"]]
    if op["kind"] == "series":
        return pd.Series([r[0] for r in vals], index=idx, name=op.get("name"), dtype=dtype)
    return pd.DataFrame(np.array(vals, dtype=dtype).reshape(len(vals), len(op["columns"])), index=idx, columns=list(op["columns"]))


def model(op, side):
    """Operand description -> reference table."""
    ids = ref.level_ids(op["names"], side)
    rows = [tuple(_mkey(k) for k in r) for r in op["rows"]]
    if len(set(rows)) != len(rows):
        raise ValueError("harness: duplicate keys generated")
    table = {r: [None if v is None else float(v) for v in vals] for r, vals in zip(rows, op["values"])}
    return {"ids": ids, "names": list(op["names"]), "rows": rows, "table": table,
            "columns": list(op["columns"]) if op["kind"] == "frame" else None, "ncols": len(op["values"][0])}


def _rows_of(idx):
    if isinstance(idx, pd.MultiIndex):
        return [tuple(_pykey(k) for k in t) for t in idx]
    return [(_pykey(k),) for k in idx]


def _values_of(x):
    a = x.to_numpy()
    if a.ndim == 1:
        a = a.reshape(-1, 1)
    out = []
    for row in a.tolist():
        out.append([None if (isinstance(v, float) and math.isnan(v)) or v is None or v is pd.NA else v for v in row])
    return out


def snapshot(x):
    """Everything the no-mutation clause talks about, as plain Python."""
    idx = x.index
    s = {
        "type": type(x).__name__,
        "index_type": type(idx).__name__,
        "names": list(idx.names),
        "name_types": [type(n).__name__ for n in idx.names],
        "level_dtypes": [str(idx.get_level_values(i).dtype) for i in range(idx.nlevels)],
        "rows": _rows_of(idx),
        "values": _values_of(x),
    }
    if isinstance(x, pd.DataFrame):
        s["columns"] = [_pykey(c) for c in x.columns]
        s["columns_name"] = list(x.columns.names)
        s["dtypes"] = [str(d) for d in x.dtypes]
    else:
        s["name"] = x.name
        s["dtypes"] = [str(x.dtype)]
    return s


def assert_unchanged(before, x, who, ctx=None):
    after = snapshot(x)
    if after != before:
        field = next(k for k in before if before[k] != after.get(k))
        raise Violation("%s operand modified by broadcast(): %s was %r, is now %r" % (who, field, before[field], after.get(field)),
                        bucket="mutated:%s:%s" % (who, field))


def _eqv(a, e):
    """value equality, None = NaN."""
    if a is None or e is None:
        return a is None and e is None
    return float(a) == float(e)


# =========================================================================== the alignment oracle
def _assignments(op_names, res_names):
    """All name-preserving injective maps  operand level position -> result level position."""
    fixed = {}
    free = []
    for pos, n in enumerate(op_names):
        if n is None:
            free.append(pos)
        else:
            hits = [i for i, rn in enumerate(res_names) if rn == n]
            if len(hits) != 1:
                return None, "level %r of an operand occurs %d times in the result levels %r" % (n, len(hits), res_names)
            fixed[pos] = hits[0]
    cands = [i for i, rn in enumerate(res_names) if rn is None]
    if len(cands) < len(free):
        return None, "result levels %r have fewer unnamed levels than an operand (%r)" % (res_names, op_names)
    out = []
    for perm in itertools.permutations(cands, len(free)):
        m = dict(fixed)
        m.update(zip(free, perm))
        out.append([m[pos] for pos in range(len(op_names))])
    return out, None


def _check_rows(mdl, amap, res_rows, res_vals, who):
    """Row clause for one operand under the level assignment ``amap``; returns None or (msg, bucket)."""
    table = mdl["table"]
    for r, got in zip(res_rows, res_vals):
        key = tuple(r[p] for p in amap)
        want = table.get(key)
        if want is None:
            want = [None] * len(got)
        if len(got) != len(want) or not all(_eqv(g, w) for g, w in zip(got, want)):
            return ("%s result row %r carries %r, the original holds %r for key %r" % (who, r, got, want, key), "row-value:%s" % who)
    return None


def check_alignment(om, pm, res_obj, res_prm, ctx, strict_rows=True):
    """All clauses on the two results of one broadcast (om/pm: reference tables of the originals)."""
    io, ip = res_obj.index, res_prm.index
    rows_o, rows_p = _rows_of(io), _rows_of(ip)
    if list(io.names) != list(ip.names) or rows_o != rows_p:
        raise Violation("results are not aligned: object result has levels %r rows %r, parameter result has levels %r rows %r"
                        % (list(io.names), rows_o[:8], list(ip.names), rows_p[:8]), bucket="index-differs")
    res_names = list(io.names)
    for who, mdl, res in (("object", om, res_obj), ("parameter", pm, res_prm)):
        if mdl["columns"] is not None:
            if not isinstance(res, pd.DataFrame) or [_pykey(c) for c in res.columns] != mdl["columns"]:
                raise Violation("%s result lost its columns %r: %r" % (who, mdl["columns"], getattr(res, "columns", None)),
                                bucket="columns:%s" % who)
        elif not isinstance(res, pd.Series):
            raise Violation("%s Series came back as %s" % (who, type(res).__name__), bucket="type:%s" % who)
    if len(set(rows_o)) != len(rows_o):
        dup = next(r for r in rows_o if rows_o.count(r) > 1)
        raise Violation("result index has duplicate rows, e.g. %r (operands have unique keys)" % (dup,), bucket="duplicate-rows")

    ao, err = _assignments(om["names"], res_names)
    if ao is None:
        raise Violation("object: " + err, bucket="levels:object")
    ap, err = _assignments(pm["names"], res_names)
    if ap is None:
        raise Violation("parameter: " + err, bucket="levels:parameter")
    vals_o, vals_p = _values_of(res_obj), _values_of(res_prm)

    first_fail = None
    n = len(res_names)
    for mo in ao:
        fo = _check_rows(om, mo, rows_o, vals_o, "object")
        for mp in ap:
            fail = fo or _check_rows(pm, mp, rows_o, vals_p, "parameter")
            if fail is None and set(mo) | set(mp) != set(range(n)):
                fail = ("result levels %r contain a level neither operand has (object %r, parameter %r)"
                        % (res_names, om["names"], pm["names"]), "spurious-level")
            if fail is None:
                fail = _check_row_set(om, mo, pm, mp, n, rows_o, ctx, strict_rows)
            if fail is None:
                return
            if first_fail is None:
                first_fail = fail
    raise Violation(first_fail[0], bucket=first_fail[1])


def _check_row_set(om, mo, pm, mp, n, rows, ctx, strict_rows):
    """Completeness: the result's key set is the reference join (levels identified by result position)."""
    j = ref.join(list(mo), om["rows"], list(mp), pm["rows"])
    want = [ref.project(r, j["ids"], list(range(n))) for r in j["rows"]]
    got = set(rows)
    all_shared = len(j["shared"]) == len(mo) == len(mp)
    if (j["unmatched_obj"] or j["unmatched_prm"]) and not all_shared:
        # contained names with keys missing on one side: the statement fixes the rows' content, not the row set
        ctx.label("partial_unmatched")
        missing = [r for r in want if r not in got]
        if missing:
            return ("matching key combination %r is missing from the result rows %r" % (missing[0], rows[:12]), "row-missing")
        return None
    if not strict_rows:
        return None
    if got != set(want):
        missing = [r for r in want if r not in got][:3]
        extra = [r for r in rows if r not in set(want)][:3]
        return ("result rows differ from the reference join: missing %r, unexpected %r (%d rows, reference %d)"
                % (missing, extra, len(rows), len(want)), "row-set")
    return None


# =========================================================================== known finding F05
def f05_class(op_o, op_p):
    """F05: pandas' ``align`` is skipped because the two *recoded* indexes are ``equals()``-identical although their LEVELS
    differ: at least one level is shared, the level lists differ (other names, other order, or an unnamed = private level
    on either side), both operands have the same number of levels and rows, and row by row the positional codes (first
    occurrence per level, object keys first) coincide position by position."""
    return _f05_models({"names": op_o["names"], "rows": [[_mkey(k) for k in r] for r in op_o["rows"]]},
                       {"names": op_p["names"], "rows": [[_mkey(k) for k in r] for r in op_p["rows"]]})


def f05c_class(op_o, op_p):
    """F05c: both operands have >= 2 levels, some but not all levels are shared, and a key of one operand has no partner
    on the shared levels while the OTHER operand has levels of its own: pandas' outer join then puts NaN into those
    levels, the recoded integer codes become NaN and ``restore_real_index`` raises IndexError (operands are left with
    recoded indexes).  Inside the quantifier only for contained names (overlapping names require all shared keys)."""
    return _f05c_models({"names": op_o["names"], "rows": [[_mkey(k) for k in r] for r in op_o["rows"]]},
                        {"names": op_p["names"], "rows": [[_mkey(k) for k in r] for r in op_p["rows"]]})


def _f05c_models(po, pp):
    if len(po["names"]) < 2 or len(pp["names"]) < 2:
        return False
    io, ip = ref.level_ids(po["names"], "o"), ref.level_ids(pp["names"], "p")
    j = ref.join(io, [tuple(r) for r in po["rows"]], ip, [tuple(r) for r in pp["rows"]])
    if not j["shared"]:
        return False
    o_private = len(j["shared"]) < len(io)
    p_private = len(j["shared"]) < len(ip)
    return bool((j["unmatched_obj"] and p_private) or (j["unmatched_prm"] and o_private))


def f05b_class(op_o, prm_kind):
    """F05b: a record Series whose keys are not all strings, broadcast against an array parameter
    (``DataFrame.assign(**series)`` needs string keywords)."""
    return prm_kind == "array" and op_o["kind"] == "series" and len(op_o["names"]) == 1 \
        and any(not isinstance(r[0], str) for r in op_o["rows"])


def _guarded(ctx, is_f05, call):
    """Run a broadcast; an exception raised for an input of the F05 class is the known finding (with > 2 levels the
    skipped join ends in KeyError 'Level ... not found' inside reorder_levels), everything else propagates."""
    try:
        return call()
    except Exception:  # noqa
        if is_f05 and ctx.known("F05"):
            return None
        raise


def _is_record(op):
    return op["kind"] == "series" and op["names"] == [None]


# =========================================================================== generators
def _values(nrows, ncols, base, dtype, holes=()):
    out = []
    for i in range(nrows):
        row = []
        for c in range(ncols):
            v = base + i * ncols + c
            if dtype == "float":
                v = v + 0.25
            row.append(None if (i, c) in holes else v)
        out.append(row)
    return out


@st.composite
def _operand_payload(draw, op, base, kind=None):
    """Fill kind / columns / values / name into an operand that already has names, kinds, rows."""
    n = len(op["rows"])
    op["kind"] = kind or draw(st.sampled_from(["series", "frame"]))
    op["dtype"] = draw(st.sampled_from(["float", "float", "int"]))
    if op["kind"] == "frame":
        ncols = draw(st.integers(1, 3))
        cols = draw(st.permutations(["x", "y", "z", "range", "k_1"]))[:ncols]
        op["columns"] = list(cols)
    else:
        ncols = 1
        op["columns"] = None
        op["name"] = draw(st.sampled_from([None, "x", "a", "val", "level_0"]))
    holes = ()
    if op["dtype"] == "float" and draw(st.integers(0, 7)) == 0:
        holes = ((draw(st.integers(0, n - 1)), draw(st.integers(0, ncols - 1))),)
    op["values"] = _values(n, ncols, base, op["dtype"], holes)
    if len(op["names"]) == 1 and op["kinds"][0] == "int" and [r[0] for r in op["rows"]] == list(range(n)):
        op["range_index"] = draw(st.booleans())
    return op


def _shrink_counts(counts, cap):
    counts = list(counts)
    while True:
        p = 1
        for c in counts:
            p *= c
        if p <= cap:
            return counts
        i = counts.index(max(counts))
        counts[i] -= 1


@st.composite
def layouts(draw, tier, matched_only=False, rels=None, max_private=2):
    """Two index layouts (object, parameter) with a drawn relation of their level names."""
    kmax = 3 if tier == "quick" else 4
    rel = draw(st.sampled_from(rels or ["equal", "disjoint", "obj_in_prm", "prm_in_obj", "overlap", "overlap"]))
    all_names = draw(st.sampled_from(NAME_POOLS))
    pool = list(draw(st.permutations(all_names)))
    ns = {"equal": draw(st.integers(1, 3)), "disjoint": 0}.get(rel, draw(st.integers(1, 2)))
    shared = [pool.pop() for _ in range(ns)]

    def private(side, k):
        out = []
        for _ in range(k):
            if draw(st.integers(0, 2)) == 0 or not pool:
                out.append((side, len(out)))          # unnamed level
            else:
                out.append(pool.pop())
        return out
    n_o = draw(st.integers(1, max_private)) if rel in ("disjoint", "prm_in_obj", "overlap") else 0
    n_p = draw(st.integers(1, max_private)) if rel in ("disjoint", "obj_in_prm", "overlap") else 0
    if rel == "overlap" and ns == 2:
        n_o, n_p = 1, min(n_p, 1) or 1
    priv_o, priv_p = private("o", n_o), private("p", n_p)
    lev_o = list(draw(st.permutations(shared + priv_o)))
    lev_p = list(draw(st.permutations(shared + priv_p)))

    kind_of = {lv: draw(st.sampled_from(["int", "int", "int", "str", "float", "interval"])) for lv in shared + priv_o + priv_p}
    coincide = draw(st.booleans())     # keys taken from the head of the pool in pool order: positional codes coincide across levels

    def keylist(lv, count):
        p = POOLS[kind_of[lv]]
        if coincide:
            return list(p[:count])
        return list(draw(st.permutations(p)))[:count]

    free = (not matched_only) and rel in ("equal", "obj_in_prm", "prm_in_obj") and draw(st.integers(0, 2)) == 0
    cap = 18 if tier == "quick" else 40
    cnt_o = _shrink_counts([draw(st.integers(1, kmax)) for _ in lev_o], cap)
    keys_o = {lv: keylist(lv, c) for lv, c in zip(lev_o, cnt_o)}
    keys_p = {}
    for lv in lev_p:
        if lv in keys_o:
            if free:
                keys_p[lv] = keylist(lv, draw(st.integers(1, kmax)))
            elif draw(st.booleans()):
                keys_p[lv] = list(keys_o[lv])
            else:
                keys_p[lv] = list(draw(st.permutations(keys_o[lv])))
        else:
            keys_p[lv] = keylist(lv, draw(st.integers(1, kmax)))
    cnt_p = _shrink_counts([len(keys_p[lv]) for lv in lev_p], cap)
    for lv, c in zip(lev_p, cnt_p):
        if lv not in keys_o or free:
            keys_p[lv] = keys_p[lv][:c]

    def rows_of(levs, keys, ragged_ok):
        rows = [list(t) for t in itertools.product(*[keys[lv] for lv in levs])]
        mode = draw(st.sampled_from(["full", "full", "ragged"]))
        if mode == "ragged" and len(rows) > 1:
            sh = [i for i, lv in enumerate(levs) if lv in shared]
            drop = draw(st.lists(st.integers(0, len(rows) - 1), max_size=max(1, len(rows) // 2), unique=True))
            for d in sorted(drop, reverse=True):
                if len(rows) == 1:
                    break
                if not ragged_ok:
                    proj = [rows[d][i] for i in sh]
                    if sum(1 for r in rows if [r[i] for i in sh] == proj) < 2:
                        continue          # would remove a shared-level key from this operand only
                del rows[d]
        order = draw(st.sampled_from(["product", "product", "shuffled", "reversed"]))
        if order == "reversed":
            rows.reverse()
        elif order == "shuffled":
            rows = list(draw(st.permutations(rows)))
        return rows

    ragged_free = free or rel == "disjoint" or (rel == "equal" and not matched_only)
    op_o = {"names": [None if isinstance(lv, tuple) else lv for lv in lev_o], "kinds": [kind_of[lv] for lv in lev_o],
            "rows": rows_of(lev_o, keys_o, ragged_free)}
    op_p = {"names": [None if isinstance(lv, tuple) else lv for lv in lev_p], "kinds": [kind_of[lv] for lv in lev_p],
            "rows": rows_of(lev_p, keys_p, ragged_free)}
    return op_o, op_p, rel


@st.composite
def swapped_layouts(draw, tier):
    """Same SET of level names on both sides in a different ORDER, and key tuples that coincide position by position:
    every level carries the same key list, both operands list the full product in the same (possibly shuffled) order.
    Read by position the two indexes are ``equals()``; read by name row i of the parameter belongs to another object row."""
    n = draw(st.sampled_from([2, 2, 2, 3]))
    names = list(draw(st.permutations(draw(st.sampled_from(NAME_POOLS)))))[:n]
    perm = draw(st.sampled_from([list(q) for q in itertools.permutations(range(n)) if list(q) != list(range(n))]))
    kind = draw(st.sampled_from(["int", "int", "str", "float", "interval"]))
    count = draw(st.integers(2, 3 if n == 2 else 2))
    keys = POOLS[kind][:count] if draw(st.booleans()) else list(draw(st.permutations(POOLS[kind])))[:count]
    rows = [list(t) for t in itertools.product(keys, repeat=n)]
    if draw(st.booleans()):
        rows = list(draw(st.permutations(rows)))
    op_o = {"names": names, "kinds": [kind] * n, "rows": [list(r) for r in rows]}
    op_p = {"names": [names[i] for i in perm], "kinds": [kind] * n, "rows": [list(r) for r in rows]}
    return op_o, op_p, "equal"


@st.composite
def _align_cases(draw, tier):
    if draw(st.integers(0, 9)) == 0:
        op_o, op_p, rel = draw(swapped_layouts(tier))
        draw(_operand_payload(op_o, 1))
        draw(_operand_payload(op_p, 1000))
        return {"obj": op_o, "prm": op_p, "same_index_object": False}
    op_o, op_p, rel = draw(layouts(tier))
    same_object = False
    if rel == "equal" and draw(st.integers(0, 3)) == 0:
        # identical index on both sides; optionally the very same Index object
        op_p["names"], op_p["kinds"], op_p["rows"] = list(op_o["names"]), list(op_o["kinds"]), [list(r) for r in op_o["rows"]]
        same_object = draw(st.booleans())
    draw(_operand_payload(op_o, 1))
    draw(_operand_payload(op_p, 1000))
    if _is_record(op_o):
        op_o["kind"], op_o["columns"] = "frame", ["x"]
    return {"obj": op_o, "prm": op_p, "same_index_object": same_object}


def _label_layout(case, ctx):
    op_o, op_p = case["obj"], case["prm"]
    rel = ref.relation(op_o["names"], op_p["names"])
    ctx.label("rel:" + rel, "kinds:%s x %s" % (op_o["kind"], op_p["kind"]))
    if None in op_o["names"] or None in op_p["names"]:
        ctx.label("unnamed_level")
    if rel != "disjoint" and op_o["names"] != op_p["names"] and sorted(map(repr, op_o["names"])) == sorted(map(repr, op_p["names"])):
        ctx.label("same_names_other_order")
    if len(op_o["rows"]) == len(op_p["rows"]):
        ctx.label("equal_length")
    if "interval" in op_o["kinds"] + op_p["kinds"]:
        ctx.label("interval_keys")
    io, ip = ref.level_ids(op_o["names"], "o"), ref.level_ids(op_p["names"], "p")
    oc, pc = ref.positional_codes(io, [tuple(map(_mkey, r)) for r in op_o["rows"]], ip, [tuple(map(_mkey, r)) for r in op_p["rows"]])
    if oc == pc:
        ctx.label("codes_coincide")
    if max(len(op_o["names"]), len(op_p["names"])) >= 3:
        ctx.label("three_levels")
    if case.get("same_index_object"):
        ctx.label("same_index_object")
    if rel == "equal" and op_o["names"] != op_p["names"] and op_o["rows"] == op_p["rows"]:
        ctx.label("swapped_levels_same_tuples")
    placeholder = [n for n in op_o["names"] + op_p["names"] if n is not None and n not in NAMES]
    if any(n is not None and not n for n in op_o["names"] + op_p["names"]):
        ctx.label("falsy_level_name")
    if placeholder:
        ctx.label("placeholder_names")
        if None in op_o["names"] + op_p["names"]:
            ctx.label("placeholder_name_next_to_unnamed")
    return rel


def run_alignment(case, ctx):
    op_o, op_p = case["obj"], case["prm"]
    from pylife.core.broadcaster import Broadcaster
    _label_layout(case, ctx)
    obj = build(op_o)
    prm = build(op_p, index=obj.index if case.get("same_index_object") else None)
    om, pm = model(op_o, "o"), model(op_p, "p")
    if not (op_o["names"] == op_p["names"] and om["rows"] == pm["rows"]):
        ctx.nontrivial()
    so, sp = snapshot(obj), snapshot(prm)
    if f05c_class(op_o, op_p) and ctx.known("F05c"):
        return
    is_f05 = f05_class(op_o, op_p)
    res = _guarded(ctx, is_f05, lambda: Broadcaster(obj).broadcast(prm))
    if res is None:
        return
    res_prm, res_obj = res
    assert_unchanged(so, obj, "object")
    assert_unchanged(sp, prm, "parameter")
    if is_f05 and ctx.known("F05"):
        return
    check_alignment(om, pm, res_obj, res_prm, ctx)


@subcheck(PROP, "align_random", strategy=_align_cases, quick=3000, thorough=100000,
          doc="random level-name layouts (equal / disjoint / contained / overlapping, unnamed levels, permuted level order, int/str/float/"
              "Interval keys, ragged and shuffled rows, Series/DataFrame on both sides): identical result index, every row = dictionary "
              "lookup of the restricted key, row set = reference join, operands untouched")
def align_random(case, ctx):
    run_alignment(case, ctx)


# --------------------------------------------------------------------------- bounded exhaustive
def _enum_layouts(maxlev, pool):
    out = []
    for n in range(1, maxlev + 1):
        for t in itertools.product(pool, repeat=n):
            named = [x for x in t if x is not None]
            if len(set(named)) == len(named):
                out.append(list(t))
    return out


def _enum_cases(tier):
    """ALL pairs of level-name layouts with up to 2 (thorough: 3) levels over {'', level_0, level_1, None} (the empty
    string is a falsy NAME, the other two look like placeholders for unnamed levels - names are arbitrary strings); every level has two keys
    (base of the level name + {0, 1}: different keys, same positional codes), listed forwards or backwards per operand
    and level; full product rows; Series x Series and DataFrame x DataFrame (thorough: all four).  Thorough adds a third
    key list per parameter level that is disjoint from the object's (only where the quantifier admits missing keys)."""
    quick = tier == "quick"
    lays = _enum_layouts(2 if quick else 3, ["", "level_0", "level_1", None])
    base = {"": 0, "level_0": 10, "level_1": 20, None: 30}
    kinds = [("series", "series"), ("frame", "frame")] if quick else \
        [("series", "series"), ("frame", "frame"), ("series", "frame"), ("frame", "series")]
    variants = ["fwd", "rev"]

    def keys(name, var):
        b = base[name]
        return {"fwd": [b, b + 1], "rev": [b + 1, b], "other": [b + 5, b + 6], "one": [b]}[var]

    for lo in lays:
        for lp in lays:
            rel = ref.relation(lo, lp)
            pvars = list(variants)
            if not quick and len(lo) <= 2 and len(lp) <= 2:
                pvars = pvars + (["other", "one"] if rel in ("equal", "obj_in_prm", "prm_in_obj") else ["one"] if rel == "disjoint" else [])
            ovs = itertools.product(variants if len(lo) <= 2 else ["fwd"], repeat=len(lo))
            for ov in ovs:
                for pv in itertools.product(pvars if len(lp) <= 2 else variants, repeat=len(lp)):
                    # 'other'/'one' only make a difference on shared levels for 'other'; keep them everywhere (cheap)
                    rows_o = [list(t) for t in itertools.product(*[keys(n, v) for n, v in zip(lo, ov)])]
                    rows_p = [list(t) for t in itertools.product(*[keys(n, v) for n, v in zip(lp, pv)])]
                    for ko, kp in kinds:
                        if ko == "series" and lo == [None]:
                            continue     # a record, see sub-check scalar_array
                        yield {
                            "obj": {"kind": ko, "names": lo, "kinds": ["int"] * len(lo), "rows": rows_o, "dtype": "float",
                                    "columns": ["x", "y"] if ko == "frame" else None, "name": "o",
                                    "values": _values(len(rows_o), 2 if ko == "frame" else 1, 1, "float")},
                            "prm": {"kind": kp, "names": lp, "kinds": ["int"] * len(lp), "rows": rows_p, "dtype": "float",
                                    "columns": ["u", "v"] if kp == "frame" else None, "name": "p",
                                    "values": _values(len(rows_p), 2 if kp == "frame" else 1, 1000, "float")},
                            "same_index_object": False,
                        }


@subcheck(PROP, "align_exhaustive", enumerate_=_enum_cases,
          doc="bounded exhaustive: every pair of level-name layouts with <= 2 (thorough 3) levels over {'',level_0,level_1,None}, two keys per level "
              "listed forwards/backwards (positional codes of different level names coincide by construction)")
def align_exhaustive(case, ctx):
    run_alignment(case, ctx)


# --------------------------------------------------------------------------- scalar / array parameters, record Series
@st.composite
def _scalar_array_cases(draw, tier):
    mode = draw(st.sampled_from(["scalar", "array", "array", "record_pandas"]))
    if mode == "record_pandas":
        n = draw(st.integers(1, 4))
        kind = draw(st.sampled_from(["str", "str", "int"]))
        keys = list(draw(st.permutations(POOLS[kind] if kind == "int" else ["k_1", "ND", "SD", "TN", "foo"])))[:n]
        op_o = {"names": [None], "kinds": [kind], "rows": [[k] for k in keys]}
        draw(_operand_payload(op_o, 1, kind="series"))
        _, op_p, _ = draw(layouts(tier, rels=["disjoint"]))
        draw(_operand_payload(op_p, 1000))
        case = {"obj": op_o, "prm": op_p}
        if draw(st.booleans()):
            case["update"] = {"row": draw(st.integers(0, n - 1)), "col": 0, "value": 777 if op_o["dtype"] == "int" else 777.5}
        return case
    as_record = draw(st.booleans())
    if as_record:
        n = draw(st.integers(1, 4))
        kind = draw(st.sampled_from(["str", "str", "str", "int"]))
        keys = list(draw(st.permutations(POOLS[kind] if kind == "int" else ["k_1", "ND", "SD", "TN", "foo"])))[:n]
        op_o = {"names": [draw(st.sampled_from([None, None, "idx"]))], "kinds": [kind], "rows": [[k] for k in keys]}
        draw(_operand_payload(op_o, 1, kind="series"))
    else:
        op_o, _, _ = draw(layouts(tier, rels=["disjoint"]))
        draw(_operand_payload(op_o, 1, kind="frame"))
    if mode == "scalar":
        prm = {"kind": "scalar", "value": draw(st.sampled_from([5.0, 0.0, -2.5, 7, 1e300])),
               "as": draw(st.sampled_from(["python", "numpy", "0d"]))}
    else:
        nrows = len(op_o["rows"])
        if op_o["kind"] == "frame":
            m = draw(st.sampled_from([nrows, nrows, nrows, 1, nrows + 1, 0]))
        else:
            m = draw(st.integers(0, 4))
        prm = {"kind": "array", "values": [100.0 + 3 * i for i in range(m)], "as": draw(st.sampled_from(["list", "ndarray", "tuple"]))}
    case = {"obj": op_o, "prm": prm}
    if draw(st.booleans()):
        # the same Broadcaster instance is used again after the signal was updated in place
        case["update"] = {"row": draw(st.integers(0, len(op_o["rows"]) - 1)), "col": draw(st.integers(0, len(op_o["values"][0]) - 1)),
                          "value": 777 if op_o["dtype"] == "int" else 777.5}
    return case


@subcheck(PROP, "scalar_array", strategy=_scalar_array_cases, quick=1200, thorough=40000,
          doc="scalar and array parameters against record Series / DataFrames, record Series against pandas parameters "
              "(the first four rows of the class docstring table)")
def scalar_array(case, ctx):
    from pylife.core.broadcaster import Broadcaster
    import copy
    op_o, p = case["obj"], case["prm"]
    obj = build(op_o)
    held = Broadcaster(obj)
    _scalar_array_round(held, obj, op_o, p, ctx)
    upd = case.get("update")
    if upd:
        # in-place update of the signal the instance holds (accessor instances are cached by pandas and live as long as the
        # object), then the same instance broadcasts again: the result must show the CURRENT values
        ctx.label("held_instance_after_update")
        op2 = copy.deepcopy(op_o)
        op2["values"][upd["row"]][upd["col"]] = upd["value"]
        if op_o["kind"] == "series":
            obj.iloc[upd["row"]] = upd["value"]
        else:
            obj.iloc[upd["row"], upd["col"]] = upd["value"]
        p2 = copy.deepcopy(p)
        if p2["kind"] == "array":
            p2["values"] = [v + 1000.0 for v in p2["values"]]
        try:
            _scalar_array_round(held, obj, op2, p2, ctx)
        except Violation as v:
            raise Violation("second broadcast on the same Broadcaster instance after an in-place update of the signal: " + v.msg,
                            bucket="held:" + v.bucket)


def _scalar_array_round(held, obj, op_o, p, ctx):
    so = snapshot(obj)
    om = model(op_o, "o")
    ctx.label("obj:%s" % op_o["kind"], "prm:%s" % p["kind"])
    keys = [r[0] for r in om["rows"]]
    ovals = [om["table"][r][0] for r in om["rows"]] if op_o["kind"] == "series" else None

    def record_frame_ok(res_obj, nrows):
        if not isinstance(res_obj, pd.DataFrame):
            raise Violation("record Series was not spread to a DataFrame: %r" % type(res_obj).__name__, bucket="record:type")
        if [_pykey(c) for c in res_obj.columns] != keys:
            raise Violation("record keys %r became columns %r" % (keys, list(res_obj.columns)), bucket="record:columns")
        vals = _values_of(res_obj)
        if len(vals) != nrows or any(not all(_eqv(g, w) for g, w in zip(row, ovals)) for row in vals):
            raise Violation("record values %r were spread to %r (%d rows expected)" % (ovals, vals[:5], nrows), bucket="record:values")

    if p["kind"] in ("series", "frame"):                      # record Series x pandas parameter
        prm = build(p)
        sp = snapshot(prm)
        ctx.nontrivial()
        res_prm, res_obj = held.broadcast(prm)
        assert_unchanged(so, obj, "object")
        assert_unchanged(sp, prm, "parameter")
        if snapshot(res_prm) != sp:
            raise Violation("parameter changed while spreading a record Series over it", bucket="record:parameter")
        if list(res_obj.index.names) != list(prm.index.names) or _rows_of(res_obj.index) != _rows_of(prm.index):
            raise Violation("record result index %r differs from the parameter's %r" % (_rows_of(res_obj.index)[:6], _rows_of(prm.index)[:6]),
                            bucket="index-differs")
        record_frame_ok(res_obj, len(prm))
        return

    if p["kind"] == "scalar":
        val = p["value"]
        arg = {"python": val, "numpy": np.float64(val), "0d": np.array(float(val))}[p["as"]]
        if op_o["kind"] == "frame":
            ctx.nontrivial()
        res_prm, res_obj = held.broadcast(arg)
        assert_unchanged(so, obj, "object")
        if snapshot(res_obj) != so:
            raise Violation("object changed by broadcasting a scalar", bucket="scalar:object")
        if op_o["kind"] == "series":
            if np.ndim(res_prm) != 0 or not (res_prm == val):
                raise Violation("scalar parameter %r came back as %r" % (val, res_prm), bucket="scalar:value")
        else:
            if not isinstance(res_prm, pd.Series) or _rows_of(res_prm.index) != so["rows"] or list(res_prm.index.names) != so["names"] \
                    or any(not _eqv(v[0], val) for v in _values_of(res_prm)):
                raise Violation("scalar %r broadcast to a DataFrame gave %r" % (val, res_prm), bucket="scalar:frame")
        return

    vals = p["values"]
    arg = {"list": list(vals), "ndarray": np.array(vals, dtype=float), "tuple": tuple(vals)}[p["as"]]
    n = len(vals)
    if n >= 2 or op_o["kind"] == "frame":
        ctx.nontrivial()
    if op_o["kind"] == "frame":
        nrows = len(op_o["rows"])
        ctx.label("array_len:%s" % ("match" if n == nrows else "one" if n == 1 else "mismatch"))
        try:
            res_prm, res_obj = held.broadcast(arg)
        except ValueError as e:
            assert_unchanged(so, obj, "object")
            if n in (nrows, 1) or "Dimension mismatch" not in str(e):
                raise
            ctx.tolerate("ValueError: Dimension mismatch (documented)")
            return
        assert_unchanged(so, obj, "object")
        if n not in (nrows, 1):
            raise Violation("array of %d values accepted for a DataFrame of %d rows" % (n, nrows), bucket="array:mismatch-accepted")
        if snapshot(res_obj) != so:
            raise Violation("object changed by broadcasting an array", bucket="array:object")
        want = vals if n == nrows else vals * nrows
        if not isinstance(res_prm, pd.Series) or _rows_of(res_prm.index) != so["rows"] or list(res_prm.index.names) != so["names"] \
                or [v[0] for v in _values_of(res_prm)] != want:
            raise Violation("array %r broadcast to a DataFrame gave %r" % (vals, res_prm), bucket="array:frame")
        return
    # record Series x array
    ctx.label("record_keys:%s" % op_o["kinds"][0])
    if f05b_class(op_o, "array") and ctx.known("F05b"):
        return
    res_prm, res_obj = held.broadcast(arg)
    assert_unchanged(so, obj, "object")
    if not isinstance(res_prm, pd.Series) or [v[0] for v in _values_of(res_prm)] != vals:
        raise Violation("array parameter %r came back as %r" % (vals, res_prm), bucket="array:value")
    if _rows_of(res_prm.index) != _rows_of(res_obj.index) or list(res_prm.index.names) != list(res_obj.index.names):
        raise Violation("record x array: result indexes differ: %r vs %r" % (res_prm.index, res_obj.index), bucket="index-differs")
    record_frame_ok(res_obj, n)


# --------------------------------------------------------------------------- droplevel
@st.composite
def _droplevel_cases(draw, tier):
    op_o, op_p, rel = draw(layouts(tier, matched_only=True, rels=["disjoint", "prm_in_obj", "overlap"]))
    draw(_operand_payload(op_o, 1))
    draw(_operand_payload(op_p, 1000))
    if _is_record(op_o):
        op_o["kind"], op_o["columns"] = "frame", ["x"]
    only_o = [n for n in op_o["names"] if n is not None and n not in op_p["names"]]
    if not only_o:
        # make one private level of the object named so that it can be addressed
        i = next(i for i, n in enumerate(op_o["names"]) if n is None)
        op_o["names"][i] = "zz"
        only_o = ["zz"]
    return {"obj": op_o, "prm": op_p, "droplevel": [draw(st.sampled_from(only_o))]}


@subcheck(PROP, "droplevel", strategy=_droplevel_cases, quick=800, thorough=30000,
          doc="broadcast(parameter, droplevel=[levels only the object has]): object result as without droplevel; parameter result = "
              "the aligned parameter with those levels removed (one row per remaining key, value = dictionary lookup)")
def droplevel(case, ctx):
    from pylife.core.broadcaster import Broadcaster
    op_o, op_p, drop = case["obj"], case["prm"], case["droplevel"]
    _label_layout(case, ctx)
    obj, prm = build(op_o), build(op_p)
    om, pm = model(op_o, "o"), model(op_p, "p")
    so, sp = snapshot(obj), snapshot(prm)
    ctx.nontrivial()
    is_f05 = f05_class(op_o, op_p)
    res = _guarded(ctx, is_f05, lambda: Broadcaster(obj).broadcast(prm, droplevel=list(drop)))
    if res is None:
        return
    res_prm, res_obj = res
    assert_unchanged(so, obj, "object")
    assert_unchanged(sp, prm, "parameter")
    if is_f05 and ctx.known("F05"):
        return
    # object side: exactly the plain alignment (checked against the reference through a NaN-free stand-in for the parameter)
    full_names = list(res_obj.index.names)
    rows_full = _rows_of(res_obj.index)
    ao, err = _assignments(om["names"], full_names)
    if ao is None:
        raise Violation("object: " + err, bucket="levels:object")
    fails = [_check_rows(om, mo, rows_full, _values_of(res_obj), "object") for mo in ao]
    if all(fails):
        raise Violation(fails[0][0], bucket="drop:" + fails[0][1])
    if any(d in res_prm.index.names for d in drop):
        raise Violation("dropped level(s) %r still in the parameter result levels %r" % (drop, list(res_prm.index.names)), bucket="drop:not-dropped")
    keep_pos = [i for i, n in enumerate(full_names) if n not in drop]
    want_names = [full_names[i] for i in keep_pos]
    got_names = list(res_prm.index.names)
    rows_p = _rows_of(res_prm.index)
    if sorted(map(repr, got_names)) != sorted(map(repr, want_names)):
        raise Violation("parameter result levels %r, expected the object result's levels %r without %r" % (got_names, full_names, drop),
                        bucket="drop:levels")
    if len(set(rows_p)) != len(rows_p):
        raise Violation("parameter result has duplicate rows after droplevel: %r" % (rows_p[:8],), bucket="drop:duplicates")
    ap, err = _assignments(pm["names"], got_names)
    if ap is None:
        raise Violation("parameter: " + err, bucket="levels:parameter")
    fails = [_check_rows(pm, mp, rows_p, _values_of(res_prm), "parameter") for mp in ap]
    if all(fails):
        raise Violation(fails[0][0], bucket="drop:" + fails[0][1])
    # row set: projections of the full rows (levels matched by name; unnamed levels make the projection ambiguous -> by count only)
    if None not in full_names or full_names.count(None) == 1:
        proj = set(tuple(r[full_names.index(n)] for n in got_names) for r in rows_full)
        if set(rows_p) != proj:
            raise Violation("parameter rows after droplevel %r are not the projection of the aligned rows %r" % (sorted(map(str, rows_p))[:8], sorted(map(str, proj))[:8]),
                            bucket="drop:row-set")
    # the full (object) row set is the reference join
    j = ref.join(om["ids"], om["rows"], pm["ids"], pm["rows"])
    if len(rows_full) != len(j["rows"]) or len(set(rows_full)) != len(rows_full):
        raise Violation("object result has %d rows, reference join %d" % (len(rows_full), len(j["rows"])), bucket="drop:row-count")


# --------------------------------------------------------------------------- histories (stateful)
@st.composite
def _history_cases(draw, tier):
    """A pool of 2-4 operands and a list of operations; an operation [i, j] broadcasts pool[i] against pool[j] (through ONE
    Broadcaster instance per object, held for the whole history) and appends both results to the pool (they can be operands of
    later steps); an operation ["set", i, row, col, value] overwrites one value of original object i in place."""
    npool = draw(st.integers(2, 3))
    objs = []
    op_o, op_p, _ = draw(layouts(tier, max_private=1))
    objs += [op_o, op_p]
    if npool == 3:
        op_q, _, _ = draw(layouts(tier, max_private=1))
        objs.append(op_q)
    for i, op in enumerate(objs):
        draw(_operand_payload(op, 1 + 1000 * i))
        if _is_record(op):
            op["kind"], op["columns"] = "frame", ["x"]
    nops = draw(st.integers(2, 5 if tier == "quick" else 8))
    ops = []
    size = len(objs)
    for _ in range(nops):
        last = next((o for o in reversed(ops) if o[0] != "set"), None)
        if ops and draw(st.integers(0, 3)) == 0:
            # in-place update of one value of an original object; the held Broadcaster instances keep being used afterwards
            ops.append(["set", draw(st.integers(0, len(objs) - 1)), draw(st.integers(0, 40)), draw(st.integers(0, 2)), 5000 + len(ops)])
            continue
        if last and draw(st.integers(0, 2)) == 0:
            i, j = last[0], last[1]              # exact repetition of the previous broadcast
        else:
            i, j = draw(st.integers(0, size - 1)), draw(st.integers(0, size - 1))
        ops.append([i, j])
        size += 2
    return {"objects": objs, "ops": ops}


@subcheck(PROP, "repeat_history", strategy=_history_cases, quick=900, thorough=30000,
          doc="stateful: a pool of live pandas objects, a list of broadcasts pool[i] x pool[j] (results join the pool); after EVERY step the "
              "results satisfy the alignment oracle against the model tables and EVERY object in the pool still equals its model "
              "(values, index, level names, types)")
def repeat_history(case, ctx):
    from pylife.core.broadcaster import Broadcaster
    live = [build(op) for op in case["objects"]]
    models = []
    for k, op in enumerate(case["objects"]):
        m = model(op, "o")
        models.append({"names": m["names"], "rows": m["rows"], "table": m["table"], "columns": m["columns"], "ncols": m["ncols"]})
    snaps = [snapshot(x) for x in live]
    reused = False
    skipped = 0
    held = {}
    for step, op in enumerate(case["ops"]):
        if op[0] == "set":
            _, i, r, c, value = op
            x, m = live[i], models[i]
            r, c = r % len(m["rows"]), c % m["ncols"]
            if isinstance(x, pd.Series):
                x.iloc[r] = value
            else:
                x.iloc[r, c] = value
            m["table"][m["rows"][r]][c] = float(value)
            for k in range(len(live)):
                if live[k] is x:
                    snaps[k] = snapshot(x)
            ctx.label("in_place_update")
            continue
        i, j = op
        a, b = live[i], live[j]
        ma, mb = models[i], models[j]
        if i >= len(case["objects"]) or j >= len(case["objects"]) or [i, j] in case["ops"][:step]:
            reused = True
        usable = True
        for m in (ma, mb):
            named = [n for n in m["names"] if n is not None]
            if len(set(named)) != len(named):
                usable = False
        if isinstance(a, pd.Series) and list(a.index.names) == [None]:
            usable = False               # record semantics, covered by scalar_array
        if len(ma["rows"]) * len(mb["rows"]) > 400:
            usable = False               # keep histories small
        if not usable:
            skipped += 1
            live += [a, b]
            models += [ma, mb]
            snaps += [snaps[i], snaps[j]]
            continue
        pseudo_o = {"names": ma["names"], "rows": [list(r) for r in ma["rows"]]}
        pseudo_p = {"names": mb["names"], "rows": [list(r) for r in mb["rows"]]}
        if _f05c_models(pseudo_o, pseudo_p) and ctx.known("F05c"):
            live += [a, b]
            models += [ma, mb]
            snaps += [snaps[i], snaps[j]]
            continue
        is_f05 = _f05_models(pseudo_o, pseudo_p)
        if id(a) not in held:
            held[id(a)] = Broadcaster(a)
        res = _guarded(ctx, is_f05, lambda: held[id(a)].broadcast(b))
        if res is None:
            return            # the exception left the operands recoded: the history cannot go on
        res_prm, res_obj = res
        # invariant 1: nothing in the pool changed (operands of this step included)
        for k, x in enumerate(live):
            try:
                assert_unchanged(snaps[k], x, "pool[%d] (after step %d: %d x %d)" % (k, step, i, j))
            except Violation as v:
                raise Violation(v.msg, bucket="history:" + v.bucket.split(":")[0] + ":" + v.bucket.split(":")[-1])
        # invariant 2: the results of this step are the reference alignment
        om = dict(ma, ids=ref.level_ids(ma["names"], "o"))
        pm = dict(mb, ids=ref.level_ids(mb["names"], "p"))
        if is_f05 and ctx.known("F05"):
            live += [a, b]
            models += [ma, mb]
            snaps += [snaps[i], snaps[j]]
            continue
        try:
            check_alignment(om, pm, res_obj, res_prm, ctx)
        except Violation as v:
            raise Violation("step %d (pool[%d] x pool[%d]): %s" % (step, i, j, v.msg), bucket="history:" + v.bucket)
        # the results join the pool; their model is what the live results show (just verified against the reference)
        for res, src in ((res_obj, ma), (res_prm, mb)):
            rows = _rows_of(res.index)
            live.append(res)
            models.append({"names": list(res.index.names), "rows": rows,
                           "table": {r: [None if v is None else float(v) for v in vs] for r, vs in zip(rows, _values_of(res))},
                           "columns": src["columns"], "ncols": src["ncols"]})
            snaps.append(snapshot(res))
    if skipped:
        ctx.label("steps_skipped")
    if len([o for o in case["ops"] if o[0] != "set"]) - skipped >= 2 and reused:
        ctx.nontrivial()
        ctx.label("reuse")


def _f05_models(po, pp):
    no, np_ = po["names"], pp["names"]
    if len(no) != len(np_) or len(po["rows"]) != len(pp["rows"]):
        return False
    io, ip = ref.level_ids(no, "o"), ref.level_ids(np_, "p")
    if io == ip or not set(io) & set(ip):
        return False
    if len(no) <= 2 and no == np_ and [tuple(r) for r in po["rows"]] == [tuple(r) for r in pp["rows"]]:
        # unnamed levels, identical keys row by row: the un-joined operands happen to be a valid alignment
        # (with > 2 levels the skipped join still ends in a KeyError inside reorder_levels)
        return False
    oc, pc = ref.positional_codes(io, [tuple(r) for r in po["rows"]], ip, [tuple(r) for r in pp["rows"]])
    return oc == pc


# --------------------------------------------------------------------------- downstream: Woehler curves
@st.composite
def _woehler_cases(draw, tier):
    if draw(st.integers(0, 3)) == 0:
        op_o, op_p, rel = draw(swapped_layouts(tier))
    else:
        op_o, op_p, rel = draw(layouts(tier, matched_only=True))
    n, m = len(op_o["rows"]), len(op_p["rows"])
    cols = ["k_1", "ND", "SD"]
    # per-curve native failure probabilities (mixed inside one frame) together with scatter, so that the transformation
    # to the requested probability matters and differs from curve to curve
    extra = draw(st.sampled_from([[], ["k_2"], ["TN"], ["k_2", "TN", "TS"], ["TN", "failure_probability"],
                                  ["TS", "failure_probability"], ["k_2", "TN", "TS", "failure_probability"]]))
    grid = {"k_1": [3.0, 5.0, 4.0, 7.0, 6.0], "ND": [1e6, 2e6, 1e5, 5e6, 3e5], "SD": [100.0, 200.0, 150.0, 300.0, 250.0],
            "k_2": [9.0, 13.0, 11.0, 5.0, 25.0], "TN": [4.0, 2.0, 9.0, 1.5, 3.0], "TS": [1.25, 1.5, 1.1, 1.05, 2.0],
            "failure_probability": [0.5, 0.1, 0.9, 0.5, 0.3]}
    op_o["kind"], op_o["columns"], op_o["dtype"] = "frame", cols + extra, "float"
    offs = [draw(st.integers(0, 4)) for _ in range(n)]
    op_o["values"] = [[grid[c][(offs[i] + (k % 2) * i) % 5] for k, c in enumerate(cols + extra)] for i in range(n)]
    op_p["kind"], op_p["columns"], op_p["dtype"], op_p["name"] = "series", None, "float", draw(st.sampled_from([None, "load"]))
    direction = draw(st.sampled_from(["cycles", "cycles", "load"]))
    # dtype of the load / cycles Series: the batch must equal the float64 scalar evaluation of the same element values
    load_dtype = draw(st.sampled_from(["float64", "float64", "float32", "float32", "int64"] + (["float16"] if direction == "cycles" else [])))
    loads = [50.0, 100.0, 120.0, 200.0, 260.0, 400.0, 150.0, 300.0] + ([] if load_dtype == "int64" else [120.3, 99.9, 251.7])
    op_p["values"] = [[loads[draw(st.integers(0, len(loads) - 1))]] for _ in range(m)]
    return {"obj": op_o, "prm": op_p, "failure_probability": draw(st.sampled_from([0.5, 0.5, 0.1, 0.9])),
            "direction": direction, "load_dtype": load_dtype}


def _close(a, b):
    if a is None or b is None:
        return a is None and b is None
    if math.isinf(a) or math.isinf(b):
        return a == b
    return abs(a - b) <= RTOL * max(abs(a), abs(b))


@subcheck(PROP, "woehler_downstream", strategy=_woehler_cases, quick=700, thorough=25000,
          doc="DataFrame of Woehler curves (optionally with per-curve k_2, TN, TS and MIXED native failure_probability) x Series of loads "
              "(cycles) of dtype float64/float32/float16/int64 with any matched layout: WoehlerCurve.cycles / .load of the batch == the scalar "
              "call for the curve and the float64 value of the load found under the row's restricted key (RTOL 1e-12)")
def woehler_downstream(case, ctx):
    import pylife.materiallaws.woehlercurve  # noqa: F401  (registers the accessor)
    op_o, op_p = case["obj"], case["prm"]
    rel = _label_layout(case, ctx)
    curves, loads = build(op_o), build(op_p)
    if case["direction"] == "load":
        loads = loads * 1000.0
    load_dtype = case.get("load_dtype", "float64")
    loads = loads.astype(load_dtype)       # the scalar reference below uses float(element), i.e. the float64 value of the same element
    ctx.label("load_dtype:" + load_dtype)
    if "failure_probability" in op_o["columns"]:
        natives = set(r[op_o["columns"].index("failure_probability")] for r in op_o["values"])
        ctx.label("native_pf:" + ("mixed" if len(natives) > 1 else "uniform"))
        if len(natives) > 1 and case["failure_probability"] in natives:
            ctx.label("native_pf:mixed_some_equal_requested")
    om, pm = model(op_o, "o"), model(op_p, "p")
    so, sp = snapshot(curves), snapshot(loads)
    pf = case["failure_probability"]
    ctx.label("direction:" + case["direction"])
    if len(om["rows"]) >= 2 and len(pm["rows"]) >= 2 and not (op_o["names"] == op_p["names"] and om["rows"] == pm["rows"]):
        ctx.nontrivial()
    if f05_class(op_o, op_p) and ctx.known("F05"):
        return
    wc = curves.woehler
    res = wc.cycles(loads, pf) if case["direction"] == "cycles" else wc.load(loads, pf)
    assert_unchanged(so, curves, "object")
    assert_unchanged(sp, loads, "parameter")
    if not isinstance(res, pd.Series):
        raise Violation("batch result is %s, not a Series" % type(res).__name__, bucket="woehler:type")
    names = list(res.index.names)
    rows = _rows_of(res.index)
    j = ref.join(om["ids"], om["rows"], pm["ids"], pm["rows"])
    if len(rows) != len(j["rows"]) or len(set(rows)) != len(rows):
        raise Violation("batch result has %d rows (%d distinct), reference join %d" % (len(rows), len(set(rows)), len(j["rows"])),
                        bucket="woehler:row-count")
    ao, e1 = _assignments(om["names"], names)
    ap, e2 = _assignments(pm["names"], names)
    if ao is None or ap is None:
        raise Violation("batch result levels: %s" % (e1 or e2), bucket="woehler:levels")
    cols = op_o["columns"]
    cache = {}

    def scalar(ko, kp):
        if (ko, kp) not in cache:
            c = pd.Series(dict(zip(cols, om["table"][ko])))
            x = float(loads.iloc[pm["rows"].index(kp)])
            v = c.woehler.cycles(x, pf) if case["direction"] == "cycles" else c.woehler.load(x, pf)
            cache[(ko, kp)] = float(np.asarray(v).reshape(-1)[0])
        return cache[(ko, kp)]

    got = [None if math.isnan(v) else float(v) for v in res.to_numpy()]
    first = None
    for mo in ao:
        for mp in ap:
            bad = None
            for r, g in zip(rows, got):
                ko, kp = tuple(r[p] for p in mo), tuple(r[p] for p in mp)
                if ko not in om["table"] or kp not in pm["table"]:
                    bad = "row %r does not combine an existing curve with an existing load" % (r,)
                    break
                w = scalar(ko, kp)
                if not _close(g, w):
                    bad = "row %r: batch %r, scalar call for curve %r and load %r gives %r" % (r, g, ko, kp, w)
                    break
            if bad is None:
                return
            if first is None or ("batch" in bad and "batch" not in first):
                first = bad       # report a value mismatch rather than the key mismatch of an implausible level assignment
    raise Violation(first, bucket="woehler:value")


# --------------------------------------------------------------------------- downstream: mean stress transformation
@st.composite
def _meanstress_cases(draw, tier):
    """Per-element FKM-Goodman diagrams (DataFrame M, M2) x load collective (DataFrame range, mean)."""
    layout = draw(st.sampled_from(["same", "element_scenario", "scenario", "element_cycle_shuffled",
                                   "two_levels_swapped", "two_levels_swapped"]))
    cyc = [[2.0, 0.0], [2.0, 1.0], [1.0, -0.5], [3.0, 4.0], [2.0, -3.0], [4.0, 0.5], [1.0, 1.0]]
    Mgrid = [0.1, 0.3, 0.5, 0.2, 0.4]
    if layout == "two_levels_swapped":
        # diagrams on (element_id, node_id), collective on (node_id, element_id), key tuples identical position by position
        k = draw(st.integers(2, 3))
        keys = list(draw(st.permutations([1, 2, 3, 7])))[:k]
        rows = [list(t) for t in itertools.product(keys, repeat=2)]
        if draw(st.booleans()):
            rows = list(draw(st.permutations(rows)))
        off = draw(st.integers(0, 4))
        haigh = {"names": ["element_id", "node_id"], "rows": [list(r) for r in rows],
                 "values": [[Mgrid[(i + off) % 5], Mgrid[(i + off) % 5] / 4.0] for i in range(len(rows))]}
        vals = [cyc[draw(st.integers(0, len(cyc) - 1))] for _ in rows]
        return {"haigh": haigh, "cycles": {"names": ["node_id", "element_id"], "rows": [list(r) for r in rows], "values": vals},
                "R_goal": draw(st.sampled_from([-1.0, 0.0, 0.5, -3.0])), "layout": layout}
    ne = draw(st.integers(1, 3))
    elements = list(draw(st.permutations([1, 2, 3, 7])))[:ne]
    Ms = [[0.1, 0.3, 0.5, 0.2][(i + draw(st.integers(0, 3))) % 4] for i in range(ne)]
    haigh = {"names": ["element_id"], "rows": [[e] for e in elements], "values": [[m, m / 4.0] for m in Ms]}
    ns = draw(st.integers(1, 3))
    if layout == "same":
        names, rows = ["element_id"], [[e] for e in draw(st.permutations(elements))]
    elif layout == "scenario":
        names, rows = ["scenario"], [[s] for s in range(ns)]
    else:
        names, rows = ["element_id", "scenario"], [[e, s] for e in elements for s in range(ns)]
        if layout == "element_cycle_shuffled":
            names, rows = ["scenario", "element_id"], [[r[1], r[0]] for r in draw(st.permutations(rows))]
    vals = [cyc[draw(st.integers(0, len(cyc) - 1))] for _ in rows]
    return {"haigh": haigh, "cycles": {"names": names, "rows": rows, "values": vals},
            "R_goal": draw(st.sampled_from([-1.0, 0.0, 0.5, -3.0])), "layout": layout}


def _named_index(names, rows, range_index=False):
    if len(names) == 1:
        keys = [r[0] for r in rows]
        if range_index and keys == list(range(len(keys))):
            return pd.RangeIndex(len(keys), name=names[0])
        return pd.Index(keys, name=names[0])
    return pd.MultiIndex.from_tuples([tuple(r) for r in rows], names=names)


@subcheck(PROP, "meanstress_downstream", strategy=_meanstress_cases, quick=400, thorough=12000,
          doc="HaighDiagram.fkm_goodman(DataFrame per element).transform(collective, R_goal) (broadcast with droplevel=['R']) == the "
              "transformation of every single cycle with the single diagram of its element (RTOL 1e-12); includes diagrams on "
              "(element_id, node_id) x collective on (node_id, element_id) with positionally identical key tuples")
def meanstress_downstream(case, ctx):
    from pylife.strength.meanstress import HaighDiagram
    h, c = case["haigh"], case["cycles"]
    ctx.label("layout:" + case["layout"])
    haigh = pd.DataFrame(h["values"], columns=["M", "M2"], index=_named_index(h["names"], h["rows"]))
    cycles = pd.DataFrame(c["values"], columns=["range", "mean"], index=_named_index(c["names"], c["rows"]), dtype=float)
    sc = snapshot(cycles)
    if len(h["rows"]) >= 2 and len(c["rows"]) >= 2:
        ctx.nontrivial()
    # recoded-index coincidence of F05: diagram levels (element_id, R) x collective levels (element_id, scenario) etc.
    hrows = [list(e) + [k] for e in h["rows"] for k in range(3)]
    if _f05_models({"names": h["names"] + ["R"], "rows": hrows}, {"names": c["names"], "rows": c["rows"]}) and ctx.known("F05"):
        return
    Rg = case["R_goal"]
    res = HaighDiagram.fkm_goodman(haigh.copy()).transform(cycles, Rg)
    assert_unchanged(sc, cycles, "parameter")
    names = list(res.index.names)
    rows = _rows_of(res.index)
    table_c = {tuple(r): v for r, v in zip(c["rows"], c["values"])}
    table_h = {tuple(r): v for r, v in zip(h["rows"], h["values"])}
    if any(n not in names for n in h["names"] + c["names"]):
        raise Violation("result levels %r lack levels of the operands (%r, %r)" % (names, h["names"], c["names"]), bucket="meanstress:levels")
    j = ref.join(list(h["names"]), [tuple(r) for r in h["rows"]], list(c["names"]), [tuple(r) for r in c["rows"]])
    want_rows = set(ref.project(r, j["ids"], names) for r in j["rows"]) if set(names) == set(j["ids"]) else None
    if want_rows is None or set(rows) != want_rows or len(rows) != len(want_rows):
        raise Violation("result levels %r rows %r, expected the join %r of %r" % (names, rows[:10], j["rows"][:10], j["ids"]), bucket="meanstress:row-set")
    got = _values_of(res[["range", "mean"]])
    cache = {}
    for r, g in zip(rows, got):
        hk = tuple(r[names.index(n)] for n in h["names"])
        ck = tuple(r[names.index(n)] for n in c["names"])
        key = (hk, tuple(table_c[ck]))
        if key not in cache:
            one = HaighDiagram.fkm_goodman(pd.Series({"M": table_h[hk][0], "M2": table_h[hk][1]}))
            single = pd.DataFrame([table_c[ck]], columns=["range", "mean"], dtype=float)
            out = one.transform(single, Rg)
            cache[key] = [float(out["range"].iloc[0]), float(out["mean"].iloc[0])]
        w = cache[key]
        if not all(_close(None if a is None else float(a), b) for a, b in zip(g, w)):
            raise Violation("row %r: batch (range, mean) = %r, single-diagram transformation of cycle %r with (M, M2) = %r of %r gives %r"
                            % (r, g, table_c[ck], table_h[hk], hk, w), bucket="meanstress:value")


# --------------------------------------------------------------------------- downstream: per-element Haigh diagrams
_FIVE_COLS = ["M0", "M1", "M2", "M3", "M4", "R12", "R23"]
_FIVE_PRESETS = [[0.5, 0.3, 0.2, 0.1, 0.05], [0.4, 0.25, 0.15, 0.05, 0.0], [0.6, 0.35, 0.1, 0.0, 0.1],
                 [0.3, 0.2, 0.12, 0.08, 0.02], [0.45, 0.4, 0.3, 0.2, 0.2]]
_FIVE_R = [[0.4, 0.8], [0.25, 0.75], [0.5, 0.9], [0.3, 0.6], [0.2, 0.7]]
_CYC = [[2.0, 0.0], [2.0, 1.0], [1.0, -0.5], [3.0, 4.0], [2.0, -3.0], [4.0, 0.5], [1.0, 1.0], [2.0, 2.5]]


@st.composite
def _haigh_cases(draw, tier):
    """A frame of per-element diagram parameters on a generated element index and a collective."""
    kind = draw(st.sampled_from(["five_segment", "five_segment", "fkm_goodman"]))
    unnamed = draw(st.sampled_from(["no", "no", "no", "single", "single", "multi"]))
    nlev = draw(st.sampled_from([1, 2, 2, 2, 3])) if unnamed == "no" else 1 if unnamed == "single" else 2
    names = list(draw(st.permutations(["element_id", "x", "node_id", "part"])))[:nlev] if unnamed == "no" else [None] * nlev
    key_pools = [[1, 2, 3], [2, 5, 11], ["a", "b", "c"], ["b", "a", "z"], [10, 7, 30]]
    if unnamed == "single":
        key_pools = [[0, 1, 2, 3], [0, 1, 2, 3], [3, 7, 4, 1], ["a", "b", "c"]]      # 0..n-1 in order = the default RangeIndex
    levels = []
    for _ in range(nlev):
        pool = draw(st.sampled_from(key_pools))
        cnt = draw(st.integers(1 if nlev > 1 else 2, (4 if unnamed == "single" else 3) if nlev < 3 else 2))
        levels.append(list(pool)[:cnt] if unnamed == "single" and draw(st.booleans()) else list(draw(st.permutations(pool)))[:cnt])
    rows = [list(t) for t in itertools.product(*levels)]
    if len(rows) > 2 and draw(st.integers(0, 3)) == 0:               # ragged
        del rows[draw(st.integers(0, len(rows) - 1))]
    cap = 6 if tier == "quick" else 10
    if len(rows) > cap:
        rows = list(draw(st.permutations(rows)))[:cap]
    order = draw(st.sampled_from(["as_built", "sorted", "reversed", "shuffled", "shuffled"]))
    if order == "sorted":
        rows = sorted(rows, key=lambda r: [str(type(k)) + repr(k) for k in r])
        rows = sorted(rows)
    elif order == "reversed":
        rows = sorted(rows)[::-1]
    elif order == "shuffled":
        rows = list(draw(st.permutations(rows)))
    off = draw(st.integers(0, 4))
    vary_R = draw(st.integers(0, 3)) == 0
    vals = []
    for i in range(len(rows)):
        scale = 1.0 - 0.03 * (i // 5)
        ms = [m * scale for m in _FIVE_PRESETS[(i + off) % 5]]
        if kind == "five_segment":
            vals.append(ms + (_FIVE_R[(i + off) % 5] if vary_R else _FIVE_R[0]))
        else:
            vals.append([ms[0], ms[2]])
    cols = _FIVE_COLS if kind == "five_segment" else ["M", "M2"]
    clay = draw(st.sampled_from(["same_index", "same_index_shuffled", "scenario", "element_scenario", "scenario_element_shuffled"]))
    if unnamed != "no":
        clay = "scenario"       # unnamed levels are private to their operand: only a collective on levels of its own is unambiguous
    ns = draw(st.integers(1, 2))
    if clay == "same_index":
        cnames, crows = list(names), [list(r) for r in rows]
    elif clay == "same_index_shuffled":
        cnames, crows = list(names), [list(r) for r in draw(st.permutations(rows))]
    elif clay == "scenario":
        cnames, crows = ["scenario"], [[s] for s in range(ns)]
    else:
        cnames, crows = list(names) + ["scenario"], [list(r) + [s] for r in rows for s in range(ns)]
        if clay == "scenario_element_shuffled":
            perm = list(draw(st.permutations(range(len(cnames)))))
            cnames = [cnames[i] for i in perm]
            crows = [[r[i] for i in perm] for r in draw(st.permutations(crows))]
    cvals = [_CYC[draw(st.integers(0, len(_CYC) - 1))] for _ in crows]
    return {"kind": kind, "order": order, "vary_R": vary_R, "cycles_layout": clay,
            "diagram": {"names": names, "rows": rows, "columns": cols, "values": vals, "range_index": unnamed == "single" and draw(st.sampled_from([True, True, False]))},
            "cycles": {"names": cnames, "rows": crows, "values": cvals},
            "R_goal": draw(st.sampled_from([-1.0, 0.0, 0.5, -0.5]))}


def _expected_segments(kind, params):
    """(R interval as model key) -> slope, written from the docstrings of fkm_goodman / five_segment."""
    inf = float("inf")
    if kind == "fkm_goodman":
        M, M2 = params
        return {("iv", 1.0, inf): 0.0, ("iv", -inf, 0.0): M, ("iv", 0.0, 1.0): M2}
    M0, M1, M2, M3, M4, R12, R23 = params
    return {("iv", 1.0, inf): M4, ("iv", -inf, 0.0): M0, ("iv", 0.0, R12): M1, ("iv", R12, R23): M2, ("iv", R23, 1.0): M3}


@subcheck(PROP, "haigh_downstream", strategy=_haigh_cases, quick=300, thorough=10000,
          doc="per-element Haigh diagrams (five_segment / fkm_goodman of a DataFrame) on generated element indexes (1-3 named levels, "
              "sorted / reversed / shuffled / ragged, int keys with gaps, string keys): (1) the diagram's entry for (element key, R interval) is "
              "that element's own slope (exact); (2) transform(collective, R_goal) equals, row by row, the transformation of that cycle with "
              "the diagram built from the element's parameters alone (RTOL 1e-12); the parameter frame is left unchanged")
def haigh_downstream(case, ctx):
    from pylife.strength.meanstress import HaighDiagram
    kind, d, c = case["kind"], case["diagram"], case["cycles"]
    ctx.label("kind:" + kind, "order:" + case.get("order", "?"), "levels:%d" % len(d["names"]), "cycles:" + case.get("cycles_layout", "?"))
    if case.get("vary_R"):
        ctx.label("per_element_R12_R23")
    frame = pd.DataFrame(d["values"], columns=d["columns"], index=_named_index(d["names"], d["rows"], d.get("range_index", False)), dtype=float)
    cycles = pd.DataFrame(c["values"], columns=["range", "mean"], index=_named_index(c["names"], c["rows"]), dtype=float)
    sf, sc = snapshot(frame), snapshot(cycles)
    n_unnamed = d["names"].count(None)
    ctx.label("element_index:" + ("named" if not n_unnamed else "unnamed_%s" % sf["index_type"]))
    drows = [tuple(r) for r in d["rows"]]
    if len(drows) >= 2 and (drows != sorted(drows, key=repr) or len(d["names"]) >= 2 or n_unnamed):
        ctx.nontrivial()
    make = HaighDiagram.five_segment if kind == "five_segment" else HaighDiagram.fkm_goodman
    try:
        hd = make(frame)
    except AttributeError as e:
        # two unnamed element levels: the validation groups the R intervals by 'all levels but R' using the placeholder 0 for every
        # unnamed level and rejects the diagram cleanly - documented exception type of _validate
        if n_unnamed >= 2 and "must not overlap" in str(e):
            assert_unchanged(sf, frame, "diagram parameter frame")
            ctx.tolerate("AttributeError: intervals must not overlap (element index with >= 2 unnamed levels)")
            return
        raise
    assert_unchanged(sf, frame, "diagram parameter frame")
    # (1) the diagram itself (the Series behind the accessor, read only)
    ser = hd._obj
    snames = list(ser.index.names)
    if sorted(map(repr, snames)) != sorted(map(repr, d["names"] + ["R"])):
        raise Violation("diagram levels %r, expected %r plus 'R'" % (snames, d["names"]), bucket="haigh:levels")
    want = {}
    for k, params in zip(drows, d["values"]):
        for iv, slope in _expected_segments(kind, params).items():
            want[k + (iv,)] = slope
    if n_unnamed:     # unnamed element levels keep their relative order (there is nothing else to identify them by)
        pos = [i for i, n in enumerate(snames) if n is None] + [snames.index("R")]
    else:
        pos = [snames.index(n) for n in d["names"] + ["R"]]
    got = {}
    for r, v in zip(_rows_of(ser.index), _values_of(ser)):
        got[tuple(r[p] for p in pos)] = v[0]
    if set(got) != set(want) or len(ser) != len(want):
        raise Violation("diagram keys differ from elements x segments: missing %r, unexpected %r"
                        % ([k for k in want if k not in got][:3], [k for k in got if k not in want][:3]), bucket="haigh:keys")
    for k in want:
        if not _eqv(got[k], want[k]):
            raise Violation("diagram entry for element %r, R segment %r is %r, the element's own slope is %r"
                            % (k[:-1], k[-1][1:], got[k], want[k]), bucket="haigh:slope")
    # (2) transformation, element by element
    if n_unnamed >= 2:
        return          # levels cannot be told apart by name; only reached if the diagram was accepted
    Rg = case["R_goal"]
    res = hd.transform(cycles, Rg)
    assert_unchanged(sc, cycles, "collective")
    names = list(res.index.names)
    rows = _rows_of(res.index)
    j = ref.join(list(d["names"]), drows, list(c["names"]), [tuple(r) for r in c["rows"]])
    want_rows = set(ref.project(r, j["ids"], names) for r in j["rows"]) if set(names) == set(j["ids"]) else None
    if want_rows is None or set(rows) != want_rows or len(rows) != len(want_rows):
        raise Violation("transform result levels %r rows %r, expected the join %r of %r" % (names, rows[:8], j["rows"][:8], j["ids"]),
                        bucket="haigh:row-set")
    table_c = {tuple(r): v for r, v in zip(c["rows"], c["values"])}
    table_d = dict(zip(drows, d["values"]))
    cache, alone = {}, {}
    for r, g in zip(rows, _values_of(res[["range", "mean"]])):
        dk = tuple(r[names.index(n)] for n in d["names"])
        ck = tuple(r[names.index(n)] for n in c["names"])
        key = (dk, tuple(table_c[ck]))
        if key not in cache:
            if dk not in alone:
                alone[dk] = make(pd.Series(dict(zip(d["columns"], table_d[dk]))))
            one = alone[dk]
            out = one.transform(pd.DataFrame([table_c[ck]], columns=["range", "mean"], dtype=float), Rg)
            cache[key] = [None if math.isnan(v) else float(v) for v in (out["range"].iloc[0], out["mean"].iloc[0])]
        w = cache[key]
        if not all(_close(None if a is None else float(a), b) for a, b in zip(g, w)):
            raise Violation("row %r: batch (range, mean) = %r, the diagram of element %r alone transforms cycle %r to %r"
                            % (r, g, dk, table_c[ck], w), bucket="haigh:transform")
