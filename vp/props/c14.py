"""C14 - load collectives and histograms account for every cycle exactly once.

Oracles are plain-Python models written here: min/max/abs arithmetic on the from/to values, closed-interval
counting for histograms, dictionary accumulation for combine, conservation / identity / composition laws for rebin.

Tolerances
----------
* from/to collectives: amplitude, mean, upper, lower and R are single IEEE operations on the stored values, the
  oracle does the same operations -> compared exactly; the mutual consistency relations of the statement are exact in
  floating point as well (upper - lower and |from - to| are the same subtraction, (upper + lower)/2 and (from + to)/2
  the same addition).
* range/mean collectives and histograms (class mids): pyLife goes through from = mean - range/2, to = mean + range/2 (resp. mid =
  (left+right)/2), each step within 1 ulp of the operand scale -> ATOL = 8 ulp * max(|values|).
* scaled / shifted quantities: products and sums are compared with 1e-12 relative to the operand scale.
* rebin/combine totals: sums of at most a few hundred non-negative terms, each term v * overlap/length with
  overlap/length summing to 1 within a few ulp -> rtol 1e-12 on totals, 1e-9 on composed class values.
"""

import math
import warnings

import numpy as np
import pandas as pd
from hypothesis import strategies as st

from ..core import Violation, subcheck, nontrivial_rule, assumptions

EPS = 2.0 ** -52
INF = float("inf")

nontrivial_rule("C14", "Non-trivial: a value exactly on a class edge, or an irregular / one-class / wider-than-source binning, or an extra index "
                       "level, or a source histogram listed in non-ascending class order, or a recorder histogram taken more than once in a "
                       "call history (collective sub-checks: both orientations from > to and from < to present, or an extra index level, or a "
                       "Series operand).")
assumptions("C14", [
    "load values are finite, |x| <= 1e6, either 0 or |x| >= 1e-100 (no subnormal arithmetic), no negative zeros; 'range' of a "
    "range/mean collective is >= 0",
    "histogram clauses are asserted for collectives without a cycles column or with all cycles = 1 (the histogram methods count rows; "
    "weighted collectives are generated, labelled and reported, not asserted)",
    "'inside the covered range' is numpy's convention: first edge <= value <= last edge",
    "histogram scale is asserted for factors >= 0 only (class intervals cannot be reversed); collectives are scaled with any sign",
    "rebin: source classes have positive length, counts are >= 0; target binnings are gap-free and increasing (other binnings must "
    "raise the documented ValueError); composition is asserted where it is exact: first target refines the source classes, or second "
    "target is a coarsening of the first",
    "Series operands of scale/shift share every key of a common index level with the collective (the broadcaster's documented use)",
    "input preservation: every object handed to the library (collective, histogram, operand Series, bin IntervalIndex, list of histograms) "
    "is deep-copied before the call and must be equal afterwards (values, index values/names/dtype, dtypes, column order, name); whether the "
    "result shares memory with the input is not asserted",
])


def _LC():
    import pylife.stress.collective  # noqa: F401  (registers the accessors)
    return pylife.stress.collective


def _atol(*arrays):
    m = 0.0
    for a in arrays:
        a = np.asarray(a, dtype=float)
        if a.size:
            m = max(m, float(np.nanmax(np.abs(a[np.isfinite(a)]))) if np.isfinite(a).any() else 0.0)
    return 8.0 * EPS * max(m, 1e-300)


# --------------------------------------------------------------------------- value strategies
def _norm(x):
    """no negative zero, no values below 1e-100 in magnitude (halving a subnormal difference is not exact, and numpy cannot
    build classes over a subnormal data range) - load values of that size are outside the domain"""
    return 0.0 if abs(x) < 1e-100 else x + 0.0


def _load_values():
    return st.one_of(
        st.integers(-20, 20).map(float),
        st.integers(-4000, 4000).map(lambda i: i / 8.0),
        st.floats(-1e6, 1e6, allow_nan=False, allow_infinity=False).map(_norm),
        st.floats(-1.0, 1.0, allow_nan=False).map(_norm),
    )


def _index(layout, n):
    if layout == "plain":
        return pd.RangeIndex(n), []
    if layout == "named":
        return pd.Index([10 + 3 * i for i in range(n)], name="cyc"), []
    if layout == "multi":
        return pd.MultiIndex.from_tuples([(1 + i % 2, i) for i in range(n)], names=["node", "cyc"]), ["node"]
    # repeated index labels: two load blocks put together with pd.concat without ignore_index
    h = max(1, (n + 1) // 2)
    if layout == "dup_plain":
        return pd.Index([i % h for i in range(n)]), []
    if layout == "dup_named":
        return pd.Index([10 + 3 * (i % h) for i in range(n)], name="cyc"), []
    if layout == "dup_multi":
        return pd.MultiIndex.from_tuples([(1 + (i % h) % 2, (i % h) // 2) for i in range(n)], names=["node", "cyc"]), ["node"]
    return pd.MultiIndex.from_tuples([(1 + i % 2, 5 + (i // 2) % 2, i) for i in range(n)], names=["node", "element", "cyc"]), ["node", "element"]


@st.composite
def _collectives(draw, nmin=1, nmax=8, cycles=True):
    n = draw(st.integers(nmin, nmax))
    form = draw(st.sampled_from(["from_to", "from_to", "range_mean"]))
    if form == "from_to":
        a = draw(st.lists(_load_values(), min_size=n, max_size=n))
        b = draw(st.lists(_load_values(), min_size=n, max_size=n))
        if draw(st.integers(0, 3)) == 0:      # force special rows: from == to, upper == 0, both 0
            k = draw(st.integers(0, n - 1))
            a[k], b[k] = draw(st.sampled_from([(0.0, 0.0), (3.0, 3.0), (-5.0, 0.0), (0.0, -2.5), (0.0, 7.0)]))
    else:
        a = [abs(x) for x in draw(st.lists(_load_values(), min_size=n, max_size=n))]     # range
        b = draw(st.lists(_load_values(), min_size=n, max_size=n))                        # mean
    cyc = None
    if cycles and draw(st.booleans()):
        cyc = draw(st.lists(st.one_of(st.integers(0, 1000).map(float), st.floats(0.0, 1e6, allow_nan=False)), min_size=n, max_size=n))
    layout = draw(st.sampled_from(["plain", "named", "multi", "multi3", "dup_plain", "dup_named", "dup_multi"]))
    ints = draw(st.integers(0, 3)) == 0
    if ints:                                   # integer valued collective stored in int64 columns
        a = [float(round(x)) + 0.0 for x in a]
        b = [float(round(x)) + 0.0 for x in b]
    return {"form": form, "a": a, "b": b, "cycles": cyc, "layout": layout, "int_dtype": ints}


def _frame(case):
    n = len(case["a"])
    index, group_levels = _index(case["layout"], n)
    cols = ("from", "to") if case["form"] == "from_to" else ("range", "mean")
    dt = np.int64 if (case.get("int_dtype") and all(float(x).is_integer() for x in case["a"] + case["b"])) else float
    df = pd.DataFrame({cols[0]: np.array(case["a"], dtype=float).astype(dt), cols[1]: np.array(case["b"], dtype=float).astype(dt)}, index=index)
    if case["cycles"] is not None:
        df["cycles"] = np.array(case["cycles"], dtype=float)
    return df, group_levels


def _from_to(case):
    a, b = np.array(case["a"], dtype=float), np.array(case["b"], dtype=float)
    if case["form"] == "from_to":
        return a, b
    return b - a / 2.0, b + a / 2.0


def _model(fr, to):
    """plain-Python model of the derived quantities of from/to rows"""
    amp, mean, up, lo, R = [], [], [], [], []
    for f, t in zip(fr, to):
        f, t = float(f), float(t)
        u, l = max(f, t), min(f, t)
        amp.append(abs(f - t) / 2.0)
        mean.append((f + t) / 2.0)
        up.append(u); lo.append(l)
        if u == 0.0:
            R.append(0.0 if l == 0.0 else -INF)      # 0/0 is defined as 0 by pyLife (fillna), lower/0 = -inf
        else:
            R.append(l / u)
    return amp, mean, up, lo, R


def _snapshot(obj):
    """deep copy of a pandas object handed to the library (taken BEFORE the call)"""
    return obj.copy(deep=True)


def _assert_unchanged(before, obj, what):
    """The caller's object is unchanged by the library: values, index (values, names, dtypes), dtypes, column order, name.
    'scale(f) is the f-scaled version of the collective the caller holds, on every call' needs exactly this."""
    why = None
    if type(before) is not type(obj):
        why = "type %s -> %s" % (type(before).__name__, type(obj).__name__)
    elif isinstance(obj, pd.DataFrame) and list(before.columns) != list(obj.columns):
        why = "columns %r -> %r" % (list(before.columns), list(obj.columns))
    elif isinstance(obj, pd.DataFrame) and [str(t) for t in before.dtypes] != [str(t) for t in obj.dtypes]:
        why = "dtypes %r -> %r" % ([str(t) for t in before.dtypes], [str(t) for t in obj.dtypes])
    elif isinstance(obj, pd.Series) and (str(before.dtype) != str(obj.dtype) or before.name != obj.name):
        why = "dtype/name %s/%r -> %s/%r" % (before.dtype, before.name, obj.dtype, obj.name)
    elif not before.index.equals(obj.index) or list(before.index.names) != list(obj.index.names) \
            or str(before.index.dtype) != str(obj.index.dtype):
        why = "index %r -> %r" % (before.index, obj.index)
    elif not before.equals(obj):
        why = "values %r -> %r" % (before.values.tolist()[:6], obj.values.tolist()[:6])
    if why:
        raise Violation("%s modified the object it was called on / given: %s" % (what, why), bucket="input_modified:" + what.split("(")[0])


def _same_result(a, b, what):
    """the same operation / the same reading applied twice to the same object gives the same result"""
    ok = type(a) is type(b) and a.index.equals(b.index) and list(a.index.names) == list(b.index.names) and a.equals(b)
    if not ok:
        raise Violation("%s: the same object gives different results the first and the second time: %r then %r"
                        % (what, a.values.tolist()[:6], b.values.tolist()[:6]), bucket="call_twice:" + what.split("(")[0].split(":")[0])


def _same(got, want, atol=0.0):
    got = np.asarray(got, dtype=float)
    want = np.asarray(want, dtype=float)
    if got.shape != want.shape:
        return False
    for g, w in zip(got.ravel(), want.ravel()):
        if g == w:
            continue
        if math.isnan(g) and math.isnan(w):
            continue
        if not (abs(g - w) <= atol):
            return False
    return True


# --------------------------------------------------------------------------- 1. derived quantities of a collective
@subcheck("C14", "collective_consistent", strategy=lambda tier: _collectives(), quick=1500, thorough=60000,
          doc="LoadCollective: amplitude, meanstress, upper, lower, R, cycles == model on from/to (exact); upper-lower == 2 amplitude, "
              "(upper+lower)/2 == mean, R == lower/upper; the range/mean description of the same cycles gives the same quantities")
def collective_consistent(case, ctx):
    _LC()
    df, groups = _frame(case)
    df0 = _snapshot(df)
    lc = df.load_collective
    fr, to = _from_to(case)
    amp, mean, up, lo, R = _model(fr, to)
    ctx.label(case["form"], case["layout"], "cycles_column" if case["cycles"] is not None else "no_cycles_column",
              "int64_columns" if str(df0.dtypes.iloc[0]).startswith("int") else "float_columns")
    if case["form"] == "from_to" and any(f > t for f, t in zip(fr, to)) and any(f < t for f, t in zip(fr, to)):
        ctx.label("both_orientations")
        ctx.nontrivial()
    if groups:
        ctx.nontrivial()
    if not df0.index.is_unique:
        ctx.label("repeated_index_labels")
        ctx.nontrivial()
    if any(u == 0.0 for u in up):
        ctx.label("upper_zero")
    held = lc.to_pandas()
    if len(held) != len(df0) or not held.index.equals(df0.index):
        raise Violation("the %s collective holds %d rows (index %r) for the %d rows it was made from (index %r)"
                        % (case["form"], len(held), list(held.index)[:8], len(df0), list(df0.index)[:8]), bucket="collective:rows")
    got = {"amplitude": lc.amplitude, "meanstress": lc.meanstress, "upper": lc.upper, "lower": lc.lower, "R": lc.R, "cycles": lc.cycles}
    want = {"amplitude": amp, "meanstress": mean, "upper": up, "lower": lo, "R": R,
            "cycles": case["cycles"] if case["cycles"] is not None else [1.0] * len(amp)}
    for k, ser in got.items():
        if not isinstance(ser, pd.Series) or not ser.index.equals(df0.index):
            raise Violation("%s is not a Series on the collective's index" % k, bucket="collective:index:%s" % k)
        if not _same(ser.values, want[k]):
            raise Violation("%s = %r, model on from/to %r gives %r (%s)" % (k, list(ser.values), list(zip(fr, to)), want[k], case["form"]),
                            bucket="collective:%s" % k)
    A, Mn, U, L, Rr = (np.asarray(got[k].values, dtype=float) for k in ("amplitude", "meanstress", "upper", "lower", "R"))
    if not _same(U - L, 2.0 * A):
        raise Violation("upper - lower = %r but 2 amplitude = %r" % (list(U - L), list(2 * A)), bucket="collective:upper-lower")
    if not _same((U + L) / 2.0, Mn):
        raise Violation("(upper + lower)/2 = %r but mean = %r" % (list((U + L) / 2), list(Mn)), bucket="collective:mean")
    with np.errstate(all="ignore"):
        ratio = L / U
    ratio = np.where(np.isnan(ratio), 0.0, ratio)
    if not _same(Rr, ratio):
        raise Violation("R = %r but lower/upper = %r" % (list(Rr), list(ratio)), bucket="collective:R")
    _assert_unchanged(df0, df, "reading amplitude/meanstress/upper/lower/R/cycles")
    # read again, through the same accessor and through a fresh one: same values
    for k, again in (("amplitude", lc.amplitude), ("meanstress", df.load_collective.meanstress), ("upper", lc.upper),
                     ("lower", df.load_collective.lower), ("cycles", lc.cycles)):
        _same_result(got[k], again, "reading %s" % k)
    # the other description of the same cycles
    if case["form"] == "from_to":
        other = pd.DataFrame({"range": 2.0 * A, "mean": Mn}, index=df0.index)
    else:
        other = pd.DataFrame({"from": fr, "to": to}, index=df0.index)
    if case["cycles"] is not None:
        other["cycles"] = np.array(case["cycles"], dtype=float)
    lo2 = other.load_collective
    tol = _atol(fr, to)
    for k, ser in (("amplitude", lo2.amplitude), ("meanstress", lo2.meanstress), ("upper", lo2.upper), ("lower", lo2.lower)):
        if not _same(ser.values, got[k].values, tol):
            raise Violation("%s of the %s description %r differs from the original description %r"
                            % (k, "range/mean" if case["form"] == "from_to" else "from/to", list(ser.values), list(got[k].values)),
                            bucket="equivalence:%s" % k)
    if not _same(lo2.cycles.values, got["cycles"].values):
        raise Violation("cycles differ between the two descriptions", bucket="equivalence:cycles")


# --------------------------------------------------------------------------- 2. scale and shift of a collective
@st.composite
def _scale_shift_cases(draw, tier):
    c = draw(_collectives(nmin=2))
    op = draw(st.sampled_from(["scale", "shift"]))
    kind = draw(st.sampled_from(["scalar", "scalar", "aligned", "cross", "same_index"]))
    if c["layout"].startswith("dup_"):
        kind = "scalar"            # Series operands are matched by label, which needs unique labels
    val = st.one_of(st.sampled_from([0.0, 1.0, -1.0, 2.0, 0.5, -3.0]), st.floats(-1e3, 1e3, allow_nan=False).map(lambda x: x + 0.0))
    scalar_type = "float"
    if kind == "scalar":
        operand = [draw(val)]
        scalar_type = draw(st.sampled_from(["float", "np.float64", "int", "np.int64"]))
        if scalar_type in ("int", "np.int64"):
            operand = [float(draw(st.integers(-5, 5)))]
    elif kind == "same_index":
        operand = draw(st.lists(val, min_size=len(c["a"]), max_size=len(c["a"])))     # one value per row, indexed like the collective
        if c["layout"] == "plain":
            # unnamed index levels of two objects are different levels for the broadcaster (cross product) unless both share the
            # very same Index object - that is the subject of C13; here the common index is named
            c["layout"] = "named"
    elif kind == "aligned":
        if c["layout"] not in ("multi", "multi3"):
            c["layout"] = "multi"
        operand = [draw(val), draw(val)]                      # per node 1, 2
    else:
        operand = draw(st.lists(val, min_size=1, max_size=3))  # new level 'op'
    return dict(c, op=op, operand_kind=kind, operand=operand, scalar_type=scalar_type)


@subcheck("C14", "collective_scale_shift", strategy=_scale_shift_cases, quick=1200, thorough=40000,
          doc="LoadCollective.scale/shift with scalar (python float / int, np.float64 / np.int64), Series on the same index, per-node Series "
              "(aligned) or Series over a new level (cross), from/to and range/mean collectives: from/to == model exactly, amplitude |f| a "
              "resp. a, mean f m resp. m + d (1e-12 of the operand scale), cycles untouched; the caller's DataFrame and operand are unchanged "
              "(values, index, names, dtypes, column order), the call repeated gives the same result, derived quantities read after the call "
              "equal those read before")
def collective_scale_shift(case, ctx):
    _LC()
    df, groups = _frame(case)
    df0 = _snapshot(df)
    fr, to = _from_to(case)
    n = len(fr)
    kind, op = case["operand_kind"], case["op"]
    ctx.label(op, kind, case["form"], case["layout"], "int64_columns" if str(df0.dtypes.iloc[0]).startswith("int") else "float_columns")
    dup = not df0.index.is_unique
    if dup:
        ctx.label("repeated_index_labels")
        ctx.nontrivial()
    if kind == "scalar":
        operand = case["operand"][0]
        stype = case.get("scalar_type", "float")
        operand = {"float": float, "np.float64": np.float64, "int": int, "np.int64": np.int64}[stype](operand)
        ctx.label("scalar:" + stype)
        rows = [(i, float(operand), tuple(df0.index[i]) if isinstance(df0.index[i], tuple) else (df0.index[i],)) for i in range(n)]
        if dup:     # rows are identified by position (and must carry the labels of the collective in its order)
            rows = [(i, v, (i,)) for i, v, _ in rows]
    elif kind == "same_index":
        operand = pd.Series(case["operand"], index=df0.index, dtype=float)
        rows = [(i, case["operand"][i], tuple(df0.index[i]) if isinstance(df0.index[i], tuple) else (df0.index[i],)) for i in range(n)]
        ctx.nontrivial()
    elif kind == "aligned":
        operand = pd.Series(case["operand"], index=pd.Index([1, 2], name="node"), dtype=float)
        rows = [(i, case["operand"][df0.index[i][0] - 1], tuple(df0.index[i])) for i in range(n)]
        ctx.nontrivial()
    else:
        operand = pd.Series(case["operand"], index=pd.Index([70 + k for k in range(len(case["operand"]))], name="op"), dtype=float)
        rows = [(i, v, (tuple(df0.index[i]) if isinstance(df0.index[i], tuple) else (df0.index[i],)) + (70 + k,))
                for i in range(n) for k, v in enumerate(case["operand"])]
        ctx.nontrivial()
    if groups:
        ctx.nontrivial()
    operand0 = _snapshot(operand) if isinstance(operand, pd.Series) else operand
    lc = df.load_collective
    before = {k: getattr(lc, k).copy() for k in ("amplitude", "meanstress", "upper", "lower", "cycles")}
    res = (lc.scale(operand) if op == "scale" else lc.shift(operand))
    out = res.to_pandas()
    what = "LoadCollective.%s(%s)" % (op, kind if kind != "scalar" else "scalar " + case.get("scalar_type", "float"))
    # the result is the scaled / shifted version of the collective the caller holds - on every call: the caller's
    # DataFrame and operand stay what they were, a second call gives the same result, and the collective still has
    # the derived quantities it had before
    _assert_unchanged(df0, df, what)
    if isinstance(operand, pd.Series):
        _assert_unchanged(operand0, operand, what + " [operand]")
    for k, v in before.items():
        _same_result(v, getattr(lc, k), "%s: %s of the collective read before/after the call" % (what, k))
        _same_result(v, getattr(df.load_collective, k), "%s: %s of the caller's DataFrame read before/after the call" % (what, k))
    out2 = (lc.scale(operand) if op == "scale" else lc.shift(operand)).to_pandas()
    _same_result(out, out2, what)
    out3 = (df.load_collective.scale(operand) if op == "scale" else df.load_collective.shift(operand)).to_pandas()
    _same_result(out, out3, what + " via a fresh accessor")
    if len(out) != len(rows):
        raise Violation("%s with %s operand: %d rows, expected %d" % (op, kind, len(out), len(rows)), bucket="scale_shift:rows")
    names = list(df0.index.names) + (["op"] if kind == "cross" else [])
    if kind == "same_index" and isinstance(df0.index, pd.MultiIndex):
        out = out.reorder_levels(list(df0.index.names)) if list(out.index.names) != list(df0.index.names) else out
    if kind == "cross" and case["layout"] == "plain":
        names = None      # unnamed level: compare by position of the level instead
    got = {}
    idx = out.index
    if names is not None and len(names) > 1:
        if set(idx.names) != set(names):
            raise Violation("result index levels %r, expected %r" % (list(idx.names), names), bucket="scale_shift:levels")
        idx = idx.reorder_levels(names)
    A, Mn, Cy = res.amplitude.values, res.meanstress.values, res.cycles.values
    if dup:
        if not out.index.equals(df0.index):
            raise Violation("%s(scalar) of a collective with repeated index labels: result index %r, collective %r"
                            % (op, list(out.index)[:8], list(df0.index)[:8]), bucket="scale_shift:index")
        idx = [(i,) for i in range(len(out))]
    for pos, key in enumerate(idx):
        key = key if isinstance(key, tuple) else (key,)
        if key in got:
            raise Violation("duplicate row %r in the result" % (key,), bucket="scale_shift:duplicate")
        got[key] = (float(out["from"].iloc[pos]), float(out["to"].iloc[pos]), float(A[pos]), float(Mn[pos]), float(Cy[pos]))
    cyc = case["cycles"] if case["cycles"] is not None else [1.0] * n
    for i, v, key in rows:
        if key not in got:
            raise Violation("row %r missing in the result (has %r)" % (key, sorted(got)[:5]), bucket="scale_shift:keys")
        f, t = (fr[i] * v, to[i] * v) if op == "scale" else (fr[i] + v, to[i] + v)
        g = got[key]
        if not (_same([g[0]], [f]) and _same([g[1]], [t])):
            raise Violation("%s(%r): row %r from/to = %r/%r, expected %r/%r" % (op, v, key, g[0], g[1], f, t), bucket="scale_shift:%s:from_to" % op)
        a0, m0 = abs(fr[i] - to[i]) / 2.0, (fr[i] + to[i]) / 2.0
        wa, wm = (abs(v) * a0, v * m0) if op == "scale" else (a0, m0 + v)
        tol = 1e-12 * max(abs(fr[i]), abs(to[i]), 1e-300) * (max(abs(v), 1.0) if op == "scale" else 1.0) + (1e-12 * abs(v) if op == "shift" else 0.0)
        if abs(g[2] - wa) > tol or abs(g[3] - wm) > tol:
            raise Violation("%s(%r): row %r amplitude/mean = %r/%r, expected %r/%r" % (op, v, key, g[2], g[3], wa, wm),
                            bucket="scale_shift:%s:derived" % op)
        if g[4] != cyc[i]:
            raise Violation("%s(%r): row %r cycles %r, was %r" % (op, v, key, g[4], cyc[i]), bucket="scale_shift:%s:cycles" % op)


# --------------------------------------------------------------------------- 3. LoadHistogram: derived quantities, scale, shift
@st.composite
def _edges(draw, lo=-50.0, hi=50.0, nmax=5, start=None, force_int=False):
    n = draw(st.integers(1, nmax))
    kind = "int" if force_int else draw(st.sampled_from(["int", "regular", "irregular"]))
    if force_int and start is not None:
        start = float(round(start))
    if start is None:
        start = float(draw(st.integers(int(lo), int(hi)))) if kind == "int" else draw(st.floats(lo, hi, allow_nan=False)) + 0.0
    if kind == "int":
        w = float(draw(st.integers(1, 8)))
        return [start + w * i for i in range(n + 1)]
    if kind == "regular":
        w = draw(st.floats(0.1, 30.0, allow_nan=False))
        return [float(x) for x in np.linspace(start, start + w * n, n + 1)]
    e = [start]
    for _ in range(n):
        e.append(e[-1] + draw(st.floats(0.1, 30.0, allow_nan=False)))
    return e


@st.composite
def _matrix_cases(draw, tier):
    kind = draw(st.sampled_from(["from_to", "range_mean", "range_only"]))
    # integer class edges (interval[int64]) are what LoadCollective.histogram([0, 2, 4, 6]) or pd.interval_range(0, 6, freq=2) give
    ints = draw(st.integers(0, 2)) == 0
    e1 = draw(_edges(start=0.0 if kind != "from_to" and draw(st.booleans()) else None, lo=0.0 if kind != "from_to" else -50.0, force_int=ints))
    e2 = draw(_edges(force_int=ints)) if kind != "range_only" else None
    extra = draw(st.sampled_from(["none", "none", "node"]))
    ncls = (len(e1) - 1) * ((len(e2) - 1) if e2 else 1) * (2 if extra == "node" else 1)
    counts = draw(st.lists(st.one_of(st.integers(0, 1000).map(float), st.floats(0, 1e6, allow_nan=False)), min_size=ncls, max_size=ncls))
    op = draw(st.sampled_from(["none", "scale", "shift"]))
    val = st.one_of(st.sampled_from([0.0, 1.0, 2.0, 0.5, 1.25]), st.floats(0.0, 1e3, allow_nan=False))
    sval = st.one_of(st.sampled_from([0.0, 1.0, -2.0, 0.5]), st.floats(-1e3, 1e3, allow_nan=False).map(lambda x: x + 0.0))
    per_node = extra == "node" and draw(st.booleans())
    operand = [draw(val if op == "scale" else sval) for _ in range(2 if per_node else 1)]
    if ints and draw(st.booleans()):
        counts = [float(int(min(c, 10**6))) for c in counts]
    return {"kind": kind, "edges1": e1, "edges2": e2, "extra": extra, "counts": counts, "op": op, "operand": operand, "int_dtype": ints,
            "closed": draw(st.sampled_from(["right", "right", "left"])), "location": draw(st.sampled_from(["mid", "mid", "left", "right"]))}


def _hist(case):
    def breaks(e):
        if case.get("int_dtype") and all(float(x).is_integer() for x in e):
            return np.array(e, dtype=np.int64)
        return e
    lv, names = [pd.IntervalIndex.from_breaks(breaks(case["edges1"]), closed=case["closed"])], ["from" if case["kind"] == "from_to" else "range"]
    if case["edges2"] is not None:
        lv.append(pd.IntervalIndex.from_breaks(breaks(case["edges2"]), closed=case["closed"]))
        names.append("to" if case["kind"] == "from_to" else "mean")
    if case["extra"] == "node":
        lv.append(pd.Index([1, 2])); names.append("node")
    if len(lv) == 1:
        idx = pd.IntervalIndex(lv[0], name=names[0])
    else:
        idx = pd.MultiIndex.from_product(lv, names=names)
    counts = np.array(case["counts"], dtype=float)
    if case.get("int_dtype") and all(float(c).is_integer() for c in case["counts"]):
        counts = counts.astype(np.int64)
    return pd.Series(counts, index=idx, name="cycles")


def _loc(iv, where):
    return {"mid": (iv.left + iv.right) / 2.0, "left": iv.left, "right": iv.right}[where]


@subcheck("C14", "histogram_consistent", strategy=_matrix_cases, quick=1200, thorough=40000,
          doc="LoadHistogram on from/to, range/mean and range-only class grids (mid / left / right class location, extra level): amplitude, "
              "meanstress, upper, lower, R, cycles == model on the class locations; scale (factor >= 0) and shift (scalar or per node) move "
              "the class edges accordingly (range not shifted) and leave the counts untouched")
def histogram_consistent(case, ctx):
    _LC()
    ser = _hist(case)
    ser0 = _snapshot(ser)
    kind, where = case["kind"], case["location"]
    ctx.label(kind, "extra:" + case["extra"], "op:" + case["op"], "loc:" + where)
    lv0 = ser.index.levels[0] if isinstance(ser.index, pd.MultiIndex) else ser.index
    if str(lv0.dtype).startswith("interval[int"):
        ctx.label("integer_class_edges")
        if case["op"] != "none" and any(not float(x).is_integer() for x in case["operand"]):
            ctx.label("integer_edges_non_integer_operand")
            ctx.nontrivial()
    names = list(ser.index.names)
    multi = isinstance(ser.index, pd.MultiIndex)

    def rows_of(s):
        out = []
        names = list(s.index.names)
        for key, v in zip(s.index, s.values):
            key = key if isinstance(s.index, pd.MultiIndex) else (key,)
            i1 = key[0]
            i2 = key[1] if kind != "range_only" else None
            node = key[names.index("node")] if "node" in names else None
            out.append((i1, i2, node, float(v)))
        return out

    def derived(i1, i2, where):
        if kind == "from_to":
            f, t = _loc(i1, where), _loc(i2, where)
            return abs(f - t) / 2.0, (f + t) / 2.0
        return _loc(i1, where) / 2.0, (_loc(i2, where) if i2 is not None else 0.0)

    op = case["op"]
    if op != "none":
        operand = case["operand"]
        if len(operand) == 2:
            opd = pd.Series(operand, index=pd.Index([1, 2], name="node"), dtype=float)
            ctx.label("per_node_operand")
        else:
            opd = operand[0]
        acc = ser.load_collective
        opd0 = _snapshot(opd) if isinstance(opd, pd.Series) else opd
        before = {k: getattr(acc, k).copy() for k in ("amplitude", "meanstress", "upper", "lower", "cycles")}
        res = (acc.scale(opd) if op == "scale" else acc.shift(opd))
        out = res.to_pandas()
        what = "LoadHistogram.%s(%s)" % (op, "per node Series" if isinstance(opd, pd.Series) else "scalar")
        _assert_unchanged(ser0, ser, what)
        if isinstance(opd, pd.Series):
            _assert_unchanged(opd0, opd, what + " [operand]")
        for k, v in before.items():
            _same_result(v, getattr(acc, k), "%s: %s of the histogram read before/after the call" % (what, k))
        _same_result(out, (acc.scale(opd) if op == "scale" else acc.shift(opd)).to_pandas(), what)
        _same_result(out, (ser.load_collective.scale(opd) if op == "scale" else ser.load_collective.shift(opd)).to_pandas(),
                     what + " via a fresh accessor")
        src, dst = rows_of(ser0), rows_of(out.reorder_levels(names) if multi and list(out.index.names) != names and set(out.index.names) == set(names) else out)
        if len(src) != len(dst):
            raise Violation("%s: %d classes -> %d classes" % (op, len(src), len(dst)), bucket="hist:%s:rows" % op)
        want = {}
        for i1, i2, node, v in src:
            x = operand[node - 1] if len(operand) == 2 else operand[0]
            fn = (lambda e: e * x) if op == "scale" else (lambda e: e + x)
            w1 = (fn(i1.left), fn(i1.right)) if not (op == "shift" and kind != "from_to") else (i1.left, i1.right)
            w2 = (fn(i2.left), fn(i2.right)) if i2 is not None else None
            want.setdefault((w1, w2, node), []).append(v)
        gotd = {}
        for i1, i2, node, v in dst:
            gotd.setdefault(((i1.left, i1.right), (i2.left, i2.right) if i2 is not None else None, node), []).append(v)
        if {k: sorted(v) for k, v in want.items()} != {k: sorted(v) for k, v in gotd.items()}:
            miss = [k for k in want if k not in gotd][:2]
            raise Violation("%s(%r) of a %s histogram: classes/counts differ from the model; e.g. expected class %r missing, got %r"
                            % (op, case["operand"], kind, miss, list(gotd)[:2]), bucket="hist:%s:classes" % op)
        if abs(float(np.sum(out.values)) - float(np.sum(ser0.values))) > 0:
            raise Violation("%s changed the total count" % op, bucket="hist:%s:total" % op)
        ser = out
        names = list(ser.index.names)
        multi = isinstance(ser.index, pd.MultiIndex)
        ctx.nontrivial()
    acc = ser.load_collective
    if where == "left":
        acc = acc.use_class_left()
    elif where == "right":
        acc = acc.use_class_right()
    rows = rows_of(ser)
    A = [derived(i1, i2, where)[0] for i1, i2, node, v in rows]
    Mn = [derived(i1, i2, where)[1] for i1, i2, node, v in rows]
    scale = [abs(x) for i1, i2, node, v in rows for x in ((i1.left, i1.right) + ((i2.left, i2.right) if i2 is not None else ()))]
    tol = _atol(scale)
    U = [m + a for a, m in zip(A, Mn)]
    L = [m - a for a, m in zip(A, Mn)]
    got = {"amplitude": acc.amplitude, "meanstress": acc.meanstress, "upper": acc.upper, "lower": acc.lower, "cycles": acc.cycles}
    want = {"amplitude": A, "meanstress": Mn, "upper": U, "lower": L, "cycles": [v for *_, v in rows]}
    for k in got:
        if not got[k].index.equals(ser.index):
            raise Violation("%s is not indexed like the histogram" % k, bucket="hist:index:%s" % k)
        if not _same(got[k].values, want[k], tol if k != "cycles" else 0.0):
            raise Violation("%s (%s, class %s) = %r, model %r" % (k, kind, where, list(got[k].values)[:6], want[k][:6]), bucket="hist:%s" % k)
    gu, gl, ga, gm = (np.asarray(got[k].values, dtype=float) for k in ("upper", "lower", "amplitude", "meanstress"))
    if not _same(gu - gl, 2 * ga, tol) or not _same((gu + gl) / 2, gm, tol):
        raise Violation("upper/lower inconsistent with amplitude/mean", bucket="hist:mutual")
    with np.errstate(all="ignore"):
        ratio = gl / gu
    ratio = np.where(np.isnan(ratio), 0.0, ratio)
    if not _same(acc.R.values, ratio):
        raise Violation("R = %r but lower/upper = %r" % (list(acc.R.values)[:6], list(ratio)[:6]), bucket="hist:R")
    if case["extra"] != "none" or where != "mid":
        ctx.nontrivial()


# --------------------------------------------------------------------------- 4. histogramming a collective
@st.composite
def _histogram_cases(draw, tier):
    n = draw(st.integers(1, 14))
    grid = draw(st.sampled_from(["int", "int", "eighth", "float"]))
    if grid == "int":
        val = st.integers(0, 12).map(float)
        mval = st.integers(-6, 12).map(float)
    elif grid == "eighth":
        val = st.integers(0, 96).map(lambda i: i / 8.0)
        mval = st.integers(-48, 96).map(lambda i: i / 8.0)
    else:
        val = st.floats(0.0, 12.0, allow_nan=False).map(_norm)
        mval = st.floats(-6.0, 12.0, allow_nan=False).map(_norm)
    rng = draw(st.lists(val, min_size=n, max_size=n))
    mean = draw(st.lists(mval, min_size=n, max_size=n))
    spec = draw(st.sampled_from(["count", "count", "edges", "edges", "edges", "intervals", "intervals", "interval_array", "single"]))
    single_as = None
    if spec == "count":
        bins = draw(st.integers(1, 6))
    elif spec == "single":
        a = float(draw(st.integers(0, 6)))
        bins = [a, a + float(draw(st.integers(1, 12)))]
        single_as = draw(st.sampled_from(["edges_float", "edges_int", "intervals_float", "intervals_int"]))
    else:
        bins = draw(_edges(lo=0.0, hi=4.0, nmax=6))
        if grid != "float":
            bins = [float(round(x * 8) / 8.0) for x in bins]
            bins = sorted(set(bins))
        if len(bins) < 3:                 # one class is the 'single' specification
            bins = [bins[0], bins[0] + 1.0, bins[0] + 2.5]
    layout = draw(st.sampled_from(["plain", "multi", "multi3", "dup_plain", "dup_multi"]))
    axis = draw(st.sampled_from([None, "cyc"])) if layout not in ("plain", "dup_plain") else None
    weights = draw(st.sampled_from(["none", "none", "ones", "weighted"]))
    return {"range": rng, "mean": mean, "spec": spec, "bins": bins, "single_as": single_as, "layout": layout, "axis": axis,
            "weights": weights, "form": draw(st.sampled_from(["range_mean", "from_to"]))}


def two_edge_class(case):
    """F14_a: the bin specification of the 2-D histogram() resolves to exactly two edges (one class)."""
    return case["spec"] != "count" and len(case["bins"]) == 2


def count_bins_groups_differ_class(case, groups_minmax):
    """F14_b: histogram(int, axis): the groups do not all span the same (min, max) of range and of mean."""
    return case["spec"] == "count" and case["axis"] is not None and len(set(groups_minmax)) > 1


def _count_model(values, edges):
    """per class: (strictly inside, inside the closure), and number of values inside [first, last]"""
    lo = [sum(1 for v in values if edges[i] < v < edges[i + 1]) for i in range(len(edges) - 1)]
    hi = [sum(1 for v in values if edges[i] <= v <= edges[i + 1]) for i in range(len(edges) - 1)]
    tot = sum(1 for v in values if edges[0] <= v <= edges[-1])
    return lo, hi, tot


@subcheck("C14", "collective_histogram", strategy=_histogram_cases, quick=1500, thorough=60000,
          doc="range_histogram / histogram with bins as count, edges, IntervalIndex, IntervalArray, one class; whole collective or along an "
              "axis: class counts sum to the number of rows inside [first edge, last edge], every class count lies between the number of rows "
              "strictly inside and inside its closure, range histogram == marginal of the range/mean histogram when all means are covered")
def collective_histogram(case, ctx):
    _LC()
    n = len(case["range"])
    rng = np.array(case["range"], dtype=float)
    mean = np.array(case["mean"], dtype=float)
    index, groups = _index(case["layout"], n)
    if case["form"] == "range_mean":
        df = pd.DataFrame({"range": rng, "mean": mean}, index=index)
    else:
        flip = np.arange(n) % 2 == 1
        lo, hi = mean - rng / 2.0, mean + rng / 2.0
        df = pd.DataFrame({"from": np.where(flip, hi, lo), "to": np.where(flip, lo, hi)}, index=index)
    if case["weights"] == "ones":
        df["cycles"] = 1.0
    elif case["weights"] == "weighted":
        df["cycles"] = np.arange(2.0, n + 2.0)
    lc = df.load_collective
    # what pyLife histograms: its own range and mean
    R2 = [float(x) for x in (lc.amplitude * 2.0).values]
    MN = [float(x) for x in lc.meanstress.values]
    # ... which must be the collective it was given: one range/mean per row (any index layout, repeated labels included)
    tolr = _atol(rng, mean)
    if len(R2) != n or not _same(R2, rng, tolr) or not _same(MN, mean, tolr):
        raise Violation("the collective holds ranges %r / means %r for the %d rows range %r / mean %r it was made from (index %r)"
                        % (R2[:8], MN[:8], n, list(rng)[:8], list(mean)[:8], list(df.index)[:8]), bucket="histogram:collective_rows")
    if not df.index.is_unique:
        ctx.label("repeated_index_labels")
        ctx.nontrivial()
    spec, bins = case["spec"], case["bins"]
    if spec == "intervals":
        barg = pd.IntervalIndex.from_breaks(bins)
    elif spec == "interval_array":
        barg = pd.arrays.IntervalArray.from_breaks(bins)
    elif spec == "count":
        barg = int(bins)
    elif spec == "single":
        how = case.get("single_as") or "edges_float"
        b = [int(x) for x in bins] if how.endswith("int") else list(bins)
        barg = pd.IntervalIndex.from_breaks(b) if how.startswith("intervals") else b
        ctx.label("single:" + how)
    else:
        barg = list(bins)
    ctx.label("bins:" + spec, case["layout"], "axis:%s" % case["axis"], "weights:" + case["weights"], case["form"])
    axis = case["axis"]
    if axis is None:
        grp = {(): list(range(n))}
    else:
        grp = {}
        for i, key in enumerate(df.index):
            grp.setdefault(tuple(key[:-1]), []).append(i)
    def narrow(vals):
        """a non-degenerate data range of a few ulp: numpy cannot cut it into classes (its documented ValueError)"""
        return any(0.0 < max(vals[i] for i in mem) - min(vals[i] for i in mem) <= 16 * EPS * max(abs(vals[i]) for i in mem) * int(bins)
                   for mem in grp.values())
    df_before = _snapshot(df)
    barg_before = barg.copy(deep=True) if isinstance(barg, pd.IntervalIndex) else None
    amp_before = lc.amplitude.copy()
    try:
        h1 = lc.range_histogram(barg, axis).to_pandas()
    except ValueError as ex:
        if spec == "count" and "Too many bins for data range" in str(ex) and narrow(R2):
            ctx.tolerate("numpy: too many bins for a data range of a few ulp")
            return
        raise
    do2d = True
    if two_edge_class(case):
        ctx.label("F14_a_class")
        do2d = not ctx.known("F14_a")
    minmax = [(min(R2[i] for i in mem), max(R2[i] for i in mem), min(MN[i] for i in mem), max(MN[i] for i in mem)) for mem in grp.values()]
    if count_bins_groups_differ_class(case, minmax):
        ctx.label("F14_b_class")
        do2d = do2d and not ctx.known("F14_b")
    try:
        h2 = lc.histogram(barg, axis).to_pandas() if do2d else None
    except ValueError as ex:
        if spec == "count" and "Too many bins for data range" in str(ex) and (narrow(R2) or narrow(MN)):
            ctx.tolerate("numpy: too many bins for a data range of a few ulp")
            return
        raise
    # the collective the caller holds (and a pandas bin specification) is unchanged, the call repeated gives the same histogram
    _assert_unchanged(df_before, df, "range_histogram/histogram")
    if isinstance(barg, pd.IntervalIndex) and not barg.equals(barg_before):
        raise Violation("range_histogram/histogram modified the IntervalIndex bin specification", bucket="input_modified:bins")
    _same_result(h1, lc.range_histogram(barg, axis).to_pandas(), "range_histogram")
    if h2 is not None:
        _same_result(h2, df.load_collective.histogram(barg, axis).to_pandas(), "histogram")
    _same_result(amp_before, lc.amplitude, "amplitude read before/after histogramming")
    if axis is None and case["weights"] != "weighted" and len(h1) >= 1:
        # the integer-count range histogram fed straight into rebin_histogram: every class split into halves or thirds
        # (shares are fractions), and a number of bins - the total stays the number of counted cycles
        from pylife.utils.histogram import rebin_histogram
        e = [float(h1.index[0].left)] + [float(iv.right) for iv in h1.index]
        k = 2 + (n % 2)
        fine = sorted(set(a + (b - a) * j / k for a, b in zip(e[:-1], e[1:]) for j in range(k)) | {e[-1]})
        tot = float(h1.sum())
        for target in (pd.IntervalIndex.from_breaks(fine), 2 * len(h1) + 1):
            with warnings.catch_warnings():
                warnings.simplefilter("ignore")
                rb = rebin_histogram(h1, target)
            if abs(float(rb.sum()) - tot) > 1e-12 * max(tot, 1.0):
                raise Violation("range_histogram %r (dtype %s, total %r) rebinned to %s holds %r cycles"
                                % (list(h1.values), h1.dtype, tot, "%d bins" % target if isinstance(target, int) else fine, float(rb.sum())),
                                bucket="histogram:then_rebin_total")
        ctx.label("range_histogram_then_rebin")
    if case["weights"] == "weighted":
        ctx.label("weighted_not_asserted")
        if abs(float(h1.sum()) - float(df["cycles"].sum())) > 1e-9 and float(h1.sum()) <= n:
            ctx.label("weights_ignored_by_range_histogram")
        return
    if axis is not None or spec in ("single", "intervals", "interval_array"):
        ctx.nontrivial()

    def sub(h, g):
        if axis is None:
            return h
        if len(g) == 1:
            return h.xs(g[0], level=h.index.names[0])
        return h.xs(g, level=list(h.index.names[:len(g)]))

    for g, members in grp.items():
        r = [R2[i] for i in members]
        m = [MN[i] for i in members]
        s1 = sub(h1, g)
        iv = s1.index.get_level_values("range") if isinstance(s1.index, pd.MultiIndex) else s1.index
        edges = [float(iv[0].left)] + [float(x.right) for x in iv]
        if spec != "count" and edges != [float(b) for b in bins]:
            raise Violation("range_histogram classes %r do not match the requested edges %r" % (edges, bins), bucket="histogram:edges")
        lo, hi, tot = _count_model(r, edges)
        got = [float(x) for x in s1.values]
        if any(v in edges for v in r) or len(set(np.diff(edges).round(12))) > 1:
            ctx.nontrivial()
        if any(v in edges for v in r):
            ctx.label("value_on_edge")
        if sum(got) != tot:
            raise Violation("range_histogram(%s) counts %r sum to %r, but %d of the ranges %r lie inside [%r, %r]"
                            % (spec, got, sum(got), tot, r, edges[0], edges[-1]), bucket="histogram:range_total")
        for k, c in enumerate(got):
            if not (lo[k] <= c <= hi[k]):
                raise Violation("range_histogram class (%r, %r] holds %r rows; ranges strictly inside: %d, inside the closure: %d (ranges %r)"
                                % (edges[k], edges[k + 1], c, lo[k], hi[k], r), bucket="histogram:range_class")
        # 2-D
        if h2 is None:
            continue
        s2 = sub(h2, g)
        riv = s2.index.get_level_values("range")
        miv = s2.index.get_level_values("mean")
        redges = sorted(set([float(x.left) for x in riv] + [float(x.right) for x in riv]))
        medges = sorted(set([float(x.left) for x in miv] + [float(x.right) for x in miv]))
        if spec != "count" and (redges != [float(b) for b in bins] or medges != [float(b) for b in bins]):
            raise Violation("histogram(%r) has range edges %r and mean edges %r, requested were the edges %r for both"
                            % (barg if spec == "single" else spec, redges, medges, bins), bucket="histogram:2d_edges")
        inside = sum(1 for a, b in zip(r, m) if redges[0] <= a <= redges[-1] and medges[0] <= b <= medges[-1])
        if float(s2.sum()) != inside:
            raise Violation("histogram(%s) counts sum to %r, but %d rows lie inside the covered range x mean rectangle (ranges %r, means %r, "
                            "range edges %r, mean edges %r)" % (spec, float(s2.sum()), inside, r, m, redges, medges), bucket="histogram:2d_total")
        for (ri, mi), c in zip(zip(riv, miv), s2.values):
            lo2 = sum(1 for a, b in zip(r, m) if ri.left < a < ri.right and mi.left < b < mi.right)
            hi2 = sum(1 for a, b in zip(r, m) if ri.left <= a <= ri.right and mi.left <= b <= mi.right)
            if not (lo2 <= c <= hi2):
                raise Violation("histogram class range %r / mean %r holds %r rows, model: between %d and %d" % (ri, mi, c, lo2, hi2),
                                bucket="histogram:2d_class")
        if redges == edges:
            marg = s2.groupby(level="range", sort=False).sum()
            marg = [float(marg[x]) for x in iv]
            allin = all(medges[0] <= b <= medges[-1] for b in m)
            if allin:
                ctx.label("all_means_covered")
                if marg != got:
                    raise Violation("range histogram %r is not the marginal %r of the range/mean histogram although every mean is covered "
                                    "(ranges %r, means %r, edges %r)" % (got, marg, r, m, edges), bucket="histogram:marginal")
            else:
                ctx.label("means_outside")
                if any(a > b for a, b in zip(marg, got)):
                    raise Violation("marginal %r exceeds the range histogram %r" % (marg, got), bucket="histogram:marginal_exceeds")


# --------------------------------------------------------------------------- 5. recorder histogram (call histories)
@st.composite
def _recorder_cases(draw, tier):
    val = draw(st.sampled_from([st.integers(-6, 6).map(float), st.integers(-48, 48).map(lambda i: i / 8.0),
                                st.floats(-6.0, 6.0, allow_nan=False).map(_norm)]))
    detector = draw(st.sampled_from([None, None, "fkm", "fkm", "threepoint", "fourpoint"]))
    nsteps = draw(st.integers(1, 4))
    steps = []
    for _ in range(nsteps):
        via = "record_values" if detector is None else draw(st.sampled_from(["process", "process", "record_values"]))
        if via == "record_values":
            n = draw(st.sampled_from([0, 1, 2, 3, 4, 5, 6, 7, 8, 3, 5]))
            steps.append({"via": via, "from": draw(st.lists(val, min_size=n, max_size=n)), "to": draw(st.lists(val, min_size=n, max_size=n))})
        else:
            # chunks of at least two samples (empty chunks are the subject of C01, not of the histogram accounting)
            steps.append({"via": via, "signal": draw(st.lists(val, min_size=4, max_size=16))})
    spec = draw(st.sampled_from(["count", "count", "default", "count2", "edges", "edges2", "single"]))
    if spec == "count":
        bins = draw(st.integers(1, 5))
    elif spec == "default":
        bins = None
    elif spec == "count2":
        bins = [draw(st.integers(1, 5)), draw(st.integers(1, 5))]
    elif spec == "edges":
        bins = [float(round(x * 8) / 8) for x in draw(_edges(lo=-6, hi=0, nmax=5))]
    elif spec == "edges2":
        bins = [[float(round(x * 8) / 8) for x in draw(_edges(lo=-6, hi=0, nmax=5))] for _ in range(2)]
    else:
        bins = [[-6.0, 6.0], [-6.0, 6.0]]
    return {"detector": detector, "steps": steps, "spec": spec, "bins": bins,
            "interleave": draw(st.sampled_from([True, True, False])), "numpy_first": draw(st.booleans())}


def _RF():
    from .. import build
    build.load_kernel("plain")
    import pylife.stress.rainflow as RF
    return RF


def _check_recorder_histogram(h, fr, to, spec, when, ctx):
    if list(h.index.names) != ["from", "to"]:
        raise Violation("recorder histogram index levels %r" % (list(h.index.names),), bucket="recorder:levels")
    fiv, tiv = h.index.get_level_values("from"), h.index.get_level_values("to")
    fe = sorted(set([float(x.left) for x in fiv] + [float(x.right) for x in fiv]))
    te = sorted(set([float(x.left) for x in tiv] + [float(x.right) for x in tiv]))
    inside = sum(1 for a, b in zip(fr, to) if fe[0] <= a <= fe[-1] and te[0] <= b <= te[-1])
    if any(a in fe for a in fr) or any(b in te for b in to) or spec == "single":
        ctx.nontrivial()
    if spec in ("count", "count2", "default") and inside != len(fr):
        # a number of bins lets numpy span the classes over all loops: every loop recorded so far is covered
        raise Violation("recorder histogram(%s) %s covers from %r..%r / to %r..%r, but loops recorded so far are from %r, to %r"
                        % (spec, when, fe[0], fe[-1], te[0], te[-1], fr, to), bucket="recorder:not_covered")
    if float(h.sum()) != inside:
        raise Violation("recorder histogram(%s) %s sums to %r, %d of the %d loops recorded so far lie inside the covered rectangle "
                        "(from %r, to %r, edges %r / %r)" % (spec, when, float(h.sum()), inside, len(fr), fr, to, fe, te),
                        bucket="recorder:total")
    for (fi, ti), c in zip(zip(fiv, tiv), h.values):
        lo = sum(1 for a, b in zip(fr, to) if fi.left < a < fi.right and ti.left < b < ti.right)
        hi = sum(1 for a, b in zip(fr, to) if fi.left <= a <= fi.right and ti.left <= b <= ti.right)
        if not (lo <= c <= hi):
            raise Violation("recorder histogram class from %r / to %r %s holds %r loops, model: between %d and %d" % (fi, ti, when, c, lo, hi),
                            bucket="recorder:class")


@subcheck("C14", "recorder_histogram", strategy=_recorder_cases, quick=1000, thorough=40000,
          doc="call histories on a LoopValueRecorder: loops arrive in 1-4 steps via record_values() and/or a detector (FKM, three-, four-point) "
              "processing chunks; histogram(bins) / histogram_numpy(bins) (count, default, [nx, ny], edges, [edges, edges]) taken after every "
              "step or only at the end: class counts sum to the number of loops recorded SO FAR inside the covered rectangle (all of them for "
              "a bin count), each class between strictly-inside and closure counts; collective == recorded loops")
def recorder_histogram(case, ctx):
    RF = _RF()
    rec = RF.LoopValueRecorder()
    det = {None: None, "fkm": RF.FKMDetector, "threepoint": RF.ThreePointDetector, "fourpoint": RF.FourPointDetector}[case["detector"]]
    det = det(recorder=rec) if det is not None else None
    spec, bins = case["spec"], case["bins"]
    # numpy.histogram2d semantics are documented for the recorder: a two-element sequence means [nx, ny], so a
    # single sequence of edges needs >= 3 edges; [array, array] may have two edges each
    if spec in ("edges2", "single"):
        bins = [sorted(set(b)) if len(set(b)) >= 2 else [0.0, 1.0] for b in bins]
    elif spec == "edges":
        bins = sorted(set(bins))
        if len(bins) < 3:
            bins = [-6.0, 0.0, 6.0]
    ctx.label("bins:" + spec, "detector:%s" % case["detector"], "interleaved" if case["interleave"] else "histogram_at_end")
    given_fr, given_to, only_given = [], [], True
    taken = 0
    nsteps = len(case["steps"])
    for k, step in enumerate(case["steps"]):
        if step["via"] == "record_values":
            rec.record_values(np.array(step["from"], dtype=float), np.array(step["to"], dtype=float))
            given_fr += step["from"]; given_to += step["to"]
        else:
            det.process(np.array(step["signal"], dtype=float))
            only_given = False
        fr, to = [float(x) for x in rec.values_from], [float(x) for x in rec.values_to]
        coll = rec.collective
        if list(coll["from"]) != fr or list(coll["to"]) != to or (only_given and (fr != given_fr or to != given_to)):
            raise Violation("recorder collective differs from the recorded loops", bucket="recorder:collective")
        if not (case["interleave"] or k == nsteps - 1):
            continue
        if len(fr) == 0 and spec in ("count", "count2", "default"):
            continue        # numpy cannot derive edges from no data (and there are no cycles to account for)
        when = "after step %d of %d (%s)" % (k + 1, nsteps, step["via"])
        if case["numpy_first"]:
            hn = rec.histogram_numpy() if spec == "default" else rec.histogram_numpy(bins)
        h = rec.histogram() if spec == "default" else rec.histogram(bins)
        if case["numpy_first"] and float(hn[0].sum()) != float(h.sum()):
            raise Violation("histogram_numpy and histogram disagree %s: %r vs %r" % (when, float(hn[0].sum()), float(h.sum())),
                            bucket="recorder:numpy_vs_pandas")
        _check_recorder_histogram(h, fr, to, spec, when, ctx)
        if [float(x) for x in rec.values_from] != fr or [float(x) for x in rec.values_to] != to:
            raise Violation("taking the histogram %s changed the recorded loops" % when, bucket="input_modified:recorder")
        _same_result(h, rec.histogram() if spec == "default" else rec.histogram(bins), "LoopValueRecorder.histogram")
        taken += 1
    if taken == 0:
        # in the domain, but nothing to histogram: no loop recorded and a bin count (numpy cannot derive edges from no data);
        # the collective clause above was still asserted
        ctx.label("no_loops_no_histogram")
    if taken >= 2:
        ctx.label("histogram_taken_repeatedly")
        ctx.nontrivial()


# --------------------------------------------------------------------------- 6. rebin
@st.composite
def _target(draw, src_edges, kinds):
    lo, hi = src_edges[0], src_edges[-1]
    span = hi - lo
    kind = draw(st.sampled_from(kinds))
    if kind == "identical":
        return kind, list(src_edges)
    if kind == "one_class":
        pad = draw(st.sampled_from([0.0, 0.0, 1.0])) * span
        return kind, [lo - pad, hi + pad]
    if kind == "count":
        return kind, draw(st.integers(1, 8))
    if kind == "finer":
        e = list(src_edges)
        for a, b in zip(src_edges[:-1], src_edges[1:]):
            for _ in range(draw(st.integers(0, 2))):
                e.append(a + (b - a) * draw(st.sampled_from([0.5, 0.25, 0.75, 0.125])))
        return kind, sorted(set(e))
    if kind == "coarser":
        inner = list(src_edges[1:-1])
        kept = [x for x in inner if draw(st.booleans())]
        if inner and not kept:
            kept = [inner[draw(st.integers(0, len(inner) - 1))]]      # a one-class result is its own kind
        return kind, [src_edges[0]] + kept + [src_edges[-1]]
    if kind == "wider":
        n = draw(st.integers(2, 6))
        a = lo - span * draw(st.sampled_from([0.0, 0.5, 1.0]))
        b = hi + span * draw(st.sampled_from([0.0, 0.5, 1.0]))
        return kind, [float(x) for x in np.linspace(a, b, n + 1)]
    # irregular covering binning
    n = draw(st.integers(2, 6))
    pts = sorted(set(draw(st.lists(st.floats(0.01, 0.99, allow_nan=False), min_size=n - 1, max_size=n - 1))))
    return kind, sorted(set([lo] + [lo + span * p for p in pts if 0 < p < 1] + [hi]))


@st.composite
def _rebin_cases(draw, tier):
    dims = draw(st.sampled_from([1, 1, 2]))
    src, tg1, tg2, kinds = [], [], [], []
    for d in range(dims):
        e = draw(_edges(nmax=5 if dims == 1 else 3))
        if len(e) == 2 and draw(st.integers(0, 3)) > 0:
            e = [e[0], (e[0] + e[1]) / 2.0, e[1]]
        src.append(e)
        k1, t1 = draw(_target(e, ["finer", "irregular", "coarser", "wider", "identical", "count", "one_class", "count", "irregular"]))
        # second target for the composition law
        if isinstance(t1, list) and len(t1) >= 2:
            if k1 in ("finer", "identical"):
                k2, t2 = draw(_target(e, ["irregular", "irregular", "wider", "wider", "coarser", "coarser", "one_class"]))
            else:
                inner = list(t1[1:-1])
                kept = [x for x in inner if draw(st.booleans())]
                if inner and not kept and draw(st.integers(0, 3)) > 0:
                    kept = [inner[0]]
                k2, t2 = "coarsening_of_first", [t1[0]] + kept + [t1[-1]]
        else:
            k2, t2 = None, None
        tg1.append(t1); tg2.append(t2); kinds.append([k1, k2])
    ncls = 1
    for e in src:
        ncls *= len(e) - 1
    counts = draw(st.lists(st.one_of(st.sampled_from([0.0, 1.0, 10.0]), st.integers(0, 10**6).map(float), st.floats(0.0, 1e6, allow_nan=False)),
                           min_size=ncls, max_size=ncls))
    int_counts = draw(st.integers(0, 2)) == 0
    if int_counts:
        counts = draw(st.lists(st.one_of(st.sampled_from([0.0, 1.0, 3.0, 5.0]), st.integers(0, 10**4).map(float)), min_size=ncls, max_size=ncls))
    gaps = dims == 1 and len(src[0]) > 3 and draw(st.integers(0, 4)) == 0
    drop = draw(st.integers(1, len(src[0]) - 3)) if gaps else None
    # a second, finer histogram whose classes lie inside the classes of the first one: what combine_histogram() returns for
    # histograms of different resolution (nested / overlapping classes in one histogram)
    nested = None
    if dims == 1 and not gaps and draw(st.integers(0, 1)) == 0:
        e = src[0]
        fine = list(e)
        for a, b in zip(e[:-1], e[1:]):
            for _ in range(draw(st.integers(0, 2))):
                fine.append(a + (b - a) * draw(st.sampled_from([0.5, 0.25, 0.75, 0.375])))
        fine = sorted(set(fine))
        mode = draw(st.sampled_from(["finer", "coarser", "coarser"])) if len(e) >= 4 else "finer"
        if mode == "coarser":
            # classes of the second histogram span several classes of the first one, e.g. (0, 4] over (1, 2], (2, 3]
            i = draw(st.integers(0, len(e) - 3))
            j = draw(st.integers(i + 2, len(e) - 1))
            fine = [e[i], e[j]] + ([e[-1]] if j < len(e) - 1 and draw(st.booleans()) else [])
        else:
            i = draw(st.integers(0, len(fine) - 2))
            j = draw(st.integers(i + 1, len(fine) - 1))
            fine = fine[i:j + 1]
        pos = st.one_of(st.sampled_from([1.0, 10.0, 3.0]), st.integers(1, 10**4).map(float))
        fcounts = draw(st.lists(pos, min_size=len(fine) - 1, max_size=len(fine) - 1))
        counts = [c if c > 0 or draw(st.integers(0, 3)) == 0 else draw(pos) for c in counts]      # mostly occupied classes
        nested = {"edges": fine, "counts": fcounts, "via": draw(st.sampled_from(["combine", "combine", "concat"])), "mode": mode}
    return {"dims": dims, "source": src, "target1": tg1, "target2": tg2, "kinds": kinds, "counts": counts, "nested": nested,
            "target_level_order": draw(st.sampled_from(["same", "swapped", "swapped"])), "repeat": draw(st.booleans()), "int_counts": int_counts,
            "closed": draw(st.sampled_from(["right", "right", "left"])), "nan_default": draw(st.sampled_from([False, False, True])),
            "drop_class": drop, "binning_as_multiindex": draw(st.sampled_from([True, True, False])),
            # a histogram is a mapping class -> count: its rows may be listed in any order (sort_values, concat, ...)
            "row_order": draw(st.sampled_from(["ascending", "ascending", "descending", "by_count", "permuted", "permuted"])),
            "row_perm": draw(st.permutations(list(range(ncls + (len(nested["edges"]) - 1 if nested else 0)))))}


def _ii(edges, closed, name=None):
    return pd.IntervalIndex.from_breaks(edges, closed=closed, name=name)


def one_interval_class(binning):
    """F06: the target binning is an IntervalIndex with exactly one interval."""
    return isinstance(binning, pd.IntervalIndex) and len(binning) == 1


@subcheck("C14", "rebin_conserves", strategy=_rebin_cases, quick=1500, thorough=50000,
          doc="rebin_histogram (1-D and 2-D, source rows ascending / descending / by count / permuted, source with nested classes made by "
              "combine_histogram([coarse, fine]) or concat, 2-D MultiIndex targets with the levels in the histogram's or in swapped order; target identical / one class / count / finer / coarser / wider / irregular): total conserved "
              "(rtol 1e-12) when the target covers the source, identity for the same binning, rebin(rebin(h, b1), b2) == rebin(h, b2) "
              "(1e-9) where exact (b1 refines the source classes, or b2 coarsens b1)")
def rebin_conserves(case, ctx):
    from pylife.utils.histogram import rebin_histogram
    dims, closed = case["dims"], case["closed"]
    names = ["range", "mean"][:dims]
    if dims == 1:
        idx = _ii(case["source"][0], closed, "range")
    else:
        idx = pd.MultiIndex.from_product([_ii(e, closed) for e in case["source"]], names=names)
    cnts = np.array(case["counts"], dtype=float)
    if case.get("int_counts") and all(float(c).is_integer() for c in case["counts"]):
        cnts = cnts.astype(np.int64)         # what numpy.histogram / range_histogram() deliver
        ctx.label("int64_counts")
    h = pd.Series(cnts, index=idx, name="cycles")
    if case["drop_class"] is not None:
        h = h.drop(h.index[case["drop_class"]])
        ctx.label("source_with_gap")
    nested = case.get("nested")
    if nested:
        from pylife.utils.histogram import combine_histogram
        fine = pd.Series(np.array(nested["counts"], dtype=float).astype(h.dtype), index=_ii(nested["edges"], closed, "range"), name="cycles")
        grand = float(h.sum()) + float(fine.sum())
        if nested["via"] == "combine":
            h = combine_histogram([h, fine])
            ctx.label("source_from_combine_histogram")
        else:
            fine = fine[[iv not in h.index for iv in fine.index]]       # no class twice in one histogram
            grand = float(h.sum()) + float(fine.sum())
            h = pd.concat([h, fine])
            ctx.label("source_from_concat")
        if abs(float(h.sum()) - grand) > 1e-12 * max(grand, 1.0):
            raise Violation("combine_histogram changed the grand total %r -> %r" % (grand, float(h.sum())), bucket="rebin:combine_total")
        lst = list(h.index)
        if any(a is not b and a.overlaps(b) for a in lst for b in lst):
            ctx.label("source_classes_nested")
            ctx.nontrivial()
    order = case.get("row_order", "ascending")
    if order == "descending":
        h = h.iloc[::-1]
    elif order == "by_count":
        h = h.sort_values(ascending=False, kind="stable")
    elif order == "permuted":
        perm = [i for i in case["row_perm"] if i < len(h)]
        h = h.iloc[perm + [i for i in range(len(h)) if i not in perm]]
    if len(h) > 1 and not h.index.equals(h.sort_index().index):
        ctx.label("source_rows_not_ascending")
        ctx.nontrivial()
    h0 = _snapshot(h)
    total = float(h.sum())

    def binning(tg):
        if dims == 1:
            return tg[0] if isinstance(tg[0], int) else _ii(tg[0], closed)
        if any(isinstance(t, int) for t in tg):
            return next(t for t in tg if isinstance(t, int))
        if case["binning_as_multiindex"]:
            if case.get("target_level_order", "same") == "swapped":
                # the levels of the target are named: their order need not be the histogram's
                return pd.MultiIndex.from_product([_ii(t, closed) for t in tg[::-1]], names=names[::-1])
            return pd.MultiIndex.from_product([_ii(t, closed) for t in tg], names=names)
        return _ii(tg[0], closed)           # one IntervalIndex for every dimension

    def levels_of(b):
        """the target binning of every histogram level, in the histogram's level order (looked up by name)"""
        if isinstance(b, pd.MultiIndex):
            return [b.levels[list(b.names).index(n)] for n in names]
        return [b] * dims

    k1 = [k[0] for k in case["kinds"]]
    ctx.label("%dd" % dims, *["target:" + k for k in k1])
    b1 = binning(case["target1"])
    if dims == 2 and not isinstance(b1, (int, pd.MultiIndex)):
        ctx.label("2d_single_binning")
    if any(k in ("one_class", "irregular", "wider", "finer", "coarser") for k in k1) or dims == 2:
        ctx.nontrivial()

    def covers(b, src_edges_list):
        if isinstance(b, int):
            return True
        levels = levels_of(b)
        return all(lv.left.min() <= e[0] and lv.right.max() >= e[-1] for lv, e in zip(levels, src_edges_list))

    def call(hh, b):
        with warnings.catch_warnings(record=True) as w:
            warnings.simplefilter("always")
            out = rebin_histogram(hh, b, nan_default=case["nan_default"])
        lost = any(issubclass(x.category, RuntimeWarning) and "out of binning" in str(x.message) for x in w)
        return out, lost

    levels1 = levels_of(b1)
    if isinstance(b1, pd.MultiIndex) and list(b1.names) != names:
        ctx.label("target_levels_swapped")
    if any(one_interval_class(lv) for lv in levels1):
        ctx.label("F06_class")
        if ctx.known("F06"):
            return
    b1_0 = b1 if isinstance(b1, int) else b1.copy(deep=True)
    r1, lost1 = call(h, b1)
    _assert_unchanged(h0, h, "rebin_histogram")
    if not isinstance(b1, int) and not (b1.equals(b1_0) and list(b1.names) == list(b1_0.names)):
        raise Violation("rebin_histogram modified the target binning it was given", bucket="input_modified:rebin_binning")
    if case.get("repeat", True):
        _same_result(r1, call(h, b1)[0], "rebin_histogram")
    cov = covers(b1, case["source"])
    t1 = float(np.nansum(r1.values))
    if cov:
        if lost1:
            ctx.label("observation:out_of_binning_warning_although_covered")      # the warning is not part of the statement
        if abs(t1 - total) > 1e-12 * max(total, 1.0):
            raise Violation("total %r -> %r after rebinning %r onto %r (%s)" % (total, t1, case["source"], case["target1"], k1),
                            bucket="rebin:total:" + "+".join(k1))
    else:
        ctx.label("target_does_not_cover")
        if t1 > total * (1 + 1e-12) + 1e-300:
            raise Violation("rebinning onto a smaller range increased the total %r -> %r" % (total, t1), bucket="rebin:total_grows")
        if not lost1:
            ctx.label("observation:no_warning_although_not_covered")
    if (r1.values[~np.isnan(r1.values)] < 0).any():
        raise Violation("negative class count after rebinning", bucket="rebin:negative")
    if isinstance(b1, pd.MultiIndex):
        for n, lv in zip(names, levels1):
            got_lv = set((iv.left, iv.right) for iv in r1.index.get_level_values(n))
            if got_lv != set((iv.left, iv.right) for iv in lv):
                raise Violation("level %r of the result carries the classes %r, the target binning for that level is %r"
                                % (n, sorted(got_lv)[:4], [(iv.left, iv.right) for iv in lv][:4]), bucket="rebin:level_classes")
    if all(k == "identical" for k in k1) and case["drop_class"] is None and not nested and (dims == 1 or isinstance(b1, pd.MultiIndex)):
        a = r1.reorder_levels(names) if dims == 2 else r1
        want = {key: v for key, v in zip(h0.index, h0.values)}
        for key, v in zip(a.index, a.values):
            w = want.get(key)
            v = 0.0 if (math.isnan(v) and case["nan_default"]) else v
            if w is None or abs(v - w) > 1e-12 * max(abs(w), 1.0):
                raise Violation("rebinning onto the same binning changed class %r: %r -> %r" % (key, w, v), bucket="rebin:identity")
    # composition
    if all(t is not None for t in case["target2"]) and not isinstance(b1, int) and cov and not case["nan_default"] and case["drop_class"] is None:
        b2 = binning(case["target2"])
        levels2 = levels_of(b2)
        if dims == 2 and not case["binning_as_multiindex"]:
            return          # one binning for both dimensions: the per-dimension composition premises do not both hold
        if any(one_interval_class(lv) for lv in levels2):
            ctx.label("F06_class")
            if ctx.known("F06"):
                return
        if not covers(b2, [t for t in case["target1"]]):
            return
        if nested and case["kinds"][0][1] != "coarsening_of_first" and not set(nested["edges"]) <= set(case["target1"][0]):
            return          # b1 refines the coarse classes only, not the nested ones: the composition is not exact
        direct, _ = call(h, b2)
        via, _ = call(r1, b2)
        ctx.label("composition")
        d = {key: v for key, v in zip(direct.index, direct.values)}
        v2 = via.reorder_levels(direct.index.names) if dims == 2 else via
        for key, v in zip(v2.index, v2.values):
            w = d.get(key)
            if w is None or abs(v - w) > 1e-9 * max(total, 1.0):
                raise Violation("rebin(rebin(h, b1), b2) class %r = %r, rebin(h, b2) = %r (source %r, b1 %r, b2 %r)"
                                % (key, v, w, case["source"], case["target1"], case["target2"]), bucket="rebin:composition")


# --------------------------------------------------------------------------- 7. invalid binnings raise the documented error
@st.composite
def _invalid_binnings(draw, tier):
    e = draw(_edges(nmax=4))
    kind = draw(st.sampled_from(["decreasing", "gaps", "overlap", "not_interval_index"]))
    return {"source": e, "kind": kind, "counts": [1.0] * (len(e) - 1)}


@subcheck("C14", "rebin_rejects_invalid", strategy=_invalid_binnings, quick=200, thorough=2000,
          doc="decreasing, gapped or overlapping target binnings raise ValueError, a non-IntervalIndex raises TypeError (documented)")
def rebin_rejects_invalid(case, ctx):
    from pylife.utils.histogram import rebin_histogram
    e = case["source"]
    h = pd.Series(case["counts"], index=_ii(e, "right"))
    lo, hi = e[0], e[-1]
    w = hi - lo
    kind = case["kind"]
    ctx.label(kind)
    if kind == "decreasing":
        b = pd.IntervalIndex.from_tuples([(lo + w / 2, hi), (lo, lo + w / 2)])
    elif kind == "gaps":
        b = pd.IntervalIndex.from_tuples([(lo, lo + w / 4), (lo + w / 2, hi)])
    elif kind == "overlap":
        b = pd.IntervalIndex.from_tuples([(lo, lo + 3 * w / 4), (lo + w / 2, hi)])
    else:
        b = pd.Index([lo, hi])
    try:
        rebin_histogram(h, b)
    except (ValueError, TypeError) as ex:
        if (kind == "not_interval_index") != isinstance(ex, TypeError):
            raise Violation("%s binning raised %s, documented is %s" % (kind, type(ex).__name__,
                            "TypeError" if kind == "not_interval_index" else "ValueError"), bucket="rebin_invalid:type")
        ctx.tolerate("%s:%s" % (kind, type(ex).__name__))
        ctx.nontrivial()
        return
    raise Violation("%s target binning accepted silently" % kind, bucket="rebin_invalid:accepted")


# --------------------------------------------------------------------------- 8. combine
@st.composite
def _combine_cases(draw, tier):
    dims = draw(st.sampled_from([1, 1, 2]))
    k = draw(st.integers(1, 4))
    pool = [draw(_edges(nmax=4)) for _ in range(dims)]
    hists = []
    for _ in range(k):
        mode = draw(st.sampled_from(["same", "shifted", "subset", "empty", "other"]))
        edges = []
        for d in range(dims):
            e = pool[d]
            if mode == "shifted":
                w = e[1] - e[0]
                e = [x + w for x in e] if all(abs((b - a) - w) < 1e-9 for a, b in zip(e[:-1], e[1:])) else e
            elif mode == "other":
                e = draw(_edges(nmax=3))
            edges.append(e)
        ncls = 1
        for e in edges:
            ncls *= len(e) - 1
        counts = draw(st.lists(st.one_of(st.integers(0, 1000).map(float), st.floats(0.0, 1e6, allow_nan=False)), min_size=ncls, max_size=ncls))
        keep = draw(st.lists(st.booleans(), min_size=ncls, max_size=ncls)) if mode == "subset" else [True] * ncls
        if mode == "empty":
            keep = [False] * ncls
        hists.append({"edges": edges, "counts": counts, "keep": keep})
    return {"dims": dims, "hists": hists, "swap_levels": dims == 2 and draw(st.booleans())}


@subcheck("C14", "combine_total", strategy=_combine_cases, quick=800, thorough=30000,
          doc="combine_histogram(list, 'sum') of 1-D / 2-D histograms with identical, shifted, partial, empty or unrelated class sets: every "
              "distinct class once with the sum of its entries (rtol 1e-12), grand total conserved")
def combine_total(case, ctx):
    from pylife.utils.histogram import combine_histogram
    dims = case["dims"]
    names = ["range", "mean"][:dims]
    hs, model, grand = [], {}, 0.0
    for hd in case["hists"]:
        lv = [_ii(e, "right") for e in hd["edges"]]
        idx = pd.IntervalIndex(lv[0], name=names[0]) if dims == 1 else pd.MultiIndex.from_product(lv, names=names)
        s = pd.Series(np.array(hd["counts"], dtype=float), index=idx)
        s = s[np.array(hd["keep"], dtype=bool)]
        for key, v in zip(s.index, s.values):
            key = key if isinstance(key, tuple) else (key,)
            kk = tuple((iv.left, iv.right) for iv in key)
            model[kk] = model.get(kk, 0.0) + float(v)
            grand += float(v)
        hs.append(s)
    ctx.label("%dd" % dims, "n=%d" % len(hs))
    copies = [_snapshot(s) for s in hs]
    nlist = len(hs)
    res = combine_histogram(hs, "sum")
    for a, b in zip(hs, copies):
        _assert_unchanged(b, a, "combine_histogram")
    if len(hs) != nlist:
        raise Violation("combine_histogram changed the list it was given (%d -> %d histograms)" % (nlist, len(hs)), bucket="input_modified:combine_list")
    _same_result(res, combine_histogram(hs, "sum"), "combine_histogram")
    if len(model) >= 2 and len([s for s in hs if len(s)]) >= 2:
        ctx.nontrivial()
    if abs(float(res.sum()) - grand) > 1e-12 * max(grand, 1.0):
        raise Violation("grand total %r -> %r" % (grand, float(res.sum())), bucket="combine:total")
    got = {}
    for key, v in zip(res.index, res.values):
        key = key if isinstance(key, tuple) else (key,)
        kk = tuple((iv.left, iv.right) for iv in key)
        if kk in got:
            raise Violation("class %r occurs twice in the combined histogram" % (kk,), bucket="combine:duplicate")
        got[kk] = float(v)
    if set(got) != set(model):
        raise Violation("combined classes %r, expected %r" % (sorted(got)[:4], sorted(model)[:4]), bucket="combine:classes")
    for kk, w in model.items():
        if abs(got[kk] - w) > 1e-12 * max(w, 1.0):
            raise Violation("class %r: %r, sum of the inputs %r" % (kk, got[kk], w), bucket="combine:class_sum")
    if len(res) and dims == 2 and list(res.index.names) != names:
        raise Violation("combined histogram index levels %r, expected %r" % (list(res.index.names), names), bucket="combine:levels")
