"""C15 - failure probability equals the analytic load/strength distribution overlap.

Oracle: for log-normal strength (median m_S, log10-scatter s_S) and log-normal load (median m_L, log10-scatter s_L)

    P_f = P(load > strength) = Phi(z),   z = (lg m_L - lg m_S) / sqrt(s_L^2 + s_S^2)

evaluated in the harness with ``math.erfc`` (accurate to a few ulp *relative* in both tails; no scipy.stats,
which is what the code under test uses).

Tolerance.  The quantifier of the property reaches from P_f = 1e-12 to 1 - 1e-12.  An absolute tolerance at the
level of the quadrature's nominal accuracy (1.5e-8) would make the statement empty below 1e-8: returning 0
for 1e-12 would "equal" it.  The only reading under which the quantifier range means something is a tolerance
relative to the smaller of P_f and 1 - P_f:

    |got - Phi(z)| <= RTOL * min(Phi(z), 1 - Phi(z)) + 16 eps ,        RTOL = 1e-3

RTOL = 1e-3 is three significant digits of the failure (or survival) probability, the precision with which the
project itself prints these numbers ('%.2e' in demos/lifetime_calc.ipynb); where the implementation works it is
five to ten orders better than that, so RTOL is not what keeps the check quiet.  The absolute floor 16 eps = 3.6e-15
is rounding only: near 1 the result is a float with spacing 1.1e-16 obtained from a sum of 21..~1000 products, so a
few ulp of 1.0 cannot be avoided; at the edge of the domain (1 - P_f = 1e-12) the floor is 0.36 % of 1 - P_f.
"""

import math

import numpy as np
from hypothesis import strategies as st

from ..core import Violation, subcheck, nontrivial_rule, assumptions

PROP = "C15"
RTOL = 1e-3
EPS = 2.220446049250313e-16
FLOOR = 16 * EPS
ZMAX = 7.034          # Phi(-7.034) = 1.0e-12: the quantifier's range of failure probabilities

nontrivial_rule(PROP, "Non-trivial: load scatter > 0 and (P_f outside [1e-4, 1-1e-4] or scatter ratio s_L/s_S outside [1/30, 30]); "
                      "vanishing-scatter clause: P_f outside [1e-4, 1-1e-4]; for the arbitrary-density clause: the rigorous "
                      "trapezoid bound of the finest grid is below 1 % of min(P_f, 1-P_f), i.e. the clause can tell a wrong value from a right one.")
assumptions(PROP, [
    "scalar arguments (quad cannot integrate array-valued integrands; the vectorised docstring of pf_norm_load is not exercised)",
    "default integration limits; the optional lower_limit/upper_limit arguments are not part of the statement",
    "tolerance: |dP| <= 1e-3 * min(P, 1-P) + 16 eps (relative to the smaller tail; see module docstring)",
    "load scatter vanishes as s_L = s_S * 10^-k, k <= 40 (s_L = 0 itself is outside: the density is not defined)",
    "pf_arbitrary_load gets log10 load values and the density over log10 load (as in the repository's own test)",
])


def Phi(z):
    return 0.5 * math.erfc(-z / math.sqrt(2.0))


def tol(p, q):
    return RTOL * min(p, q) + FLOOR


def cond(z, s, *lgs):
    """Conditioning of the oracle itself: lg(median) carries a rounding error of ~1 ulp, which is divided by the
    (possibly tiny) scatter; the induced uncertainty of Phi(z) is phi(z) * dz and is not the code's fault."""
    dz = 4 * EPS * max([1.0] + [abs(v) for v in lgs]) / s
    return math.exp(-0.5 * z * z) / math.sqrt(2 * math.pi) * dz


def _fp():
    from pylife.strength.failure_probability import FailureProbability
    return FailureProbability


R_TAIL, R_BULK, P_TAIL = 0.1, 1.5, 1.5e-5


def f07_class(r, p, q):
    """Input class attributable to F07: ``integrate.quad`` over the fixed interval +-16 s_L with the default absolute
    stop criterion epsabs = 1.49e-8.  With r = s_L/s_S and s = hypot(s_L, s_S):

    (a) r >= 1.5: the integrand pdf_L * cdf_S is a bump of width s_L s_S / s (a step of width s_S for large r) centred
        |z| s_L^2/s away from the load median.  It is narrower than the spacing of the 21 Gauss-Kronrod nodes of the first
        panel (0.15 * 16 s_L = 2.4 s_L); when it sits between two nodes both rules see ~0, the error estimate is below
        epsabs and quad returns after 21 evaluations (witness: r = 4.5, z = -3.08, P = 1.04e-3 returned as 2.8e-5).
    (b) min(P, 1-P) < 1.5e-5 and r >= 0.1: the whole integrand (or its deviation from the load density) is below
        epsabs / RTOL, so the error estimate passes whatever the panel saw.  For r < 0.1 the integrand is a constant
        times the load density on the whole interval and the first panel is accurate in relative terms.

    The result depends on (r, z) only (the integrand is scale invariant); a 600 000-point scan of the plane
    -1.2 <= lg r <= 4, |z| <= 7.034 puts the first error > 1e-6 at r = 1.8 (bulk) and r = 0.17 (tails); outside this
    class the largest error seen is 3.9e-7 * min(P, 1-P), 2500 times below RTOL.
    """
    return (min(p, q) < P_TAIL and r >= R_TAIL) or r >= R_BULK


# ------------------------------------------------------------------ generators
_lg = lambda lo, hi: st.floats(math.log10(lo), math.log10(hi), allow_nan=False).map(lambda e: 10.0 ** e)

_z = st.one_of(
    st.floats(-ZMAX, ZMAX, allow_nan=False),
    st.floats(-4.17, -3.0), st.floats(3.0, 4.17),            # tails still promised by the quadrature's own epsabs
    st.floats(-ZMAX, -4.17), st.floats(4.17, ZMAX),          # deep tails
    st.floats(-0.05, 0.05),
    st.sampled_from([0.0, -ZMAX, ZMAX, 0.01, -0.01]),
)


@st.composite
def _pairs(draw, tier):
    sm = draw(_lg(1.0, 1e4))
    mode = draw(st.sampled_from(["free", "ratio", "near_one", "near_one"]))
    if mode == "near_one":          # load not wider than 1.5 x the strength scatter: the region behind the known class
        sS = draw(_lg(1.5e-4, 2.0))
        sL = sS * 10 ** draw(st.floats(-1.5, math.log10(1.5)))
        sL = min(max(sL, 1e-4), 2.0)
    elif mode == "free":
        sS = draw(_lg(1e-4, 2.0))
        sL = draw(_lg(1e-4, 2.0))
    else:
        lr = draw(st.floats(-4.0, 4.0))
        g = draw(_lg(10 ** (-4 + abs(lr) / 2), 2.0 * 10 ** (-abs(lr) / 2)))     # both scatters stay inside [1e-4, 2]
        sS, sL = g * 10 ** (-lr / 2), g * 10 ** (lr / 2)
        sS, sL = min(max(sS, 1e-4), 2.0), min(max(sL, 1e-4), 2.0)
    z = draw(_z)
    return {"strength_median": sm, "strength_std": sS, "load_std": sL, "z": z}


def _load_median(sm, sS, sL, z):
    return 10.0 ** (math.log10(sm) + z * math.hypot(sS, sL))


def _exact(sm, sS, lm, sL):
    """Phi(z) and 1 - Phi(z) from the floats actually handed to pyLife."""
    z = (math.log10(lm) - math.log10(sm)) / math.hypot(sS, sL)
    return z, Phi(z), Phi(-z)


def _labels(ctx, r, p, q, z):
    ctx.label("ratio<1/30" if r < 1 / 30 else "ratio>30" if r > 30 else "ratio~1")
    m = min(p, q)
    ctx.label("tail<1e-9" if m < 1e-9 else "tail<1e-5" if m < 1.5e-5 else "tail<1e-4" if m < 1e-4 else "bulk")
    if r > 30 or r < 1 / 30 or m < 1e-4:
        ctx.nontrivial()


# ------------------------------------------------------------------ clause 1 + bounds
@subcheck(PROP, "norm_load_closed_form", strategy=_pairs, quick=1600, thorough=60000,
          doc="pf_norm_load == Phi(z) relative to min(P,1-P) (RTOL 1e-3 + 16 eps); result in [0,1]")
def norm_load_closed_form(case, ctx):
    sm, sS, sL = case["strength_median"], case["strength_std"], case["load_std"]
    lm = _load_median(sm, sS, sL, case["z"])
    z, p, q = _exact(sm, sS, lm, sL)
    r = sL / sS
    _labels(ctx, r, p, q, z)
    got = float(_fp()(sm, sS).pf_norm_load(lm, sL))
    if not (0.0 <= got <= 1.0):          # also catches NaN
        raise Violation("pf_norm_load(%r, %r) with strength (%r, %r) = %r is not in [0, 1] (Phi(z) = %r)"
                        % (lm, sL, sm, sS, got, p), bucket="norm:outside_unit_interval")
    if f07_class(r, p, q):
        ctx.label("in_F07_class")
        if ctx.known("F07"):
            return
    err = abs(got - p)
    if err > tol(p, q) + cond(z, math.hypot(sS, sL), math.log10(lm), math.log10(sm)):
        which = "tail" if min(p, q) < P_TAIL else "narrow_bump" if r >= R_BULK else "bulk"
        raise Violation("pf_norm_load = %r, Phi(z) = %r (1-Phi = %r, z = %.6g, s_L/s_S = %.4g): |dP| = %.3g = %.3g * min(P,1-P), allowed %.3g"
                        % (got, p, q, z, r, err, err / min(p, q), tol(p, q)), bucket="norm:closed_form:" + which)


# ------------------------------------------------------------------ clause 2: vanishing load scatter, pf_simple_load
@st.composite
def _vanishing(draw, tier):
    return {"strength_median": draw(_lg(1.0, 1e4)), "strength_std": draw(_lg(1e-4, 2.0)), "z": draw(_z),
            "k": sorted(draw(st.lists(st.sampled_from([1, 2, 3, 4, 6, 8, 12, 16, 24, 32, 40]), min_size=2, max_size=3, unique=True))),
            "absolute_tiny": draw(st.booleans())}


@subcheck(PROP, "vanishing_load_scatter", strategy=_vanishing, quick=480, thorough=16000,
          doc="pf_simple_load == Phi((lg L - lg S)/s_S); pf_norm_load(s_L = s_S 10^-k) -> pf_simple_load within the analytic gap + tolerance")
def vanishing_load_scatter(case, ctx):
    sm, sS = case["strength_median"], case["strength_std"]
    lm = _load_median(sm, sS, 0.0, case["z"])
    fp = _fp()(sm, sS)
    zs = (math.log10(lm) - math.log10(sm)) / sS
    ps, qs = Phi(zs), Phi(-zs)
    simple = float(fp.pf_simple_load(lm))
    # pf_simple_load is one cdf evaluation: 64 ulp relative to the smaller tail, plus rounding of a value near 1,
    # plus the conditioning of z = (lg L - lg S) / s_S for tiny s_S (both sides compute lg with ~1 ulp error)
    if not (0.0 <= simple <= 1.0) or abs(simple - ps) > 64 * EPS * min(ps, qs) + 4 * EPS + cond(zs, sS, math.log10(lm), math.log10(sm)):
        raise Violation("pf_simple_load(%r) with strength (%r, %r) = %r, Phi(z) = %r" % (lm, sm, sS, simple, ps), bucket="simple:closed_form")
    vec = np.asarray(fp.pf_simple_load(np.array([lm, sm, 2 * lm])))
    if vec.shape != (3,) or vec[0] != simple or vec[1] != 0.5:
        raise Violation("pf_simple_load on an array %r differs from scalar calls (%r, 0.5, ..)" % (vec.tolist(), simple), bucket="simple:vector")
    if min(ps, qs) < 1e-4:
        ctx.nontrivial()
    ctx.label("tail" if min(ps, qs) < 1e-4 else "bulk")
    prev_gap = None
    for k in case["k"]:
        sL = (10.0 ** -k) if case["absolute_tiny"] else sS * 10.0 ** -k
        r = sL / sS
        if r >= R_TAIL:         # (0.1, ..) belongs to the closed-form sub-check
            continue
        z, p, q = _exact(sm, sS, lm, sL)
        got = float(fp.pf_norm_load(lm, sL))
        if not (0.0 <= got <= 1.0):
            raise Violation("pf_norm_load(%r, %r) = %r not in [0,1]" % (lm, sL, got), bucket="vanish:outside_unit_interval")
        gap = abs(p - ps)                      # what the exact overlap differs from the deterministic-load value
        allowed = gap + tol(p, q) + cond(z, sS, math.log10(lm), math.log10(sm))
        if abs(got - simple) > allowed:
            raise Violation("s_L = %r (s_L/s_S = %.3g): pf_norm_load = %r, pf_simple_load = %r, differ by %.3g, exact values differ by %.3g, allowed %.3g"
                            % (sL, r, got, simple, abs(got - simple), gap, allowed), bucket="vanish:not_converging")
        prev_gap = gap
    if prev_gap is None:
        ctx.skip("no s_L with s_L/s_S < 0.1 in the case")


# ------------------------------------------------------------------ clause 3: monotone
@st.composite
def _mono(draw, tier):
    c = draw(_pairs(tier))
    c["dz"] = draw(st.one_of(_lg(1e-6, 3.0), st.sampled_from([1e-3, 0.1, 1.0])))
    c["vary"] = draw(st.sampled_from(["load_median", "strength_median"]))
    return c


@subcheck(PROP, "monotone", strategy=_mono, quick=480, thorough=16000,
          doc="P_f does not decrease with the load median, does not increase with the strength median (within the tolerance), "
              "and strictly changes when the exact values differ by more than twice the tolerance")
def monotone(case, ctx):
    sm, sS, sL = case["strength_median"], case["strength_std"], case["load_std"]
    s = math.hypot(sS, sL)
    z1 = max(-ZMAX, min(case["z"], ZMAX - case["dz"]))
    z2 = z1 + case["dz"]
    r = sL / sS
    if case["vary"] == "load_median":
        lo = (sm, _load_median(sm, sS, sL, z1))
        hi = (sm, _load_median(sm, sS, sL, z2))
    else:   # larger strength median <-> smaller z; keep the load, move the strength
        lm = _load_median(sm, sS, sL, z2)
        lo = (10.0 ** (math.log10(lm) - z1 * s), lm)
        hi = (sm, lm)
    (sm1, lm1), (sm2, lm2) = lo, hi
    _, p1, q1 = _exact(sm1, sS, lm1, sL)
    _, p2, q2 = _exact(sm2, sS, lm2, sL)
    if not p2 >= p1:
        ctx.skip("rounding of the medians reversed the order")
    _labels(ctx, r, p1, q1, z1)
    ctx.label(case["vary"])
    if (f07_class(r, p1, q1) or f07_class(r, p2, q2)):
        ctx.label("in_F07_class")
        if ctx.known("F07"):
            return
    FP = _fp()
    g1 = float(FP(sm1, sS).pf_norm_load(lm1, sL))
    g2 = float(FP(sm2, sS).pf_norm_load(lm2, sL))
    t = tol(p1, q1) + tol(p2, q2)
    if g2 < g1 - t:
        raise Violation("P_f decreases from %r to %r although %s moves towards failure (exact %r -> %r; s_L/s_S = %.3g)"
                        % (g1, g2, case["vary"], p1, p2, r), bucket="monotone:reversed:" + case["vary"])
    if p2 - p1 > 2 * t and not g2 > g1:
        raise Violation("P_f stays at %r -> %r although the exact value rises %r -> %r (%s; s_L/s_S = %.3g)"
                        % (g1, g2, p1, p2, case["vary"], r), bucket="monotone:flat:" + case["vary"])


# ------------------------------------------------------------------ clause 4: arbitrary density converges
@st.composite
def _arbitrary(draw, tier):
    sm = draw(_lg(1.0, 1e4))
    sS = draw(_lg(1e-3, 1.0))
    lr = draw(st.floats(-1.5, 1.5))
    sL = sS * 10 ** lr
    z = draw(st.one_of(st.floats(-5.0, 5.0), st.floats(-1.0, 1.0)))
    n = draw(st.integers(60, 400 if tier == "quick" else 1500))
    pattern = draw(st.lists(st.integers(1, 4), min_size=1, max_size=6))
    grading = draw(st.sampled_from([0.0, 0.0, 1.0, 3.0, -0.7]))     # spacing grows (or shrinks) linearly across the interval
    half = draw(st.floats(8.0, 12.0))
    return {"strength_median": sm, "strength_std": sS, "load_std": sL, "z": z, "n": n, "spacing_pattern": pattern, "grading": grading,
            "half_width_sigmas": half}


def _grid(a, b, n, pattern, grading=0.0):
    w = np.array([pattern[i % len(pattern)] for i in range(n - 1)], dtype=float)
    w = w * (1.0 + grading * np.arange(n - 1) / max(n - 2, 1))
    x = a + (b - a) * np.concatenate([[0.0], np.cumsum(w) / w.sum()])
    x[-1] = b
    return x


def _pdf(x, mu, s):
    return np.exp(-0.5 * ((x - mu) / s) ** 2) / (s * math.sqrt(2 * math.pi))


def _cdf(x, mu, s):
    from scipy.special import erfc
    return 0.5 * erfc(-(x - mu) / (s * math.sqrt(2.0)))


def _second_derivative_max(a, b, muL, sL, muS, sS):
    """max |f''| on [a, b] for f = pdf_L * cdf_S (analytic f'', maximum over a grid that resolves min(s_L, s_S) with > 30 points)."""
    x = np.linspace(a, b, 40001)
    p, C, c = _pdf(x, muL, sL), _cdf(x, muS, sS), _pdf(x, muS, sS)
    u, v = (x - muL) / sL ** 2, (x - muS) / sS ** 2
    f2 = (u * u - 1 / sL ** 2) * p * C + 2 * (-u * p) * c + p * (-v * c)
    return float(np.max(np.abs(f2)))


@subcheck(PROP, "arbitrary_load_converges", strategy=_arbitrary, quick=320, thorough=10000,
          doc="pf_arbitrary_load on a sampled log-normal density (n, 4n, 16n points, non-uniform spacing): |error| <= rigorous "
              "trapezoid bound sum(h^3)/12 max|f''| + truncated mass, which falls like 1/n^2")
def arbitrary_load_converges(case, ctx):
    sm, sS, sL = case["strength_median"], case["strength_std"], case["load_std"]
    lm = _load_median(sm, sS, sL, case["z"])
    z, p, q = _exact(sm, sS, lm, sL)
    muL, muS = math.log10(lm), math.log10(sm)
    hw = case["half_width_sigmas"]
    a, b = muL - hw * sL, muL + hw * sL
    M2 = 1.02 * _second_derivative_max(a, b, muL, sL, muS, sS)
    trunc = 2 * Phi(-hw)
    fp = _fp()(sm, sS)
    errs, bounds = [], []
    for mult in (1, 4, 16):
        x = _grid(a, b, case["n"] * mult, case["spacing_pattern"], case.get("grading", 0.0))
        pdf = _pdf(x, muL, sL)
        got = float(fp.pf_arbitrary_load(x, pdf))
        h = np.diff(x)
        bound = float(np.sum(h ** 3)) / 12.0 * M2 + trunc + 1e-13      # 1e-13: rounding of a sum of <= 25000 terms <= 1
        errs.append(abs(got - p))
        bounds.append(bound)
        if not errs[-1] <= bound:
            raise Violation("pf_arbitrary_load on %d points = %r, Phi(z) = %r: error %.3g exceeds the trapezoid bound %.3g (s_L/s_S = %.3g, z = %.4g)"
                            % (len(x), got, p, errs[-1], bound, sL / sS, z), bucket="arbitrary:bound")
    ctx.label("graded" if case.get("grading") else "uniform" if len(set(case["spacing_pattern"])) == 1 else "periodic_nonuniform")
    ctx.label("decisive" if bounds[-1] <= 1e-2 * min(p, q) else "indecisive")
    if bounds[-1] <= 1e-2 * min(p, q):
        ctx.nontrivial()
    # the sequence approaches the value: the finest error is below the coarsest bound / 100 (bounds fall by 256)
    if not errs[-1] <= bounds[0] / 100 + trunc + 1e-13:
        raise Violation("no convergence: errors %r for n, 4n, 16n" % (errs,), bucket="arbitrary:no_convergence")
