"""C15 - failure probability equals the analytic load/strength distribution overlap.

Oracle: for log-normal strength (median m_S, log10-scatter s_S) and log-normal load (median m_L, log10-scatter s_L)

    P_f = P(load > strength) = Phi(z),   z = (lg m_L - lg m_S) / s,   s = sqrt(s_L^2 + s_S^2)

evaluated in the harness with ``math.log10``, ``math.hypot`` and ``math.erfc`` (no scipy.stats, which is what the code
under test uses).

Tolerance.  The quantifier of the property reaches from P_f = 1e-12 to 1 - 1e-12, so the comparison cannot carry an
absolute floor that is visible at 1e-12: returning 0 (or a value with three good digits lost) for 1e-12 would "equal" it.
Since F07 is repaired, ``pf_norm_load`` without limits is a closed form, and the tolerance is what a correct double
precision evaluation of Phi(z) guarantees - the rounding of z itself included:

  * z.  lg m is returned with an error of at most 1 ulp, i.e. eps |lg m|; the difference of the two logarithms, the root of
    the sum of squares and the quotient add at most 3 eps |z|.  The harness computes its own z from the same floats with the
    same kind of error, so the two z can differ by   dz = 2 eps (|lg m_L| + |lg m_S|) / s + 8 eps |z|
    (the second term also covers the scaling of the argument by 1/sqrt(2) inside both cdf implementations).
  * Phi.  |Phi(z + dz) - Phi(z)| <= phi(z) dz (1 + |z| dz); both cdf evaluations (erfc based) are accurate to a few ulp of
    the *returned value*: 16 eps P together.  For P near 1 this is 16 eps absolute (a float near 1 cannot do better), for the
    lower tail it is relative to P - there is deliberately no absolute floor.

      TOL(z) = 1.01 phi(z) dz + 16 eps Phi(z)

    Examples: s = 0.1, medians ~1e3, P = 1e-12: TOL = 1.4e-24 (1.4e-12 relative).  s = 1e-4 (worst conditioning generated),
    P = 1e-12: 2.6e-10 relative.  A subtraction from 1 in the lower tail (absolute error ~1e-16) exceeds TOL for P < 1e-2.

The former bound 1e-3 * min(P, 1-P) + 16 eps (three significant digits, what numerical integration can be asked for) applies
only where explicit integration limits force the quadrature; that path is not part of the statement and is not generated.
"""

import math

import numpy as np
from hypothesis import strategies as st

from ..core import Violation, subcheck, nontrivial_rule, assumptions

PROP = "C15"
EPS = 2.220446049250313e-16
ZMAX = 7.034          # Phi(-7.034) = 1.0e-12: the quantifier's range of failure probabilities

nontrivial_rule(PROP, "Non-trivial: load scatter > 0 and (P_f outside [1e-4, 1-1e-4] or scatter ratio s_L/s_S outside [1/30, 30]); "
                      "vanishing-scatter clause: P_f outside [1e-4, 1-1e-4]; vector clause: >= 2 elements with distinct scatters; "
                      "for the arbitrary-density clause: the rigorous "
                      "trapezoid bound of the finest grid is below 1 % of min(P_f, 1-P_f), i.e. the clause can tell a wrong value from a right one.")
assumptions(PROP, [
    "default integration limits (closed form since the repair of F07); the optional lower_limit/upper_limit arguments (numerical "
    "integration) are not part of the statement and are not generated",
    "tolerance TOL(z) = 1.01 phi(z) [2 eps (|lg m_L| + |lg m_S|)/s + 8 eps |z|] + 16 eps Phi(z): double-precision evaluation of Phi(z) "
    "including the conditioning of z; relative in the lower tail, no absolute floor (see module docstring)",
    "load scatter vanishes as s_L = s_S * 10^-k, k <= 40; s_L = 0 exactly occurs as entries of the scatter array of the vector clause "
    "(the closed form is defined there and must give the deterministic-load value at those points only)",
    "vector calls use numpy float arrays (lists fail on the unchanged tree in sc**2 and are not generated); shapes (N,) against (N,) or scalars",
    "pf_arbitrary_load gets log10 load values and the density over log10 load (as in the repository's own test)",
])


def Phi(z):
    return 0.5 * math.erfc(-z / math.sqrt(2.0))


def tol(z, s, lgL, lgS):
    """TOL(z) of the module docstring."""
    dz = 2 * EPS * (abs(lgL) + abs(lgS)) / s + 8 * EPS * abs(z)
    return 1.01 * math.exp(-0.5 * z * z) / math.sqrt(2 * math.pi) * dz * (1 + abs(z) * dz) + 16 * EPS * Phi(z)


def _fp():
    from pylife.strength.failure_probability import FailureProbability
    return FailureProbability


R_TAIL, R_BULK, P_TAIL = 0.1, 1.5, 1.5e-5


def former_f07_class(r, p, q):
    """The input class in which the quadrature-based implementation failed (finding F07, repaired): s_L/s_S >= 1.5 (integrand
    bump between the Gauss-Kronrod nodes) or a tail below 1.5e-5 with s_L/s_S >= 0.1 (absolute stop criterion).  Only a label
    now: the histogram shows that the region is exercised."""
    return (min(p, q) < P_TAIL and r >= R_TAIL) or r >= R_BULK


# ------------------------------------------------------------------ generators
_lg = lambda lo, hi: st.floats(math.log10(lo), math.log10(hi), allow_nan=False).map(lambda e: 10.0 ** e)

_z = st.one_of(
    st.floats(-ZMAX, ZMAX, allow_nan=False),
    st.floats(-4.17, -3.0), st.floats(3.0, 4.17),
    st.floats(-ZMAX, -4.17), st.floats(4.17, ZMAX),          # deep tails
    st.floats(-ZMAX, -5.5),                                  # P_f < 2e-8: where a lost absolute 1e-16 shows
    st.floats(-0.05, 0.05),
    st.sampled_from([0.0, -ZMAX, ZMAX, 0.01, -0.01]),
)


@st.composite
def _scatters(draw):
    mode = draw(st.sampled_from(["free", "ratio", "near_one"]))
    if mode == "near_one":
        sS = draw(_lg(1.5e-4, 2.0))
        sL = sS * 10 ** draw(st.floats(-1.5, 1.5))
        sL = min(max(sL, 1e-4), 2.0)
    elif mode == "free":
        sS = draw(_lg(1e-4, 2.0))
        sL = draw(_lg(1e-4, 2.0))
    else:
        lr = draw(st.floats(-4.0, 4.0))
        g = draw(_lg(10 ** (-4 + abs(lr) / 2), 2.0 * 10 ** (-abs(lr) / 2)))     # both scatters stay inside [1e-4, 2]
        sS, sL = g * 10 ** (-lr / 2), g * 10 ** (lr / 2)
        sS, sL = min(max(sS, 1e-4), 2.0), min(max(sL, 1e-4), 2.0)
    return sS, sL


@st.composite
def _pairs(draw, tier):
    sm = draw(_lg(1.0, 1e4))
    sS, sL = draw(_scatters())
    z = draw(_z)
    return {"strength_median": sm, "strength_std": sS, "load_std": sL, "z": z}


def _load_median(sm, sS, sL, z):
    return 10.0 ** (math.log10(sm) + z * math.hypot(sS, sL))


def _exact(sm, sS, lm, sL):
    """z, Phi(z), 1 - Phi(z) and TOL(z) from the floats actually handed to pyLife."""
    lgL, lgS, s = math.log10(lm), math.log10(sm), math.hypot(sS, sL)
    z = (lgL - lgS) / s
    return z, Phi(z), Phi(-z), tol(z, s, lgL, lgS)


def _labels(ctx, r, p, q, z):
    ctx.label("ratio<1/30" if r < 1 / 30 else "ratio>30" if r > 30 else "ratio~1")
    m = min(p, q)
    ctx.label("tail<1e-9" if m < 1e-9 else "tail<1e-5" if m < 1.5e-5 else "tail<1e-4" if m < 1e-4 else "bulk")
    if former_f07_class(r, p, q):
        ctx.label("former_F07_class")
    if r > 30 or r < 1 / 30 or m < 1e-4:
        ctx.nontrivial()


# ------------------------------------------------------------------ clause 1 + bounds
@subcheck(PROP, "norm_load_closed_form", strategy=_pairs, quick=1600, thorough=60000,
          doc="pf_norm_load == Phi(z) within TOL(z) (double-precision evaluation incl. conditioning of z, relative in the lower tail); result in [0,1]")
def norm_load_closed_form(case, ctx):
    sm, sS, sL = case["strength_median"], case["strength_std"], case["load_std"]
    lm = _load_median(sm, sS, sL, case["z"])
    z, p, q, t = _exact(sm, sS, lm, sL)
    r = sL / sS
    _labels(ctx, r, p, q, z)
    got = float(_fp()(sm, sS).pf_norm_load(lm, sL))
    if not (0.0 <= got <= 1.0):          # also catches NaN
        raise Violation("pf_norm_load(%r, %r) with strength (%r, %r) = %r is not in [0, 1] (Phi(z) = %r)"
                        % (lm, sL, sm, sS, got, p), bucket="norm:outside_unit_interval")
    err = abs(got - p)
    if err > t:
        which = "lower_tail" if p < P_TAIL else "upper_tail" if q < P_TAIL else "bulk"
        raise Violation("pf_norm_load = %r, Phi(z) = %r (1-Phi = %r, z = %.6g, s_L/s_S = %.4g): |dP| = %.3g = %.3g * P = %.3g * (1-P), allowed %.3g"
                        % (got, p, q, z, r, err, err / p, err / q, t), bucket="norm:closed_form:" + which)


# ------------------------------------------------------------------ clause 2: vanishing load scatter, pf_simple_load
@st.composite
def _vanishing(draw, tier):
    return {"strength_median": draw(_lg(1.0, 1e4)), "strength_std": draw(_lg(1e-4, 2.0)), "z": draw(_z),
            "k": sorted(draw(st.lists(st.sampled_from([1, 2, 3, 4, 6, 8, 12, 16, 24, 32, 40]), min_size=2, max_size=3, unique=True))),
            "absolute_tiny": draw(st.booleans())}


@subcheck(PROP, "vanishing_load_scatter", strategy=_vanishing, quick=480, thorough=16000,
          doc="pf_simple_load == Phi((lg L - lg S)/s_S) within TOL; pf_norm_load(s_L = s_S 10^-k) -> pf_simple_load within the analytic gap + TOL")
def vanishing_load_scatter(case, ctx):
    sm, sS = case["strength_median"], case["strength_std"]
    lm = _load_median(sm, sS, 0.0, case["z"])
    fp = _fp()(sm, sS)
    zs, ps, qs, ts = _exact(sm, sS, lm, 0.0)
    simple = float(fp.pf_simple_load(lm))
    if not (0.0 <= simple <= 1.0) or abs(simple - ps) > ts:
        raise Violation("pf_simple_load(%r) with strength (%r, %r) = %r, Phi(z) = %r (allowed %.3g)" % (lm, sm, sS, simple, ps, ts), bucket="simple:closed_form")
    vec = np.asarray(fp.pf_simple_load(np.array([lm, sm, 2 * lm])))
    if vec.shape != (3,) or abs(vec[0] - simple) > 4 * EPS * simple or vec[1] != 0.5:
        raise Violation("pf_simple_load on an array %r differs from scalar calls (%r, 0.5, ..)" % (vec.tolist(), simple), bucket="simple:vector")
    if min(ps, qs) < 1e-4:
        ctx.nontrivial()
    ctx.label("tail" if min(ps, qs) < 1e-4 else "bulk")
    done = False
    for k in case["k"]:
        sL = (10.0 ** -k) if case["absolute_tiny"] else sS * 10.0 ** -k
        r = sL / sS
        if r >= R_TAIL:         # (0.1, ..) belongs to the closed-form sub-check
            continue
        z, p, q, t = _exact(sm, sS, lm, sL)
        got = float(fp.pf_norm_load(lm, sL))
        if not (0.0 <= got <= 1.0):
            raise Violation("pf_norm_load(%r, %r) = %r not in [0,1]" % (lm, sL, got), bucket="vanish:outside_unit_interval")
        gap = abs(p - ps)                      # what the exact overlap differs from the deterministic-load value
        allowed = gap + t + ts
        if abs(got - simple) > allowed:
            raise Violation("s_L = %r (s_L/s_S = %.3g): pf_norm_load = %r, pf_simple_load = %r, differ by %.3g, exact values differ by %.3g, allowed %.3g"
                            % (sL, r, got, simple, abs(got - simple), gap, allowed), bucket="vanish:not_converging")
        done = True
    if not done:
        ctx.skip("no s_L with s_L/s_S < 0.1 in the case")


# ------------------------------------------------------------------ clause 3: monotone
@st.composite
def _mono(draw, tier):
    c = draw(_pairs(tier))
    c["dz"] = draw(st.one_of(_lg(1e-6, 3.0), st.sampled_from([1e-3, 0.1, 1.0])))
    c["vary"] = draw(st.sampled_from(["load_median", "strength_median"]))
    return c


@subcheck(PROP, "monotone", strategy=_mono, quick=480, thorough=16000,
          doc="P_f does not decrease with the load median, does not increase with the strength median (within TOL of both points), "
              "and strictly changes when the exact values differ by more than twice that")
def monotone(case, ctx):
    sm, sS, sL = case["strength_median"], case["strength_std"], case["load_std"]
    s = math.hypot(sS, sL)
    z1 = max(-ZMAX, min(case["z"], ZMAX - case["dz"]))
    z2 = z1 + case["dz"]
    r = sL / sS
    if case["vary"] == "load_median":
        lo = (sm, _load_median(sm, sS, sL, z1))
        hi = (sm, _load_median(sm, sS, sL, z2))
    else:   # larger strength median <-> smaller z; keep the load, move the strength
        lm = _load_median(sm, sS, sL, z2)
        lo = (10.0 ** (math.log10(lm) - z1 * s), lm)
        hi = (sm, lm)
    (sm1, lm1), (sm2, lm2) = lo, hi
    _, p1, q1, t1 = _exact(sm1, sS, lm1, sL)
    _, p2, q2, t2 = _exact(sm2, sS, lm2, sL)
    if not p2 >= p1:
        ctx.skip("rounding of the medians reversed the order")
    _labels(ctx, r, p1, q1, z1)
    ctx.label(case["vary"])
    FP = _fp()
    g1 = float(FP(sm1, sS).pf_norm_load(lm1, sL))
    g2 = float(FP(sm2, sS).pf_norm_load(lm2, sL))
    t = t1 + t2
    if g2 < g1 - t:
        raise Violation("P_f decreases from %r to %r although %s moves towards failure (exact %r -> %r; s_L/s_S = %.3g)"
                        % (g1, g2, case["vary"], p1, p2, r), bucket="monotone:reversed:" + case["vary"])
    if p2 - p1 > 2 * t and not g2 > g1:
        raise Violation("P_f stays at %r -> %r although the exact value rises %r -> %r (%s; s_L/s_S = %.3g)"
                        % (g1, g2, p1, p2, case["vary"], r), bucket="monotone:flat:" + case["vary"])


# ------------------------------------------------------------------ clause 1 for several points at once
@st.composite
def _vector(draw, tier):
    n = draw(st.integers(2, 6))
    pts = []
    for _ in range(n):
        sS, sL = draw(_scatters())
        pts.append([draw(_lg(1.0, 1e4)), sS, sL, draw(_z)])
    form = draw(st.sampled_from(["all_arrays", "all_arrays", "all_arrays", "scalar_load_std", "scalar_strength", "scalar_load"]))
    if form == "all_arrays" and draw(st.booleans()):
        # a scatter array running down to exactly 0 (deterministic load at some points): the closed form is defined there and equals
        # pf_simple_load; the other points keep their own scatter
        zero = draw(st.lists(st.booleans(), min_size=n, max_size=n))
        if all(zero):
            zero[draw(st.integers(0, n - 1))] = False
        for q, z0 in zip(pts, zero):
            if z0:
                q[2] = 0.0
    return {"points": pts, "form": form}


@subcheck(PROP, "vector_call", strategy=_vector, quick=800, thorough=25000,
          doc="array-valued medians/scatters (docstring: array_like, shape (N,)): every element of the vectorised pf_norm_load / pf_simple_load "
              "equals Phi(z_i) within TOL(z_i) and the scalar call for that point; scalars broadcast")
def vector_call(case, ctx):
    pts = [list(q) for q in case["points"]]
    form = case["form"]
    # broadcast forms: the scalar argument takes the value of point 0 for every point
    for q in pts:
        if form == "scalar_load_std":
            q[2] = pts[0][2]
        elif form == "scalar_strength":
            q[0], q[1] = pts[0][0], pts[0][1]
    lms = [_load_median(sm, sS, sL, z) for sm, sS, sL, z in pts]
    if form == "scalar_load":
        lms = [lms[0]] * len(pts)
        for q in pts:
            q[2] = pts[0][2]
    n = len(pts)
    ctx.label(form, "n=%d" % n)
    nzero = sum(1 for q in pts if q[2] == 0.0)
    if nzero:
        ctx.label("load_std_all_zero" if nzero == n else "load_std_mixes_zero_and_positive")
    arr = lambda i: np.array([q[i] for q in pts], dtype=float)
    FP = _fp()
    if form == "scalar_strength":
        fp = FP(pts[0][0], pts[0][1])
    else:
        fp = FP(arr(0), arr(1))
    if form == "scalar_load":
        got = fp.pf_norm_load(lms[0], pts[0][2])
        simple = fp.pf_simple_load(lms[0])
    elif form == "scalar_load_std":
        got = fp.pf_norm_load(np.array(lms), pts[0][2])
        simple = fp.pf_simple_load(np.array(lms))
    else:
        got = fp.pf_norm_load(np.array(lms), arr(2))
        simple = fp.pf_simple_load(np.array(lms))
    got, simple = np.asarray(got, dtype=float), np.asarray(simple, dtype=float)
    if got.shape != (n,) or simple.shape != (n,):
        raise Violation("vectorised call (%s) for %d points returns shapes %r / %r" % (form, n, got.shape, simple.shape), bucket="vector:shape")
    if len(set((q[1], q[2]) for q in pts)) >= 2:
        ctx.nontrivial()
    for i, ((sm, sS, sL, _), lm) in enumerate(zip(pts, lms)):
        z, p, q, t = _exact(sm, sS, lm, sL)
        one = float(FP(sm, sS).pf_norm_load(lm, sL))
        if abs(z) > ZMAX:       # broadcast forms can leave the quantifier's range of probabilities: only the bounds and the scalar call
            ctx.label("element_outside_1e-12_range")
            # one ulp in z changes Phi(z) by about z^2 ulps in the far tail: vector and scalar evaluation may differ by that
            if not (0.0 <= got[i] <= 1.0) or abs(got[i] - one) > (16 + 8 * z * z) * EPS * one:
                raise Violation("vectorised pf_norm_load (%s), element %d of %d: %r, scalar call %r (z = %.4g)" % (form, i, n, float(got[i]), one, z),
                                bucket="vector:norm_far:" + form)
            continue
        if not (0.0 <= got[i] <= 1.0) or abs(got[i] - p) > t or abs(got[i] - one) > t:
            raise Violation("vectorised pf_norm_load (%s), element %d of %d: %r, scalar call %r, Phi(z) = %r (strength %r/%r, load %r/%r; allowed %.3g)"
                            % (form, i, n, float(got[i]), one, p, sm, sS, lm, sL, t), bucket="vector:norm:" + form)
        zs, ps, qs, ts = _exact(sm, sS, lm, 0.0)
        if abs(zs) <= ZMAX and abs(simple[i] - ps) > ts:
            raise Violation("vectorised pf_simple_load (%s), element %d of %d: %r, Phi(z) = %r (strength %r/%r, load %r)"
                            % (form, i, n, float(simple[i]), ps, sm, sS, lm), bucket="vector:simple:" + form)


# ------------------------------------------------------------------ clause 4: arbitrary density converges
@st.composite
def _arbitrary(draw, tier):
    sm = draw(_lg(1.0, 1e4))
    sS = draw(_lg(1e-3, 1.0))
    lr = draw(st.floats(-1.5, 1.5))
    sL = sS * 10 ** lr
    z = draw(st.one_of(st.floats(-5.0, 5.0), st.floats(-1.0, 1.0)))
    n = draw(st.integers(60, 400 if tier == "quick" else 1500))
    pattern = draw(st.lists(st.integers(1, 4), min_size=1, max_size=6))
    grading = draw(st.sampled_from([0.0, 0.0, 1.0, 3.0, -0.7]))     # spacing grows (or shrinks) linearly across the interval
    half = draw(st.floats(8.0, 12.0))
    return {"strength_median": sm, "strength_std": sS, "load_std": sL, "z": z, "n": n, "spacing_pattern": pattern, "grading": grading,
            "half_width_sigmas": half}


def _grid(a, b, n, pattern, grading=0.0):
    w = np.array([pattern[i % len(pattern)] for i in range(n - 1)], dtype=float)
    w = w * (1.0 + grading * np.arange(n - 1) / max(n - 2, 1))
    x = a + (b - a) * np.concatenate([[0.0], np.cumsum(w) / w.sum()])
    x[-1] = b
    return x


def _pdf(x, mu, s):
    return np.exp(-0.5 * ((x - mu) / s) ** 2) / (s * math.sqrt(2 * math.pi))


def _cdf(x, mu, s):
    from scipy.special import erfc
    return 0.5 * erfc(-(x - mu) / (s * math.sqrt(2.0)))


def _second_derivative_max(a, b, muL, sL, muS, sS):
    """max |f''| on [a, b] for f = pdf_L * cdf_S (analytic f'', maximum over a grid that resolves min(s_L, s_S) with > 30 points)."""
    x = np.linspace(a, b, 40001)
    p, C, c = _pdf(x, muL, sL), _cdf(x, muS, sS), _pdf(x, muS, sS)
    u, v = (x - muL) / sL ** 2, (x - muS) / sS ** 2
    f2 = (u * u - 1 / sL ** 2) * p * C + 2 * (-u * p) * c + p * (-v * c)
    return float(np.max(np.abs(f2)))


@subcheck(PROP, "arbitrary_load_converges", strategy=_arbitrary, quick=320, thorough=10000,
          doc="pf_arbitrary_load on a sampled log-normal density (n, 4n, 16n points, non-uniform spacing): |error| <= rigorous "
              "trapezoid bound sum(h^3)/12 max|f''| + truncated mass, which falls like 1/n^2")
def arbitrary_load_converges(case, ctx):
    sm, sS, sL = case["strength_median"], case["strength_std"], case["load_std"]
    lm = _load_median(sm, sS, sL, case["z"])
    z, p, q, _ = _exact(sm, sS, lm, sL)
    muL, muS = math.log10(lm), math.log10(sm)
    hw = case["half_width_sigmas"]
    a, b = muL - hw * sL, muL + hw * sL
    M2 = 1.02 * _second_derivative_max(a, b, muL, sL, muS, sS)
    trunc = 2 * Phi(-hw)
    fp = _fp()(sm, sS)
    errs, bounds = [], []
    for mult in (1, 4, 16):
        x = _grid(a, b, case["n"] * mult, case["spacing_pattern"], case.get("grading", 0.0))
        pdf = _pdf(x, muL, sL)
        got = float(fp.pf_arbitrary_load(x, pdf))
        h = np.diff(x)
        bound = float(np.sum(h ** 3)) / 12.0 * M2 + trunc + 1e-13      # 1e-13: rounding of a sum of <= 25000 terms <= 1
        errs.append(abs(got - p))
        bounds.append(bound)
        if not errs[-1] <= bound:
            raise Violation("pf_arbitrary_load on %d points = %r, Phi(z) = %r: error %.3g exceeds the trapezoid bound %.3g (s_L/s_S = %.3g, z = %.4g)"
                            % (len(x), got, p, errs[-1], bound, sL / sS, z), bucket="arbitrary:bound")
    ctx.label("graded" if case.get("grading") else "uniform" if len(set(case["spacing_pattern"])) == 1 else "periodic_nonuniform")
    ctx.label("decisive" if bounds[-1] <= 1e-2 * min(p, q) else "indecisive")
    if bounds[-1] <= 1e-2 * min(p, q):
        ctx.nontrivial()
    # the sequence approaches the value: the finest error is below the coarsest bound / 100 (bounds fall by 256)
    if not errs[-1] <= bounds[0] / 100 + trunc + 1e-13:
        raise Violation("no convergence: errors %r for n, 4n, 16n" % (errs,), bucket="arbitrary:no_convergence")
