"""C16 - closed-form material laws are invertible and differentiate consistently.

Oracles are written here from the textbook relations (nothing of pyLife is used to compute an expected value):
  Ramberg-Osgood   eps(s) = s/E + sign(s) (|s|/K)^(1/n),  deps/ds = 1/E + (|s|/K)^(1/n-1) / (n K),
                   inverse by scipy brentq on the harness' own eps(s) (bracket [0, min(E e, K e^n)]),
                   derivative additionally by a central difference of pyLife's own strain();
  Hooke            Lame form  s_ii = 2 mu e_ii + lam tr(e), s_ij = mu g_ij,  e_ii = ((1+nu) s_ii - nu tr(s)) / E;
  true stress/strain  inverses exp(t) - 1 and sigma / (1 + e).

Tolerances (eps = 2**-52), each stated where it is used:
  * closed forms: 1e-13 relative (pow/log of numpy vs. libm differ by an ulp or two, sums of same-signed terms);
  * Newton inverse: the solver's own stop criterion (rtol, tol of RambergOsgood.stress, defaults 1e-5 / 1e-6):
    |stress - exact| <= 2 (tol + rtol |exact|); a strain obtained from such a stress is off by at most the
    compliance times that; the check also calls stress() with rtol=tol=1e-9 so that the bound is sharp;
  * central difference with relative step 1e-5: truncation <= (1e-5)^2 (1/n-1)(1/n-2)/6 < 4.1e-8 for n >= 0.02,
    cancellation ~ 1e-16/1e-5: asserted at 1e-6 relative;
  * Hooke round trips: 256 eps max|x| cond, cond = 1/((1+nu)(1-2nu)) (resp. 1/(1-nu^2)), the growth of the
    stiffness towards nu -> -1 and nu -> 1/2.
"""

import math

import numpy as np
from hypothesis import strategies as st
from scipy.optimize import brentq

from pylife.materiallaws import RambergOsgood
from pylife.materiallaws import hookeslaw as HL
from pylife.materiallaws import true_stress_strain as TSS

from ..core import Violation, subcheck, nontrivial_rule, assumptions

EPS = 2.0 ** -52
RT_CLOSED = 1e-13

nontrivial_rule("C16", "Non-trivial: Ramberg-Osgood clauses - at least one argument whose plastic strain is more than 0.1 % of its "
                       "total strain (the law is non-linear there); Hooke clauses - nu != 0 and a state with >= 2 non-zero "
                       "components; true stress/strain - an engineering strain with |e| > 1e-6.")
assumptions("C16", [
    "E in [1e3,1e6], K/E in [1e-3,5e-2], n in [0.02,0.95] (two thirds of the cases in [0.02,0.6]); stresses up to K*0.3^n (plastic strain 0.3), strains up to 0.3; "
    "nu in (-0.999, 0.4999); engineering strain in [-0.9, 3]",
    "inputs are Python floats and ints, numpy float64/int64 scalars, 1-D and 2-D float arrays and 1-D integer arrays "
    "('scalar or array' of the quantifier; whole-number stresses are natural inputs and must not change the result); "
    "Python lists (of floats / of ints) are used only where the implementation converts them itself (Hooke; RambergOsgood.strain, "
    "plastic_strain, stress, tangential_compliance/modulus, lower_hysteresis); "
    "true_strain/true_stress/delta_strain/delta_stress raise TypeError on a plain list - outside the quantifier, not asserted",
    "the inverse is asserted to the accuracy of the solver's own (rtol, tol) parameters, not to machine precision",
    "the library has no engineering-from-true functions; the inverse used is the textbook one (exp(t)-1, sigma/(1+e))",
])

TEXTBOOK = [(2.1e5, 1000.0, 0.15), (2.1e5, 1184.0, 0.187), (7.0e4, 600.0, 0.128), (2.0e5, 1500.0, 0.1), (1.0e5, 1000.0, 0.5),
            (2.1e5, 1000.0, 0.05)]


# ----------------------------------------------------------------------------- reference relations (harness)
def ref_strain(E, K, n, s):
    return s / E + math.copysign(math.pow(abs(s) / K, 1.0 / n), s)


def ref_plastic(K, n, s):
    return math.copysign(math.pow(abs(s) / K, 1.0 / n), s)


def ref_compliance(E, K, n, s):
    return 1.0 / E + math.pow(abs(s) / K, 1.0 / n - 1.0) / (n * K)


def ref_stress(E, K, n, e):
    a = abs(e)
    if a == 0.0:
        return 0.0
    hi = min(E * a, K * math.pow(a, n))        # both bound the root from above
    hi *= 1.0 + 1e-12
    r = brentq(lambda x: ref_strain(E, K, n, x) - a, 0.0, hi, xtol=1e-300, rtol=8 * EPS, maxiter=500)
    return math.copysign(r, e)


def newton_iterations(E, K, n, e, rtol, tol, array_mode, limit=400):
    """Iterations Newton needs from the elastic predictor E|e| with the stop rule of scipy.optimize.newton
    (scalar: isclose(p, p0, rtol, atol=tol); array: |dp| < tol).  Plain re-statement of the algorithm, used only to
    recognise the input class of finding F16_a (start value too far right of the root for maxiter = 50)."""
    a = abs(e)
    x = E * a
    for it in range(1, limit + 1):
        f = ref_strain(E, K, n, x) - a
        if f == 0.0:
            return it - 1
        dp = f / ref_compliance(E, K, n, x)
        x_new = x - dp
        if array_mode:
            done = abs(dp) < tol
        else:
            done = abs(x_new - x) <= tol + rtol * abs(x)
        x = x_new
        if done:
            return it
    return limit + 1


SLOW_MARGIN = 48     # scipy's maxiter is 50; this loop predicted scipy's count exactly in every probe; 2 iterations of margin


def slow_newton(E, K, n, strains, rtol, tol, array_mode):
    return any(newton_iterations(E, K, n, e, rtol, tol, array_mode) > SLOW_MARGIN for e in strains)


# ----------------------------------------------------------------------------- containers
# Integer typed containers hold integer *valued* arguments; where a value is not integral (a strain, a result fed
# back into the inverse) the float counterpart is used instead.  Lists only where the code converts them itself.
FLOAT_OF = {"int": "scalar", "npint": "np0", "intarr": "arr1", "intlist": "list"}
INT_KINDS = ["int", "npint", "intarr", "intlist"]
SCALAR_CONV = {"scalar": float, "np0": np.float64, "int": int, "npint": np.int64}


def _eff_kind(vals, kind, lists=True):
    if kind in FLOAT_OF and not all(float(v).is_integer() for v in vals):
        kind = FLOAT_OF[kind]
    if not lists:
        kind = {"list": "arr1", "intlist": "intarr"}.get(kind, kind)
    return kind


def _apply(f, vals, kind, lists=True, **kw):
    """Call f on the values in the requested container; returns a list of floats of the same length."""
    kind = _eff_kind(vals, kind, lists)
    name = getattr(f, "__name__", "f")
    if kind in SCALAR_CONV:
        out = []
        for v in vals:
            r = f(SCALAR_CONV[kind](v), **kw)
            if np.ndim(r) != 0:
                raise Violation("%s(%s scalar) returned shape %r" % (name, kind, np.shape(r)), bucket="shape:scalar")
            out.append(float(r))
        return out
    if kind in ("list", "intlist"):
        arg = [int(v) if kind == "intlist" else float(v) for v in vals]
        keep = list(arg)
        r = np.asarray(f(arg, **kw))
        if r.shape != (len(vals),):
            raise Violation("%s(list of %d) returned shape %r" % (name, len(vals), r.shape), bucket="shape:list")
        if arg != keep:
            raise Violation("%s modified its argument" % name, bucket="mutation")
        return [float(x) for x in r.ravel()]
    a = np.array([int(v) for v in vals], dtype=np.int64) if kind == "intarr" else np.array(vals, dtype=float)
    if kind == "arr2":
        a = a.reshape(-1, 2) if len(vals) % 2 == 0 else a.reshape(1, -1)
    keep = a.copy()
    r = np.asarray(f(a, **kw))
    if r.shape != a.shape:
        raise Violation("%s(array of shape %r) returned shape %r" % (getattr(f, "__name__", "f"), a.shape, r.shape), bucket="shape:array")
    if not np.array_equal(a, keep):
        raise Violation("%s modified its argument" % getattr(f, "__name__", "f"), bucket="mutation")
    return [float(x) for x in r.ravel()]


def _close(got, want, tol):
    return math.isfinite(got) and abs(got - want) <= tol


# ----------------------------------------------------------------------------- generators
@st.composite
def _params(draw):
    if draw(st.integers(0, 5)) == 0:
        E, K, n = draw(st.sampled_from(TEXTBOOK))
    else:
        E = 10.0 ** draw(st.floats(3.0, 6.0))
        K = E * 10.0 ** draw(st.floats(-3.0, -1.3))
        n = draw(st.one_of(st.floats(0.02, 0.6), st.floats(0.02, 0.95), st.sampled_from([0.1, 0.15, 0.187, 0.2, 0.25, 0.5])))
    return E, K, n


def _sign():
    return st.sampled_from([1.0, 1.0, -1.0])


@st.composite
def _stress_value(draw, K, n):
    k = draw(st.integers(0, 9))
    if k == 0:
        return 0.0
    if k == 1:                                    # far in the elastic regime
        return draw(_sign()) * K * 10.0 ** draw(st.floats(-12.0, -3.0))
    p = 10.0 ** draw(st.floats(-10.0, math.log10(0.3)))          # plastic strain of the point
    return draw(_sign()) * K * math.pow(p, n)


@st.composite
def _strain_value(draw):
    k = draw(st.integers(0, 9))
    if k == 0:
        return 0.0
    return draw(_sign()) * 10.0 ** draw(st.floats(-9.0, math.log10(0.3)))


KINDS = ["scalar", "np0", "arr1", "arr1", "arr2"]
RO_KINDS = KINDS + ["list"] + INT_KINDS


@st.composite
def _ro_cases(draw, tier, stress=True, strain=False, extra=None):
    E, K, n = draw(_params())
    m = 4 if tier == "quick" else 10
    kind = draw(st.sampled_from(RO_KINDS))
    if kind in INT_KINDS:
        # whole-number stresses (MPa) need a material whose stresses are not all below 1: E, K from the textbook sets
        E, K, _ = draw(st.sampled_from(TEXTBOOK))
    case = {"E": E, "K": K, "n": n, "kind": kind}
    if stress:
        case["stress"] = draw(st.lists(_stress_value(K, n), min_size=1, max_size=m))
        if kind in INT_KINDS:
            case["stress"] = [int(v) for v in case["stress"]]       # truncation keeps |s| inside the stated range
    if strain:
        case["strain"] = draw(st.lists(_strain_value(), min_size=1, max_size=m))
        case["tight"] = draw(st.booleans())
    if extra:
        extra(draw, case)
    return case


def _ro(case, ctx):
    E, K, n = case["E"], case["K"], case["n"]
    ctx.label("kind:" + case["kind"], "n<0.1" if n < 0.1 else ("n<0.3" if n < 0.3 else ("n<0.6" if n < 0.6 else "n>=0.6")))
    ro = RambergOsgood(E, K, n)
    if (ro.E, ro.K, ro.n) != (E, K, n):
        raise Violation("parameter getters return %r" % ((ro.E, ro.K, ro.n),), bucket="getters")
    return ro, E, K, n


def _plastic_share(E, K, n, s):
    t = ref_strain(E, K, n, s)
    return abs(ref_plastic(K, n, s) / t) if t != 0 else 0.0


def _mark_nontrivial_stress(ctx, E, K, n, stresses):
    sh = max([_plastic_share(E, K, n, s) for s in stresses] or [0.0])
    ctx.label("plastic>50%" if sh > 0.5 else ("plastic>0.1%" if sh > 1e-3 else "elastic"))
    if sh > 1e-3:
        ctx.nontrivial()


# ----------------------------------------------------------------------------- RO: the curve itself
@subcheck("C16", "ro_curve", strategy=lambda tier: _ro_cases(tier), quick=3000, thorough=100000,
          doc="strain(s) == s/E + sign(s)(|s|/K)^(1/n) == elastic + plastic part; odd; strictly increasing; scalar == array element")
def ro_curve(case, ctx):
    ro, E, K, n = _ro(case, ctx)
    s = case["stress"]
    _mark_nontrivial_stress(ctx, E, K, n, s)
    got = _apply(ro.strain, s, case["kind"])
    el = _apply(ro.elastic_strain, s, case["kind"], lists=False)     # plain division: no list input
    pl = _apply(ro.plastic_strain, s, case["kind"])
    neg = _apply(ro.strain, [-x for x in s], case["kind"])
    one = [float(ro.strain(float(x))) for x in s]
    for i, x in enumerate(s):
        want = ref_strain(E, K, n, x)
        if not _close(got[i], want, RT_CLOSED * abs(want)):
            raise Violation("strain(%r) = %r, Ramberg-Osgood relation gives %r (E=%r K=%r n=%r)" % (x, got[i], want, E, K, n), bucket="curve:strain")
        if not _close(el[i], x / E, RT_CLOSED * abs(x / E)) or not _close(pl[i], ref_plastic(K, n, x), RT_CLOSED * abs(ref_plastic(K, n, x))):
            raise Violation("elastic/plastic strain (%r, %r) at %r, expected (%r, %r)" % (el[i], pl[i], x, x / E, ref_plastic(K, n, x)), bucket="curve:parts")
        if not _close(el[i] + pl[i], got[i], 4 * EPS * abs(got[i])):
            raise Violation("elastic + plastic = %r != strain = %r at %r" % (el[i] + pl[i], got[i], x), bucket="curve:sum")
        if not _close(neg[i], -got[i], 4 * EPS * abs(got[i])):
            raise Violation("strain(-s) = %r, -strain(s) = %r at s = %r: not odd" % (neg[i], -got[i], x), bucket="curve:odd")
        if not _close(one[i], got[i], 8 * EPS * abs(got[i])):
            raise Violation("strain of element %d in a %s (%r) differs from the float scalar call (%r)" % (i, case["kind"], got[i], one[i]), bucket="curve:container")
        if x == 0 and got[i] != 0:
            raise Violation("strain(0) = %r" % got[i], bucket="curve:zero")
    order = sorted(range(len(s)), key=lambda i: s[i])
    for i, j in zip(order[:-1], order[1:]):
        gap = s[j] - s[i]
        if gap > 1e-9 * max(abs(s[i]), abs(s[j])):
            if not got[j] > got[i]:
                raise Violation("strain not strictly increasing: strain(%r) = %r, strain(%r) = %r" % (s[i], got[i], s[j], got[j]), bucket="curve:monotone")
        elif got[j] < got[i]:
            raise Violation("strain decreasing: strain(%r) = %r, strain(%r) = %r" % (s[i], got[i], s[j], got[j]), bucket="curve:monotone")


# ----------------------------------------------------------------------------- RO: inverse
def _solver_kw(case):
    if case.get("tight"):
        return {"rtol": 1e-9, "tol": 1e-9}, 1e-9, 1e-9
    return {}, 1e-5, 1e-6


def _stress_call(ro_f, strains, kind, kw, E, K, n, rtol, tol, ctx, scale=1.0, lists=True):
    """Call a Newton based inverse (stress / delta_stress). Returns None if the case belongs to the known class F16_a.
    ``scale``: delta_stress solves for strain/2."""
    arr = _eff_kind(strains, kind, lists) not in SCALAR_CONV and len(strains) > 1
    slow = slow_newton(E, K, n, [e * scale for e in strains], rtol, tol, arr)
    if slow:
        ctx.label("slow_newton")
    try:
        return _apply(ro_f, strains, kind, lists=lists, **kw), slow
    except RuntimeError as e:
        if "converge" not in str(e):
            raise
        if slow and ctx.known("F16_a"):
            return None, slow
        it = max(newton_iterations(E, K, n, x * scale, rtol, tol, arr) for x in strains)
        raise Violation("Newton inversion does not converge (%s) for strains %r, E=%r K=%r n=%r; the iteration from the elastic "
                        "predictor needs %d steps" % (str(e)[:80], strains, E, K, n, it), bucket="inverse:no_convergence")


@subcheck("C16", "ro_inverse", strategy=lambda tier: _ro_cases(tier, stress=True, strain=True), quick=3000, thorough=100000,
          doc="stress(strain(s)) == s, strain(stress(e)) == e, stress(e) == brentq root of the harness' relation; odd; "
              "tolerance from the solver's (rtol, tol), default and 1e-9")
def ro_inverse(case, ctx):
    ro, E, K, n = _ro(case, ctx)
    kw, rtol, tol = _solver_kw(case)
    kind = case["kind"]
    ctx.label("tight" if case.get("tight") else "default_tol")
    _mark_nontrivial_stress(ctx, E, K, n, case["stress"] + [ref_stress(E, K, n, e) for e in case["strain"]])
    # ---- stress(strain(s)) == s
    s = case["stress"]
    eps_s = _apply(ro.strain, s, kind)
    back, slow = _stress_call(ro.stress, eps_s, kind, kw, E, K, n, rtol, tol, ctx)
    if back is not None:
        for i, x in enumerate(s):
            if not _close(back[i], x, 2 * (tol + rtol * abs(x))):
                if slow and ctx.known("F16_a"):
                    break
                raise Violation("stress(strain(%r)) = %r (E=%r K=%r n=%r, %s, solver rtol=%g tol=%g; Newton needs %d iterations)" % (
                    x, back[i], E, K, n, kind, rtol, tol, newton_iterations(E, K, n, eps_s[i], rtol, tol, kind.startswith("arr"))),
                    bucket="inverse:stress_of_strain")
    # ---- stress(e) == root, strain(stress(e)) == e, odd
    e = case["strain"]
    sig, slow = _stress_call(ro.stress, e, kind, kw, E, K, n, rtol, tol, ctx)
    if sig is None:
        return
    nsig, _ = _stress_call(ro.stress, [-x for x in e], kind, kw, E, K, n, rtol, tol, ctx)
    rt = _apply(ro.strain, sig, kind) if all(math.isfinite(x) for x in sig) else [float("nan")] * len(sig)
    for i, x in enumerate(e):
        want = ref_stress(E, K, n, x)
        dsig = 2 * (tol + rtol * abs(want))
        ok = _close(sig[i], want, dsig) and _close(rt[i], x, ref_compliance(E, K, n, want) * dsig + 8 * EPS * abs(x)) \
            and (nsig is None or _close(nsig[i], -sig[i], dsig)) and (x != 0 or sig[i] == 0)
        if not ok:
            if slow and ctx.known("F16_a"):
                return
            raise Violation("stress(%r) = %r, root of the relation is %r (tol %.3g); strain(stress(e)) = %r; stress(-e) = %r "
                            "(E=%r K=%r n=%r, %s, rtol=%g tol=%g)" % (x, sig[i], want, dsig, rt[i], None if nsig is None else nsig[i], E, K, n, kind, rtol, tol),
                            bucket="inverse:strain_of_stress")


# ----------------------------------------------------------------------------- RO: derivatives
@subcheck("C16", "ro_tangent", strategy=lambda tier: _ro_cases(tier), quick=3000, thorough=100000,
          doc="tangential_compliance == closed form == central difference of strain(); even in s; tangential_modulus == 1/compliance")
def ro_tangent(case, ctx):
    ro, E, K, n = _ro(case, ctx)
    s = case["stress"]
    kind = case["kind"]
    _mark_nontrivial_stress(ctx, E, K, n, s)
    comp = _apply(ro.tangential_compliance, s, kind)
    mod = _apply(ro.tangential_modulus, s, kind)
    compneg = _apply(ro.tangential_compliance, [-x for x in s], kind)
    for i, x in enumerate(s):
        want = ref_compliance(E, K, n, x)
        if not _close(comp[i], want, RT_CLOSED * want):
            raise Violation("tangential_compliance(%r) = %r, d eps/d sigma = %r (E=%r K=%r n=%r)" % (x, comp[i], want, E, K, n), bucket="tangent:closed_form")
        if not comp[i] > 0:
            raise Violation("tangential_compliance(%r) = %r is not positive" % (x, comp[i]), bucket="tangent:positive")
        if not _close(compneg[i], comp[i], 4 * EPS * comp[i]):
            raise Violation("compliance(-s) = %r != compliance(s) = %r at %r" % (compneg[i], comp[i], x), bucket="tangent:even")
        if not _close(mod[i] * comp[i], 1.0, 8 * EPS):
            raise Violation("tangential_modulus(%r) = %r is not the reciprocal of the compliance %r" % (x, mod[i], comp[i]), bucket="tangent:reciprocal")
        if x != 0.0:
            lo, hi = x * (1 - 1e-5), x * (1 + 1e-5)
            fd = (float(ro.strain(hi)) - float(ro.strain(lo))) / (hi - lo)
            if not _close(comp[i], fd, 1e-6 * abs(fd)):
                raise Violation("tangential_compliance(%r) = %r, central difference of strain() = %r (E=%r K=%r n=%r)" % (x, comp[i], fd, E, K, n),
                                bucket="tangent:finite_difference")
        else:
            h = 1e-9 * K
            fd = (float(ro.strain(h)) - float(ro.strain(-h))) / (2 * h)
            # at 0 the plastic part contributes (h/K)^(1/n-1)/K to the difference quotient
            if not _close(comp[i], fd, 1e-6 * fd + math.pow(1e-9, 1.0 / n - 1.0) / K):
                raise Violation("tangential_compliance(0) = %r, difference quotient %r" % (comp[i], fd), bucket="tangent:finite_difference_0")


# ----------------------------------------------------------------------------- RO: Masing, hysteresis branch
def _masing_extra(draw, case):
    K, n = case["K"], case["n"]
    case["max_stress"] = draw(_stress_value(K, n)) * draw(st.sampled_from([1.0, -1.0]))      # reversal in tension or in compression
    if case["kind"] in INT_KINDS:
        case["max_stress"] = int(case["max_stress"])
    case["frac"] = draw(st.lists(st.one_of(st.floats(-1.0, 1.0), st.sampled_from([1.0, -1.0, 0.0])), min_size=1, max_size=4))
    case["above"] = draw(st.one_of(st.none(), st.floats(1e-6, 1.0)))


@subcheck("C16", "ro_masing", strategy=lambda tier: _ro_cases(tier, stress=True, strain=True, extra=_masing_extra), quick=3000, thorough=100000,
          doc="delta_strain(d) == 2 strain(d/2), delta_stress(d) == 2 stress(d/2), mutual inverses; lower_hysteresis(max,max) == strain(max), "
              "== strain(max) - delta_strain(max - s) for reversal points of either sign, increasing in s, closes at -max; ValueError above max")
def ro_masing(case, ctx):
    ro, E, K, n = _ro(case, ctx)
    kw, rtol, tol = {}, 1e-5, 1e-6
    kind = case["kind"]
    ds = [2 * x for x in case["stress"]]          # whole-number spans stay whole numbers
    de = [2.0 * x for x in case["strain"]]
    _mark_nontrivial_stress(ctx, E, K, n, case["stress"] + [case["max_stress"]])
    dstrain = _apply(ro.delta_strain, ds, kind, lists=False)       # delta_* divide their argument: no list input
    for i, d in enumerate(ds):
        want = 2.0 * ref_strain(E, K, n, d / 2.0)
        if not _close(dstrain[i], want, RT_CLOSED * abs(want)):
            raise Violation("delta_strain(%r) = %r, doubled curve gives %r (E=%r K=%r n=%r)" % (d, dstrain[i], want, E, K, n), bucket="masing:delta_strain")
    back, slow = _stress_call(ro.delta_stress, dstrain, kind, kw, E, K, n, rtol, tol, ctx, scale=0.5, lists=False)
    if back is not None:
        for i, d in enumerate(ds):
            if not _close(back[i], d, 4 * (tol + rtol * abs(d) / 2)):
                if slow and ctx.known("F16_a"):
                    break
                raise Violation("delta_stress(delta_strain(%r)) = %r (E=%r K=%r n=%r, %s)" % (d, back[i], E, K, n, kind), bucket="masing:stress_of_strain")
    dsig, slow = _stress_call(ro.delta_stress, de, kind, kw, E, K, n, rtol, tol, ctx, scale=0.5, lists=False)
    if dsig is not None:
        rt = _apply(ro.delta_strain, dsig, kind, lists=False) if all(math.isfinite(x) for x in dsig) else [float("nan")] * len(dsig)
        for i, d in enumerate(de):
            half = ref_stress(E, K, n, d / 2.0)
            t = 2 * (tol + rtol * abs(half))
            if not (_close(dsig[i], 2 * half, 2 * t) and _close(rt[i], d, 2 * ref_compliance(E, K, n, half) * t + 8 * EPS * abs(d))):
                if slow and ctx.known("F16_a"):
                    break
                raise Violation("delta_stress(%r) = %r, doubled curve gives %r; delta_strain(delta_stress) = %r (E=%r K=%r n=%r, %s)" % (
                    d, dsig[i], 2 * half, rt[i], E, K, n, kind), bucket="masing:strain_of_stress")
    # ---- lower hysteresis branch, hung below a reversal point of either sign (tension or compression)
    smax = case["max_stress"]
    amp = abs(smax)
    top = float(ro.strain(smax))
    whole = kind in INT_KINDS
    ctx.label("reversal:" + ("tension" if smax > 0 else ("compression" if smax < 0 else "zero")))
    # points s = max - d with spans d in [0, 2 |max|]; the last two are the reversal point itself and the point 2 |max| below it
    pts = [smax - (int(amp * (1.0 - f)) if whole else amp * (1.0 - f)) for f in case["frac"]] + [smax, smax - 2 * amp]
    low = _apply(lambda x: ro.lower_hysteresis(x, smax), pts, kind)
    for i, x in enumerate(pts):
        half = (smax - x) / 2.0
        want = ref_strain(E, K, n, smax) - 2.0 * ref_strain(E, K, n, half)
        mag = abs(ref_strain(E, K, n, smax)) + 2.0 * abs(ref_strain(E, K, n, half))
        if not _close(low[i], want, RT_CLOSED * mag):
            raise Violation("lower_hysteresis(%r, %r) = %r, strain(max) - 2 strain((max - s)/2) = %r (E=%r K=%r n=%r)" % (x, smax, low[i], want, E, K, n),
                            bucket="masing:lower_branch")
        own = float(ro.strain(smax)) - float(ro.delta_strain(float(smax - x)))
        if not _close(low[i], own, 8 * EPS * mag):
            raise Violation("lower_hysteresis(%r, %r) = %r != strain(max) - delta_strain(max - s) = %r" % (x, smax, low[i], own), bucket="masing:lower_branch_own")
    if not _close(low[-2], top, 4 * EPS * abs(top)):
        raise Violation("lower_hysteresis(max, max) = %r does not meet the curve: strain(max) = %r (max = %r)" % (low[-2], top, smax), bucket="masing:reversal_point")
    if smax > 0 and not _close(low[-1], -top, RT_CLOSED * 3 * abs(top)):
        raise Violation("lower_hysteresis(-max, max) = %r, the loop should close at -strain(max) = %r" % (low[-1], -top), bucket="masing:closure")
    order = sorted(range(len(pts)), key=lambda i: pts[i])
    for i, k in zip(order[:-1], order[1:]):
        if pts[k] - pts[i] > 1e-9 * max(abs(pts[i]), abs(pts[k])) and not low[k] > low[i]:
            raise Violation("lower branch not increasing with the stress: (%r -> %r), (%r -> %r), max = %r" % (pts[i], low[i], pts[k], low[k], smax),
                            bucket="masing:branch_monotone")
    if case["above"] is not None and smax != 0:
        bad = smax + int(amp * case["above"]) + 1 if whole else smax + amp * case["above"]
        try:
            _apply(lambda x: ro.lower_hysteresis(x, smax), [smax - amp, bad], kind)
        except ValueError:
            ctx.tolerate("ValueError for stress > max_stress (documented)")
        else:
            raise Violation("lower_hysteresis(%r, %r) accepted a stress above max_stress" % (bad, smax), bucket="masing:no_valueerror")


# ============================================================================= Hooke
def lame_stress(E, nu, e):
    lam, mu = E * nu / ((1 + nu) * (1 - 2 * nu)), E / (2 * (1 + nu))
    tr = e[0] + e[1] + e[2]
    return [2 * mu * e[0] + lam * tr, 2 * mu * e[1] + lam * tr, 2 * mu * e[2] + lam * tr, mu * e[3], mu * e[4], mu * e[5]]


def lame_strain(E, nu, s):
    tr = s[0] + s[1] + s[2]
    sh = 2 * (1 + nu) / E
    return [((1 + nu) * s[0] - nu * tr) / E, ((1 + nu) * s[1] - nu * tr) / E, ((1 + nu) * s[2] - nu * tr) / E, sh * s[3], sh * s[4], sh * s[5]]


def _cond(nu):
    return max(1.0 / ((1 + nu) * (1 - 2 * nu)), 1.0 / (1 - nu * nu), 1.0)


def _hooke_call(f, states, kind):
    """states: list of N component tuples; returns list of N result tuples."""
    ncomp = len(states[0])
    if kind not in ("mixed", "mixedarr"):
        kind = _eff_kind([x for s in states for x in s], kind)
    if kind in SCALAR_CONV or kind == "mixed":
        # "mixed": whole numbers as int, the rest as float, e.g. stress(0, 0, 0.002)
        conv = SCALAR_CONV.get(kind, lambda x: int(x) if float(x).is_integer() else float(x))
        out = []
        for s in states:
            r = f(*[conv(x) for x in s])
            r = r if isinstance(r, tuple) else (r,)
            if any(np.ndim(x) != 0 for x in r):
                raise Violation("%s(scalars) returned non-scalar components" % f.__qualname__, bucket="hooke:shape")
            out.append([float(x) for x in r])
        return out
    cols = [[s[j] for s in states] for j in range(ncomp)]
    if kind in ("list", "intlist"):
        args = [[int(x) for x in c] for c in cols] if kind == "intlist" else cols
        shape = (len(states),)
    else:
        whole = [kind == "intarr" or (kind == "mixedarr" and all(float(x).is_integer() for x in c)) for c in cols]
        args = [np.array([int(x) for x in c], dtype=np.int64) if w else np.array(c, dtype=float) for c, w in zip(cols, whole)]
        if kind == "arr2":
            args = [a.reshape(-1, 2) if len(states) % 2 == 0 else a.reshape(1, -1) for a in args]
        shape = args[0].shape
    r = f(*args)
    r = r if isinstance(r, tuple) else (r,)
    for x in r:
        if np.shape(x) != shape:
            raise Violation("%s(%s of shape %r) returned a component of shape %r" % (f.__qualname__, kind, shape, np.shape(x)), bucket="hooke:shape")
    flat = [np.asarray(x, dtype=float).ravel() for x in r]
    return [[float(c[i]) for c in flat] for i in range(len(states))]


def _nu():
    return st.one_of(st.floats(-0.999, 0.4999), st.sampled_from([0.3, 0.0, 0.25, 0.2, 0.33, -0.5, 0.49, 0.45]))


def _comp():
    # magnitudes within six decades of the state's scale, or exactly zero (no subnormal dust: construct, do not filter)
    return st.one_of(st.floats(1e-6, 1.0), st.floats(-1.0, -1e-6), st.sampled_from([0.0, 0.0, 1.0, -1.0, 0.5]))


@st.composite
def _hooke_cases(draw, tier):
    E = draw(st.one_of(st.sampled_from([2.1e5, 7.0e4, 1.0, 2.0e5]), st.floats(3.0, 6.0).map(lambda x: 10.0 ** x)))
    nstates = draw(st.integers(1, 3 if tier == "quick" else 8))
    kind = draw(st.sampled_from(["scalar", "arr1", "arr1", "arr2", "list", "mixed", "mixedarr"] + INT_KINDS))
    if kind in ("mixed", "mixedarr"):
        whole = st.sampled_from([0, 0, 0, 1, -1, 100, 250])
        part = st.one_of(whole, whole, st.floats(1e-4, 1.0), st.floats(-1.0, -1e-4))
        states = [[draw(part) for _ in range(6)] for _ in range(nstates)]
        if kind == "mixedarr":       # a column is integer typed only if all of its entries are whole numbers
            for j in range(6):
                if draw(st.booleans()):
                    for srow in states:
                        srow[j] = draw(whole)
    elif kind in INT_KINDS:
        whole = st.one_of(st.integers(-1000, 1000), st.sampled_from([0, 0, 1, -1, 100]))
        states = [[draw(whole) for _ in range(6)] for _ in range(nstates)]
    else:
        mag = 10.0 ** draw(st.integers(-6, 3))
        states = [[mag * draw(_comp()) for _ in range(6)] for _ in range(nstates)]
    return {"E": E, "nu": draw(_nu()), "states": states, "kind": kind}


def _hooke_nontrivial(ctx, nu, states, idx):
    if nu != 0 and any(sum(1 for j in idx if s[j] != 0) >= 2 for s in states):
        ctx.nontrivial()
    ctx.label("nu<0" if nu < 0 else ("nu>0.45" if nu > 0.45 else "nu:0..0.45"))


def _cmp_states(got, want, tol_rel, what, bucket, cond, inputs=None, per_unit=0.0):
    """Component-wise comparison. Tolerance: tol_rel * cond * (largest component of the result); for a compliance (strain from
    stress) additionally tol_rel * per_unit * (largest component of the *input* state): e = (s_ii - nu (s_jj + s_kk)) / E
    cancels for nearly hydrostatic states with nu -> 1/2, the rounding error stays eps |s| / E while the result shrinks."""
    for k, (g, w) in enumerate(zip(got, want)):
        m = max([abs(x) for x in w] + [abs(x) for x in g if math.isfinite(x)] + [0.0])
        tol = tol_rel * cond * m
        if inputs is not None:
            tol = max(tol, tol_rel * per_unit * max(abs(x) for x in inputs[k]))
        for j, (a, b) in enumerate(zip(g, w)):
            if not _close(a, b, tol):
                raise Violation("%s: component %d = %r, expected %r (state %r, tol %.3g)" % (what, j, a, b, w, tol), bucket=bucket)


TOL_H = 256 * EPS


@subcheck("C16", "hooke_identity", strategy=_hooke_cases, quick=3000, thorough=100000,
          doc="1D / plane stress / plane strain / 3D: stress(strain(x)) == x and strain(stress(y)) == y; 3D and 1D equal the Lame form")
def hooke_identity(case, ctx):
    E, nu, states, kind = case["E"], case["nu"], case["states"], case["kind"]
    cond = _cond(nu)
    ctx.label("kind:" + kind)
    _hooke_nontrivial(ctx, nu, states, range(6))
    # 1D
    h1 = HL.HookesLaw1d(E)
    one = [[s[0]] for s in states]
    e1 = _hooke_call(h1.strain, one, kind)
    _cmp_states(e1, [[s[0] / E] for s in states], TOL_H, "HookesLaw1d.strain", "hooke1d:strain", 1.0)
    _cmp_states(_hooke_call(h1.stress, e1, kind), one, TOL_H, "HookesLaw1d.stress(strain(s))", "hooke1d:roundtrip", 1.0)
    _cmp_states(_hooke_call(h1.strain, _hooke_call(h1.stress, one, kind), kind), one, TOL_H, "HookesLaw1d.strain(stress(e))", "hooke1d:roundtrip", 1.0)
    # 3D
    h3 = HL.HookesLaw3d(E, nu)
    e3 = _hooke_call(h3.strain, states, kind)
    _cmp_states(e3, [lame_strain(E, nu, s) for s in states], TOL_H, "HookesLaw3d.strain vs Lame form", "hooke3d:strain_ref", 1.0,
                inputs=states, per_unit=2.0 / E)
    s3 = _hooke_call(h3.stress, states, kind)
    # stiffness: factor1 * ((1-nu) e11 + nu (e22 + e33)) with factor1 ~ E cond; the bracket cancels to O(1-2nu) of its terms,
    # so the rounding of the terms (and of the strains themselves) is amplified by cond whatever the formula: eps * lambda * |e|.
    # Seen in the thorough tier at nu = 0.4999, e = (0.5, 1e-6, -0.5): 2.5e-8 on 7.0e4 (3.6e-13 relative, cond = 3334).
    _cmp_states(s3, [lame_stress(E, nu, s) for s in states], TOL_H, "HookesLaw3d.stress vs Lame form", "hooke3d:stress_ref", cond)
    _cmp_states(_hooke_call(h3.stress, e3, kind), states, TOL_H, "HookesLaw3d.stress(strain(s))", "hooke3d:roundtrip", cond)
    _cmp_states(_hooke_call(h3.strain, s3, kind), states, TOL_H, "HookesLaw3d.strain(stress(e))", "hooke3d:roundtrip_inv", cond)
    # plane stress: (s11, s22, s12) -> (e11, e22, e33, g12) -> stress(e11, e22, g12)
    plane = [[s[0], s[1], s[3]] for s in states]
    hs = HL.HookesLaw2dPlaneStress(E, nu)
    es = _hooke_call(hs.strain, plane, kind)
    _cmp_states(_hooke_call(hs.stress, [[e[0], e[1], e[3]] for e in es], kind), plane, TOL_H, "PlaneStress.stress(strain(s))", "plane_stress:roundtrip", cond)
    ss = _hooke_call(hs.stress, plane, kind)
    back = _hooke_call(hs.strain, ss, kind)
    _cmp_states([[b[0], b[1], b[3]] for b in back], plane, TOL_H, "PlaneStress.strain(stress(e))", "plane_stress:roundtrip_inv", cond)
    # plane strain: (s11, s22, s12) -> (e11, e22, g12) -> stress -> (s11, s22, s33, s12)
    hp = HL.HookesLaw2dPlaneStrain(E, nu)
    ep = _hooke_call(hp.strain, plane, kind)
    sp = _hooke_call(hp.stress, ep, kind)
    _cmp_states([[x[0], x[1], x[3]] for x in sp], plane, TOL_H, "PlaneStrain.stress(strain(s))", "plane_strain:roundtrip", cond)
    sp2 = _hooke_call(hp.stress, plane, kind)
    _cmp_states(_hooke_call(hp.strain, [[x[0], x[1], x[3]] for x in sp2], kind), plane, TOL_H, "PlaneStrain.strain(stress(e))", "plane_strain:roundtrip_inv", cond)


@subcheck("C16", "hooke_reductions", strategy=_hooke_cases, quick=3000, thorough=100000,
          doc="plane strain == 3D law at e33 = g13 = g23 = 0, plane stress == 3D law at s33 = s13 = s23 = 0 (pyLife's 3D law and the Lame form); "
              "G == E/(2(1+nu)), K == E/(3(1-2nu)) and their meaning (pure shear, hydrostatic); nu outside [-1, 1/2] raises ValueError")
def hooke_reductions(case, ctx):
    E, nu, states, kind = case["E"], case["nu"], case["states"], case["kind"]
    cond = _cond(nu)
    ctx.label("kind:" + kind)
    _hooke_nontrivial(ctx, nu, states, (0, 1, 3))
    h3 = HL.HookesLaw3d(E, nu)
    hs = HL.HookesLaw2dPlaneStress(E, nu)
    hp = HL.HookesLaw2dPlaneStrain(E, nu)
    for h in (h3, hs, hp):
        if not (_close(h.G, E / (2 * (1 + nu)), 4 * EPS * h.G) and _close(h.K, E / (3 * (1 - 2 * nu)), 4 * EPS * h.K) and h.E == E and h.nu == nu):
            raise Violation("%s: E, nu, G, K = %r, %r, %r, %r for E=%r nu=%r" % (type(h).__name__, h.E, h.nu, h.G, h.K, E, nu), bucket="moduli")
    plane = [[s[0], s[1], s[3]] for s in states]
    zero = 0.0
    # ---- plane strain, strains given: stresses incl. s33 as the 3D law with e33 = 0
    # (tolerance carries cond: the plane-strain formulation forms 1 - nut^2 with nut = nu/(1-nu) -> 1 as nu -> 1/2, a
    #  cancellation that costs eps * cond relative; the 3D law forms 1 - 2 nu exactly.  Seen at nu = 0.4999: 2.9e-13.)
    sp = _hooke_call(hp.stress, plane, kind)                                        # s11 s22 s33 s12
    full_e = [[p[0], p[1], zero, p[2], zero, zero] for p in plane]
    s3 = _hooke_call(h3.stress, full_e, kind)
    _cmp_states(sp, [[x[0], x[1], x[2], x[3]] for x in s3], TOL_H, "PlaneStrain.stress vs HookesLaw3d.stress(e33=0)", "plane_strain:vs_3d", cond)
    _cmp_states(sp, [[x[0], x[1], x[2], x[3]] for x in (lame_stress(E, nu, e) for e in full_e)], TOL_H, "PlaneStrain.stress vs Lame form (e33=0)", "plane_strain:vs_ref", cond)
    for x in s3:
        if x[4] != 0 or x[5] != 0:
            raise Violation("3D law: out-of-plane shear stress %r from zero shear strain" % (x[4:],), bucket="hooke3d:shear")
    # ---- plane strain, stresses given: e33 of the 3D law vanishes with s33 = nu (s11 + s22)
    ep = _hooke_call(hp.strain, plane, kind)                                        # e11 e22 g12
    full_s = [[p[0], p[1], nu * (p[0] + p[1]), p[2], zero, zero] for p in plane]
    e3 = _hooke_call(h3.strain, full_s, kind)
    _cmp_states(ep, [[x[0], x[1], x[3]] for x in e3], TOL_H, "PlaneStrain.strain vs HookesLaw3d.strain(s33=nu(s11+s22))", "plane_strain:strain_vs_3d", cond)
    for p, x in zip(plane, e3):
        m = max(abs(v) for v in p)
        if abs(x[2]) > TOL_H * m / E:       # e33 = (s33 - nu (s11 + s22)) / E cancels to rounding of the stresses
            raise Violation("3D strain e33 = %r for s33 = nu(s11+s22): plane strain state expected (stress %r)" % (x[2], p), bucket="plane_strain:e33")
    # ---- plane stress, stresses given: strains incl. e33 as the 3D law with s33 = 0
    es = _hooke_call(hs.strain, plane, kind)                                        # e11 e22 e33 g12
    full_s0 = [[p[0], p[1], zero, p[2], zero, zero] for p in plane]
    e30 = _hooke_call(h3.strain, full_s0, kind)
    _cmp_states(es, [[x[0], x[1], x[2], x[3]] for x in e30], TOL_H, "PlaneStress.strain vs HookesLaw3d.strain(s33=0)", "plane_stress:vs_3d", 1.0,
                inputs=plane, per_unit=2.0 / E)
    _cmp_states(es, [[x[0], x[1], x[2], x[3]] for x in (lame_strain(E, nu, s) for s in full_s0)], TOL_H, "PlaneStress.strain vs Lame form (s33=0)", "plane_stress:vs_ref", 1.0,
                inputs=plane, per_unit=2.0 / E)
    # ---- plane stress, strains given: 3D law with the e33 that plane stress implies gives s33 = 0
    ss = _hooke_call(hs.stress, plane, kind)                                        # s11 s22 s12
    full_e2 = [[p[0], p[1], -nu / (1 - nu) * (p[0] + p[1]), p[2], zero, zero] for p in plane]
    s32 = [lame_stress(E, nu, e) for e in full_e2]
    _cmp_states(ss, [[x[0], x[1], x[3]] for x in s32], TOL_H, "PlaneStress.stress vs Lame form (e33 = -nu/(1-nu)(e11+e22))", "plane_stress:stress_vs_ref", cond)
    s32l = _hooke_call(h3.stress, full_e2, kind)
    _cmp_states(ss, [[x[0], x[1], x[3]] for x in s32l], TOL_H, "PlaneStress.stress vs HookesLaw3d.stress", "plane_stress:stress_vs_3d", cond)
    # ---- meaning of G and K
    p0 = states[0][0]
    hyd = _hooke_call(h3.strain, [[p0, p0, p0, 0.0, 0.0, 0.0]], kind)[0]
    vol = hyd[0] + hyd[1] + hyd[2]
    if not _close(vol, p0 / h3.K, TOL_H * cond * abs(p0) / E * 3):
        raise Violation("hydrostatic stress %r: volumetric strain %r, p/K = %r" % (p0, vol, p0 / h3.K), bucket="moduli:bulk")
    sh = _hooke_call(h3.stress, [[0.0, 0.0, 0.0, p0, 0.0, 0.0]], kind)[0]
    if not _close(sh[3], h3.G * p0, TOL_H * abs(h3.G * p0)) or any(v != 0 for j, v in enumerate(sh) if j != 3):
        raise Violation("pure shear strain g12 = %r: stress %r, G g12 = %r" % (p0, sh, h3.G * p0), bucket="moduli:shear")
    # ---- documented domain of nu
    for bad in (0.5 + abs(nu) + 1e-9, -1.0 - abs(nu) - 1e-9):
        for cls in (HL.HookesLaw3d, HL.HookesLaw2dPlaneStress, HL.HookesLaw2dPlaneStrain):
            try:
                cls(E, bad)
            except ValueError:
                ctx.tolerate("ValueError for nu outside [-1, 1/2] (documented)")
            else:
                raise Violation("%s accepted nu = %r" % (cls.__name__, bad), bucket="hooke:nu_domain")


# ============================================================================= true stress / strain
@st.composite
def _true_cases(draw, tier):
    m = 4 if tier == "quick" else 12
    e = st.one_of(st.floats(-0.9, 3.0), st.floats(-0.2, 0.2), st.sampled_from([0.0, 0.002, 0.1, -0.5, 1.0]),
                  st.floats(-8.0, -1.0).map(lambda x: 10.0 ** x), st.floats(-8.0, -1.0).map(lambda x: -10.0 ** x))
    nvals = draw(st.integers(1, m))
    return {"e": draw(st.lists(e, min_size=nvals, max_size=nvals)),
            "s": draw(st.lists(st.one_of(st.floats(1e-3, 1e4), st.floats(-1e4, -1e-3), st.sampled_from([0.0, 100.0, 355.0])), min_size=nvals, max_size=nvals)),
            "Z": draw(st.lists(st.one_of(st.floats(0.0, 0.99), st.sampled_from([0.0, 0.5])), min_size=nvals, max_size=nvals)),
            "F": draw(st.floats(1e-3, 1e6)), "A": draw(st.floats(1e-3, 1e4)),
            "kind": draw(st.sampled_from(KINDS))}


@st.composite
def _true_cases_any(draw, tier):
    case = draw(_true_cases(tier))
    if draw(st.integers(0, 3)) == 0:       # whole-number engineering values in integer typed containers (no lists: never accepted)
        n = len(case["e"])
        case["kind"] = draw(st.sampled_from(["int", "npint", "intarr"]))
        case["e"] = draw(st.lists(st.integers(0, 3), min_size=n, max_size=n))
        case["s"] = draw(st.lists(st.integers(-10000, 10000), min_size=n, max_size=n))
    return case


def _apply2(f, a, b, kind):
    if kind == "mixed":        # whole numbers as int, the rest as float: true_stress(355, 0.002)
        conv = lambda x: int(x) if float(x).is_integer() else float(x)  # noqa: E731
        return [float(f(conv(x), conv(y))) for x, y in zip(a, b)]
    kind = _eff_kind(list(a) + list(b), kind, lists=False)
    if kind in SCALAR_CONV:
        conv = SCALAR_CONV[kind]
        return [float(f(conv(x), conv(y))) for x, y in zip(a, b)]
    if kind == "intarr":
        xa, xb = np.array([int(v) for v in a], dtype=np.int64), np.array([int(v) for v in b], dtype=np.int64)
    else:
        xa, xb = np.array(a, dtype=float), np.array(b, dtype=float)
    if kind == "arr2":
        sh = (-1, 2) if len(a) % 2 == 0 else (1, -1)
        xa, xb = xa.reshape(sh), xb.reshape(sh)
    r = np.asarray(f(xa, xb))
    if r.shape != xa.shape:
        raise Violation("%s(arrays of shape %r) returned shape %r" % (f.__name__, xa.shape, r.shape), bucket="true:shape")
    return [float(x) for x in r.ravel()]


@subcheck("C16", "true_conversions", strategy=_true_cases_any, quick=3000, thorough=100000,
          doc="exp(true_strain(e)) - 1 == e, true_stress(s, e) / (1 + e) == s, true_stress == s exp(true_strain); "
              "fracture values: 1 - exp(-true_fracture_strain(Z)) == Z, true_fracture_stress A (1 - Z) == F")
def true_conversions(case, ctx):
    e, s, kind = case["e"], case["s"], case["kind"]
    ctx.label("kind:" + kind)
    if any(abs(x) > 1e-6 for x in e):
        ctx.nontrivial()
    if any(0 < abs(x) < 1e-6 for x in e):
        ctx.label("tiny_strain")
    t = _apply(TSS.true_strain, e, kind)
    sig = _apply2(TSS.true_stress, s, e, "mixed" if kind == "scalar" else kind)
    for i, x in enumerate(e):
        want = math.log1p(x)
        # log(1 + e): forming 1 + e costs eps/2 (1 + e) absolutely, i.e. eps/2 in the logarithm
        if not _close(t[i], want, 2 * EPS * (1 + abs(want))):
            raise Violation("true_strain(%r) = %r, ln(1 + e) = %r" % (x, t[i], want), bucket="true:strain_value")
        back = math.expm1(t[i])
        if not _close(back, x, 4 * EPS * (1 + x) * (1 + abs(want)) + 4 * EPS * abs(x)):
            raise Violation("exp(true_strain(%r)) - 1 = %r: not the inverse" % (x, back), bucket="true:strain_inverse")
        if not _close(sig[i] / (1.0 + x), s[i], 4 * EPS * abs(s[i])):
            raise Violation("true_stress(%r, %r) / (1 + e) = %r: not the inverse" % (s[i], x, sig[i] / (1.0 + x)), bucket="true:stress_inverse")
        if not _close(sig[i], s[i] * math.exp(t[i]), 8 * EPS * (1 + abs(want)) * abs(sig[i])):
            raise Violation("true_stress(%r, %r) = %r != s exp(true_strain) = %r" % (s[i], x, sig[i], s[i] * math.exp(t[i])), bucket="true:consistency")
    Z = case["Z"]
    tf = _apply(TSS.true_fracture_strain, Z, kind)
    F, A = case["F"], case["A"]
    sf = _apply(lambda z: TSS.true_fracture_stress(F, A, z), Z, kind)
    for i, z in enumerate(Z):
        want = -math.log1p(-z)
        if not _close(tf[i], want, 4 * EPS * (1 + abs(want))):
            raise Violation("true_fracture_strain(%r) = %r, ln(1/(1-Z)) = %r" % (z, tf[i], want), bucket="true:fracture_strain")
        if not _close(-math.expm1(-tf[i]), z, 8 * EPS * (1 + abs(want))):
            raise Violation("1 - exp(-true_fracture_strain(%r)) = %r" % (z, -math.expm1(-tf[i])), bucket="true:fracture_strain_inverse")
        if not _close(sf[i] * A * (1.0 - z), F, 8 * EPS * F):
            raise Violation("true_fracture_stress(%r, %r, %r) * A * (1 - Z) = %r" % (F, A, z, sf[i] * A * (1.0 - z)), bucket="true:fracture_stress_inverse")
