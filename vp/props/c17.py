"""C17 - equivalent stresses are rotation invariant and match the principal stresses.

Truth is known by construction: a tensor is assembled in the harness as R diag(l1,l2,l3) R^T from chosen
principal stresses and a chosen rotation, or (small exhaustive tier) has a spectrum that follows from the
closed form of a 2x2 block.  Nothing of pyLife is used to compute an expected value, except where the property
itself relates two pyLife outputs (signed vs. unsigned, accessor vs. function, Mises vs. Tresca).

Floating point tolerances (eps = 2**-52, scale = largest |component| / |principal stress| of the tensor):
  * eigenvalue based measures: 64 eps scale.  LAPACK's symmetric eigen solver is backward stable (error a small
    multiple of eps ||S||), the harness' own R D R^T carries about 8 eps scale.
  * von Mises, two oracles:
    (i) against the EXACT value of the definition for the very components that are passed (rational arithmetic on the
        doubles / ints, fractions.Fraction): 16 eps relative.  A correct double evaluation of the definition
        sqrt(((s11-s22)^2 + (s22-s33)^2 + (s33-s11)^2)/2 + 3 (s12^2+s13^2+s23^2)) delivers that: a floating point
        subtraction has a RELATIVE error <= eps/2 however close the operands are, squares and sums of non-negative
        terms add ~1.5 eps, the root halves it (about 2.5 eps in all).  There is no cancellation in the definition;
        only a reformulation (expanded polynomial, invariants I1^2 - 3 I2) introduces one, losing eps (p/dev)^2.
    (ii) against the principal stresses the tensor was built from: the Mises stress is a norm of the deviator, hence
        1-Lipschitz in the components (|m(S) - m(S')| <= sqrt(3/2) |S - S'|); the harness' R D R^T is off by ~8 eps scale,
        so |mises - ref| <= 128 eps scale absolutely - also for (nearly) hydrostatic tensors.
    (Until the fix of F08 the expanded polynomial was admitted with sqrt(eps) scale near hydrostatic states.)
  * sign of a signed variant is asserted when its indicator (trace, l_max + l_min) is clear of zero by 1e-10 scale,
    or when it is *exactly* zero by construction (diagonal tensors whose entries sum to zero exactly): then +1.
"""

import itertools
import math
from fractions import Fraction

import numpy as np
import pandas as pd
from hypothesis import strategies as st

import pylife.stress.equistress as EQ

from ..core import Violation, subcheck, nontrivial_rule, assumptions

EPS = 2.0 ** -52
K_EIG = 64.0
K_MISES = 128.0
SIGN_MARGIN = 1e-10

nontrivial_rule("C17", "Non-trivial: the tensor has a degenerate spectrum (uniaxial, pure shear, hydrostatic, repeated "
                       "or zero principal stresses) or is expressed in a frame rotated by more than 0.1 rad from its "
                       "principal axes; for the accessor clause: >= 2 rows.")
assumptions("C17", [
    "finite components with 1e-15 <= max|component| <= 1e9 (or the zero tensor); squares neither overflow nor underflow; "
    "whole-number tensors up to 1000 also in integer typed containers (python int, numpy.int64, int64 columns / frame columns)",
    "every non-zero component is at least 1e-30 of the largest one (smaller ones are flushed to exactly zero by the harness). "
    "Reason: numpy.linalg.eigvalsh (LAPACK's root-free QL works on SQUARED off-diagonals) loses all accuracy when a component "
    "lies about 1e-162..1e-155 below the others, i.e. its square is subnormal: eigvalsh([[0,1,0],[1,-9.6e-158,1],[0,1,1]]) is off by "
    "3.6e-10, other values in that band by up to 0.35 absolute on O(1) eigenvalues, in 22 % of random draws (numpy.linalg.eigh is "
    "accurate there). pyLife inherits this from numpy; such components are not stresses (same stance as the 1e-154 product "
    "underflow corner excluded for C01/C03 in DESIGN 2.9)",
    "rotations are proper (det = +1), built in the harness from axis/angle or from the 24 cube rotations (exact)",
    "sign of a signed equivalent stress is asserted only where its indicator is not within rounding of zero, "
    "or is exactly zero by construction (then the documented +1)",
    "numpy.linalg.eigvalsh is not trusted as oracle: expected principal stresses are the ones the tensor was built from",
])

FUNCS = ["mises", "tresca", "max_principal", "min_principal", "abs_max_principal",
         "signed_mises_trace", "signed_mises_abs_max_principal",
         "signed_tresca_trace", "signed_tresca_abs_max_principal"]


# ----------------------------------------------------------------------------- harness side maths
def _cube_rotations():
    out = []
    for perm in itertools.permutations(range(3)):
        for signs in itertools.product((1.0, -1.0), repeat=3):
            m = np.zeros((3, 3))
            for r in range(3):
                m[r, perm[r]] = signs[r]
            if round(np.linalg.det(m)) == 1:
                out.append(m)
    return out


CUBE = _cube_rotations()
assert len(CUBE) == 24


def rotation(rot):
    """3x3 proper rotation from its JSON description; returns (R, angle)."""
    k = rot["k"]
    if k == "id":
        return np.eye(3), 0.0
    if k == "cube":
        m = CUBE[rot["i"]]
        return m, math.acos(max(-1.0, min(1.0, (np.trace(m) - 1.0) / 2.0)))
    # axis/angle: axis from (phi, z) on the unit sphere, Rodrigues' formula
    th, phi, z = rot["theta"], rot["phi"], rot["z"]
    r = math.sqrt(max(0.0, 1.0 - z * z))
    ax = np.array([r * math.cos(phi), r * math.sin(phi), z])
    kx = np.array([[0.0, -ax[2], ax[1]], [ax[2], 0.0, -ax[0]], [-ax[1], ax[0], 0.0]])
    return np.eye(3) + math.sin(th) * kx + (1.0 - math.cos(th)) * (kx @ kx), abs(th)


DUST = 1e-30


def flush(c):
    """Components below 1e-30 of the largest one are set to exactly zero (domain by construction, see assumptions):
    a rotation by 1e-160 rad or a float drawn next to zero would otherwise plant entries whose square is subnormal."""
    m = max(abs(x) for x in c)
    return [x if abs(x) >= DUST * m else 0.0 for x in c] if m > 0 else list(c)


def assemble(eig, rot):
    """Voigt components (s11,s22,s33,s12,s13,s23) of R diag(eig) R^T."""
    rm, ang = rotation(rot)
    s = rm @ np.diag(eig) @ rm.T
    return flush([float(s[0, 0]), float(s[1, 1]), float(s[2, 2]), float(s[0, 1]), float(s[0, 2]), float(s[1, 2])]), ang


def rotate_components(c, rot):
    rm, ang = rotation(rot)
    s = np.array([[c[0], c[3], c[4]], [c[3], c[1], c[5]], [c[4], c[5], c[2]]])
    t = rm @ s @ rm.T
    return flush([float(t[0, 0]), float(t[1, 1]), float(t[2, 2]), float(t[0, 1]), float(t[0, 2]), float(t[1, 2])]), ang


def ref_measures(eig):
    lo, mid, hi = sorted(eig)
    mises = math.sqrt(((lo - mid) ** 2 + (mid - hi) ** 2 + (hi - lo) ** 2) / 2.0)
    return {"principals": [lo, mid, hi], "mises": mises, "tresca": hi - lo, "max_principal": hi, "min_principal": lo,
            "trace": lo + mid + hi, "amp_ind": hi + lo}


def mises_tol(ref, scale):
    """Oracle (ii): Lipschitz bound for tensors whose components carry the harness' own ~8 eps scale."""
    return 2.0 * K_EIG * EPS * scale


def mises_exact(c):
    """Oracle (i): the definition evaluated exactly (rationals) for the given components, rounded once."""
    f = [Fraction(x) for x in c]
    rad = ((f[0] - f[1]) ** 2 + (f[1] - f[2]) ** 2 + (f[2] - f[0]) ** 2) / 2 + 3 * (f[3] ** 2 + f[4] ** 2 + f[5] ** 2)
    return math.sqrt(float(rad))


RT_MISES = 16 * EPS


def near_hydrostatic(eig, scale):
    """Class of finding F08: the deviatoric part is so small that the exact radicand of the expanded von Mises
    polynomial lies within the rounding noise of its evaluation (a few eps scale^2) and may come out negative."""
    return scale > 0 and ref_measures(eig)["mises"] <= 4.0 * math.sqrt(K_MISES * EPS) * scale


# ----------------------------------------------------------------------------- calling pyLife
FLOAT_CONTAINER = {"int_scalar": "scalar", "npint_scalar": "scalar", "mixed_scalar": "scalar", "int_column": "column", "int_list": "list"}


def _whole(x):
    return float(x).is_integer()


def call(name, comps, container):
    """comps: list of N six-tuples. Returns list of N floats (principals: N triples).
    Integer typed containers (python int, numpy.int64, int64 columns, lists of int) carry whole numbers only; if a
    component is not a whole number the float counterpart is used ("mixed_scalar": int where whole, float elsewhere)."""
    f = getattr(EQ, name)
    if container in ("int_scalar", "npint_scalar", "int_column", "int_list") and not all(_whole(x) for c in comps for x in c):
        container = FLOAT_CONTAINER[container]
    cols = [[c[j] for c in comps] for j in range(6)]
    if container in ("scalar", "int_scalar", "npint_scalar", "mixed_scalar"):
        conv = {"scalar": lambda x: x, "int_scalar": int, "npint_scalar": lambda x: np.int64(int(x)),
                "mixed_scalar": lambda x: int(x) if _whole(x) else float(x)}[container]
        res = [f(*[conv(x) for x in c]) for c in comps]
        for r in res:
            want = (3,) if name == "principals" else ()
            if np.shape(r) != want:
                raise Violation("%s(scalars) has shape %r, expected %r" % (name, np.shape(r), want), bucket="shape:%s" % name)
        return [np.asarray(r, dtype=float).tolist() for r in res]
    if container == "column":
        args = [np.array(col, dtype=float) for col in cols]
    elif container == "int_column":
        args = [np.array([int(x) for x in col], dtype=np.int64) for col in cols]
    elif container == "int_list":
        args = [[int(x) for x in col] for col in cols]
    elif container == "list":
        args = cols
    elif container == "series":
        args = [pd.Series(col, dtype=float) for col in cols]
    else:
        raise ValueError(container)
    r = np.asarray(f(*args), dtype=float)
    want = (len(comps), 3) if name == "principals" else (len(comps),)
    if r.shape != want:
        raise Violation("%s(%s of length %d) has shape %r, expected %r" % (name, container, len(comps), r.shape, want),
                        bucket="shape:%s" % name)
    return r.tolist()


def check_against_truth(comps, eigs, exact_zero, container, ctx, what, exact_trace=None):
    """All definitional clauses for N tensors with known principal stresses.
    exact_zero[i]: l_max + l_min == 0 of the given spectrum is exact for the tensor as passed (diagonal tensors);
    exact_trace[i]: the components' diagonal sums exactly (diagonal or whole-number tensors)."""
    exact_trace = exact_zero if exact_trace is None else exact_trace
    got = {name: call(name, comps, container) for name in FUNCS + ["principals"]}
    for i, (c, eig) in enumerate(zip(comps, eigs)):
        scale = max(abs(x) for x in eig)
        ref = ref_measures(eig)
        t_eig = K_EIG * EPS * scale
        t_m = mises_tol(ref["mises"], scale)
        g = {name: got[name][i] for name in got}
        f08 = near_hydrostatic(eig, scale)
        if f08:
            ctx.label("near_hydrostatic")
        skip_mises = False
        # ---- no NaN for finite input
        for name in FUNCS:
            if not math.isfinite(g[name]):
                if name in ("mises", "signed_mises_trace", "signed_mises_abs_max_principal") and f08 and ctx.known("F08"):
                    skip_mises = True
                    continue
                raise Violation("%s%r = %r for a finite tensor (principal stresses %r, %s)" % (name, tuple(c), g[name], sorted(eig), what),
                                bucket="nonfinite:%s" % name)
        if not all(math.isfinite(x) for x in g["principals"]):
            raise Violation("principals%r = %r" % (tuple(c), g["principals"]), bucket="nonfinite:principals")
        # ---- definitions in terms of the principal stresses
        if list(g["principals"]) != sorted(g["principals"]):
            raise Violation("principals%r = %r not in ascending order" % (tuple(c), g["principals"]), bucket="def:principals_order")
        for k in range(3):
            if abs(g["principals"][k] - ref["principals"][k]) > t_eig:
                raise Violation("principals%r = %r, tensor was built from %r (tol %.3g)" % (tuple(c), g["principals"], ref["principals"], t_eig),
                                bucket="def:principals")
        for name in ("tresca", "max_principal", "min_principal"):
            tol = 2 * t_eig if name == "tresca" else t_eig
            if abs(g[name] - ref[name]) > tol:
                raise Violation("%s%r = %r, definition gives %r (principal stresses %r, tol %.3g)" % (name, tuple(c), g[name], ref[name], sorted(eig), tol),
                                bucket="def:%s" % name)
        if not skip_mises:
            mx = mises_exact(c)
            if abs(g["mises"] - mx) > RT_MISES * mx:
                raise Violation("mises%r = %r, the definition evaluated exactly for these components gives %r (relative deviation %.3g, "
                                "hydrostatic/deviatoric ratio %.3g)" % (tuple(c), g["mises"], mx, abs(g["mises"] - mx) / mx if mx else float("inf"),
                                                                       abs(ref["trace"]) / 3 / mx if mx else float("inf")), bucket="def:mises_exact")
        if not skip_mises and abs(g["mises"] - ref["mises"]) > t_m:
            raise Violation("mises%r = %r, principal differences give %r (principal stresses %r, tol %.3g)" % (tuple(c), g["mises"], ref["mises"], sorted(eig), t_m),
                            bucket="def:mises")
        # absolute maximum principal: eigenvalue of largest magnitude with its sign (+ on a tie)
        lo, hi = ref["min_principal"], ref["max_principal"]
        ind = ref["amp_ind"]
        if exact_zero[i] and ind == 0.0:
            cand, amp_sign = [hi], 1.0
            ctx.label("abs_max_tie_exact")
        elif ind > SIGN_MARGIN * scale:
            cand, amp_sign = [hi], 1.0
        elif ind < -SIGN_MARGIN * scale:
            cand, amp_sign = [lo], -1.0
        else:
            cand, amp_sign = [hi, lo], None
            ctx.label("abs_max_tie_within_rounding")
        if not any(abs(g["abs_max_principal"] - x) <= t_eig for x in cand):
            raise Violation("abs_max_principal%r = %r, expected %r (principal stresses %r)" % (tuple(c), g["abs_max_principal"], cand, sorted(eig)),
                            bucket="def:abs_max_principal")
        # ---- Mises <= Tresca <= 2/sqrt(3) Mises
        if not skip_mises:
            slack = t_m + 2 * t_eig
            if g["mises"] > g["tresca"] + slack:
                raise Violation("mises %r > tresca %r for %r" % (g["mises"], g["tresca"], tuple(c)), bucket="ineq:mises_le_tresca")
            if g["tresca"] > 2.0 / math.sqrt(3.0) * g["mises"] + 2.0 / math.sqrt(3.0) * slack:
                raise Violation("tresca %r > 2/sqrt(3) mises %r for %r" % (g["tresca"], g["mises"], tuple(c)), bucket="ineq:tresca_le_mises")
        # ---- signed variants
        tr = ref["trace"]
        if exact_trace[i] and (c[0] + c[1]) + c[2] == 0.0 and abs(tr) <= SIGN_MARGIN * scale:
            tr_sign = 1.0
            ctx.label("trace_exactly_zero")
        elif abs(tr) > SIGN_MARGIN * scale:
            tr_sign = math.copysign(1.0, tr)
        else:
            tr_sign = None
            ctx.label("trace_within_rounding_of_zero")
        for name, base, sgn in (("signed_mises_trace", "mises", tr_sign), ("signed_mises_abs_max_principal", "mises", amp_sign),
                                ("signed_tresca_trace", "tresca", tr_sign), ("signed_tresca_abs_max_principal", "tresca", amp_sign)):
            if base == "mises" and skip_mises:
                continue
            if abs(abs(g[name]) - g[base]) > 4 * EPS * scale:
                raise Violation("|%s| = %r differs from %s = %r for %r" % (name, abs(g[name]), base, g[base], tuple(c)), bucket="signed:magnitude:%s" % name)
            if sgn is not None and g[base] > 0 and math.copysign(1.0, g[name]) != sgn:
                raise Violation("%s%r = %r has the wrong sign: indicator %s (trace %r, l_max+l_min %r)" % (
                    name, tuple(c), g[name], "+1" if sgn > 0 else "-1", tr, ind), bucket="signed:sign:%s" % name)
            if sgn is not None and g[base] > 0 and g[name] == 0:
                raise Violation("%s%r = 0 although %s = %r" % (name, tuple(c), base, g[base]), bucket="signed:zeroed:%s" % name)


# ----------------------------------------------------------------------------- generators
def _unit():
    return st.one_of(st.floats(-1.0, 1.0, allow_nan=False), st.sampled_from([1.0, -1.0, 0.5, -0.5, 0.25]))


@st.composite
def _eigs(draw):
    cls = draw(st.sampled_from(["general"] * 5 + ["uniaxial", "pure_shear", "repeated", "biaxial", "sym_tie", "near_sym_tie"] * 3 +
                               ["hydrostatic", "near_hydrostatic", "zero"] + ["pressure_plus_deviator"] * 3))
    k = draw(st.integers(0, 3))
    if k == 0:
        scale = 10.0 ** draw(st.integers(-12, 9))        # "every positive factor": Pa ... TPa, far from over/underflow of squares
    elif k == 1:
        scale = 10.0 ** draw(st.integers(-3, 6))
    else:
        scale = draw(st.floats(1e-3, 1e6, allow_nan=False))
    u = lambda: draw(_unit())  # noqa: E731
    nz = lambda: draw(st.one_of(st.floats(0.01, 1.0), st.floats(-1.0, -0.01), st.sampled_from([1.0, -1.0, 0.2133])))  # noqa: E731
    if cls == "general":
        e = [u(), u(), u()]
    elif cls == "uniaxial":
        e = [nz(), 0.0, 0.0]
    elif cls == "pure_shear":
        a = nz()
        e = [a, -a, 0.0]
    elif cls == "hydrostatic":
        p = nz()
        e = [p, p, p]
    elif cls == "near_hydrostatic":
        p = nz()
        d = 10.0 ** draw(st.integers(-14, -5))
        e = [p, p * (1 + d * u()), p * (1 + d * u())]
    elif cls == "pressure_plus_deviator":
        # a large hydrostatic part (superimposed pressure) with a deviator 1e3 .. 1e7 times smaller
        p = nz()
        d = abs(p) * 10.0 ** draw(st.floats(-7.0, -3.0))
        e = [p + d * u(), p + d * u(), p + d * u()]
    elif cls == "repeated":
        a, b = nz(), u()
        e = [a, a, b]
    elif cls == "biaxial":
        e = [u(), u(), 0.0]
    elif cls == "sym_tie":
        a = abs(nz())
        e = [a, -a, a * draw(st.floats(-1.0, 1.0))]
    elif cls == "near_sym_tie":
        # |l_min| and l_max differ by a few ppm..ppb: the sign is decided, but only just
        a = draw(st.floats(0.1, 1.0))
        d = 1.0 + 10.0 ** draw(st.floats(-8.0, -3.0))
        e = [a * d, -a, a * draw(st.floats(-0.9, 0.9))] if draw(st.booleans()) else [a, -a * d, a * draw(st.floats(-0.9, 0.9))]
    else:
        e = [0.0, 0.0, 0.0]
    e = [x * scale for x in e]
    if cls != "zero" and max(abs(x) for x in e) < 1e-3 * scale:
        e[0] = scale          # keep the documented magnitude range (construct, do not filter)
    e = list(draw(st.permutations(e)))
    return {"eig": e, "cls": cls}


def _rots():
    axis = st.fixed_dictionaries({"k": st.just("axis"),
                                  "theta": st.one_of(st.floats(-math.pi, math.pi), st.sampled_from([math.pi / 2, math.pi / 4, math.pi, 1e-8, 0.05])),
                                  "phi": st.floats(0.0, 2 * math.pi), "z": st.floats(-1.0, 1.0)})
    cube = st.fixed_dictionaries({"k": st.just("cube"), "i": st.integers(0, 23)})
    return st.one_of(axis, axis, cube, st.just({"k": "id"}))


@st.composite
def _spectral_cases(draw, tier):
    n = draw(st.integers(1, 4 if tier == "quick" else 12))
    tensors = [dict(draw(_eigs()), rot=draw(_rots())) for _ in range(n)]
    container = draw(st.sampled_from(["scalar", "column", "column", "list", "series"]))
    return {"tensors": tensors, "container": container}


def _degenerate(eig):
    s = sorted(eig)
    sc = max(abs(x) for x in eig)
    return sc == 0 or s[0] == s[1] or s[1] == s[2] or 0.0 in eig or s[0] == -s[2]


# ----------------------------------------------------------------------------- sub-checks
@subcheck("C17", "definitions", strategy=_spectral_cases, quick=5000, thorough=200000,
          doc="tensor = R diag(l) R^T built in the harness: principals, max/min/abs-max, Tresca, Mises equal their definitions in l; "
              "no NaN; Mises <= Tresca <= 2/sqrt(3) Mises; signed variants: magnitude and documented sign")
def definitions(case, ctx):
    comps, eigs, exact = [], [], []
    for t in case["tensors"]:
        c, ang = assemble(t["eig"], t["rot"])
        comps.append(c)
        eigs.append(t["eig"])
        exact.append(t["rot"]["k"] in ("id", "cube"))
        ctx.label("cls:" + t["cls"], "rot:" + t["rot"]["k"])
        if _degenerate(t["eig"]) or ang > 0.1:
            ctx.nontrivial()
    ctx.label("container:" + case["container"])
    check_against_truth(comps, eigs, exact, case["container"], ctx, "container=%s" % case["container"])


@st.composite
def _invariance_cases(draw, tier):
    mode = draw(st.sampled_from(["components", "components", "spectral"]))
    if mode == "components":
        scale = 10.0 ** draw(st.integers(-3, 6)) if draw(st.booleans()) else 10.0 ** draw(st.integers(-12, 9))
        c = [scale * draw(_unit()) for _ in range(6)]
        pattern = draw(st.sampled_from(["full", "full", "plane", "shear_only", "diag_only", "shear_cancel"]))
        keep = {"full": range(6), "plane": (0, 1, 3), "shear_only": (3, 4, 5), "diag_only": (0, 1, 2), "shear_cancel": range(6)}[pattern]
        c = [x if j in keep else 0.0 for j, x in enumerate(c)]
        if pattern == "shear_cancel":                 # shear components that add up to zero exactly
            c[3:] = draw(st.permutations([c[3], -c[3], 0.0]))
        if max(abs(x) for x in c) < 1e-3 * scale:
            c[keep[0] if not isinstance(keep, range) else 0] = scale
        base = {"comp": c, "pattern": pattern}
    else:
        base = draw(_eigs())
        base["rot0"] = draw(_rots())
    if draw(st.booleans()):
        factor = 2.0 ** draw(st.integers(-8, 8))
    else:
        factor = draw(st.one_of(st.floats(1e-3, 1e3), st.integers(-9, 9).map(lambda k: 10.0 ** k)))
    return dict(base, rot=draw(_rots()), factor=factor, container=draw(st.sampled_from(["scalar", "column"])))


@subcheck("C17", "rotation_scale", strategy=_invariance_cases, quick=5000, thorough=200000,
          doc="f(R S R^T) == f(S) and f(a S) == a f(S), a > 0, for every measure (signed ones where the indicator is clear of 0); "
              "S given by arbitrary components or by spectrum")
def rotation_scale(case, ctx):
    if "comp" in case:
        c0 = flush(case["comp"])
        eig0 = None
        ctx.label("pattern:" + case.get("pattern", "full"))
    else:
        c0, _ = assemble(case["eig"], case["rot0"])
        eig0 = case["eig"]
        ctx.label("cls:" + case["cls"])
    scale = max(abs(x) for x in c0)
    c1, ang = rotate_components(c0, case["rot"])
    a = case["factor"]
    c2 = [a * x for x in c0]
    ctx.label("rot:" + case["rot"]["k"], "factor:pow2" if math.log2(a) == int(math.log2(a)) else "factor:general")
    if ang > 0.1 or (eig0 is not None and _degenerate(eig0)):
        ctx.nontrivial()
    # 2-norm of the tensor bounds every eigenvalue; the Frobenius norm of the components is used as scale
    fro = math.sqrt(sum(x * x for x in c0[:3]) + 2 * sum(x * x for x in c0[3:]))
    base = {n: call(n, [c0], case["container"])[0] for n in FUNCS + ["principals"]}
    rot = {n: call(n, [c1], case["container"])[0] for n in FUNCS + ["principals"]}
    scl = {n: call(n, [c2], case["container"])[0] for n in FUNCS + ["principals"]}
    # reference Mises from the components in difference form (harness), to size the tolerance
    mref = math.sqrt(((c0[0] - c0[1]) ** 2 + (c0[1] - c0[2]) ** 2 + (c0[2] - c0[0]) ** 2) / 2.0 + 3.0 * (c0[3] ** 2 + c0[4] ** 2 + c0[5] ** 2))
    t_eig = K_EIG * EPS * fro
    t_m = mises_tol(mref, fro)
    f08 = fro > 0 and mref <= 4.0 * math.sqrt(K_MISES * EPS) * fro
    if f08:
        ctx.label("near_hydrostatic")
    nonfinite = [n for n in FUNCS for d in (base, rot, scl) if not math.isfinite(d[n])]
    skip_mises = False
    if nonfinite:
        if f08 and all("mises" in n for n in nonfinite) and ctx.known("F08"):
            skip_mises = True
        else:
            raise Violation("%s not finite for finite tensor %r / rotated %r / scaled by %r" % (sorted(set(nonfinite)), c0, c1, a),
                            bucket="nonfinite:%s" % sorted(set(nonfinite))[0])
    if not skip_mises:
        for what, comp, d in (("S", c0, base), ("R S R^T", c1, rot), ("a S", c2, scl)):
            mx = mises_exact(comp)
            if abs(d["mises"] - mx) > RT_MISES * mx:
                raise Violation("mises(%s) = %r for components %r, the definition evaluated exactly gives %r (relative deviation %.3g)" % (
                    what, d["mises"], comp, mx, abs(d["mises"] - mx) / mx if mx else float("inf")), bucket="def:mises_exact")
    tr = c0[0] + c0[1] + c0[2]
    lo, hi = base["min_principal"], base["max_principal"]     # used only to decide whether the indicator is clear of zero
    for n in FUNCS:
        if "mises" in n and skip_mises:
            continue
        tol = (2 * t_m if "mises" in n else 2 * t_eig)   # both sides carry their own rounding
        signed = n.startswith("signed") or n == "abs_max_principal"
        if signed:
            ind = tr if n.endswith("trace") else hi + lo
            if abs(ind) <= 1e-6 * fro:
                # indicator within rounding of zero: the sign may legitimately flip; compare magnitudes only
                ctx.label("indicator_near_zero")
                b, r, s = abs(base[n]), abs(rot[n]), abs(scl[n])
                if n == "abs_max_principal":
                    tol = 1e-6 * fro + 2 * t_eig   # |l_max| and |l_min| differ by up to the indicator
            else:
                b, r, s = base[n], rot[n], scl[n]
        else:
            b, r, s = base[n], rot[n], scl[n]
        if abs(r - b) > tol:
            raise Violation("%s changes under rotation %r: %r -> %r (components %r -> %r, tol %.3g)" % (n, case["rot"], b, r, c0, c1, tol),
                            bucket="rotation:%s" % n)
        if abs(s - a * b) > a * tol:
            raise Violation("%s(a S) = %r, a %s(S) = %r for a = %r, S = %r (tol %.3g)" % (n, s, n, a * b, a, c0, a * tol), bucket="scale:%s" % n)
    for k in range(3):
        if abs(rot["principals"][k] - base["principals"][k]) > 2 * t_eig:
            raise Violation("principals change under rotation: %r -> %r" % (base["principals"], rot["principals"]), bucket="rotation:principals")
        if abs(scl["principals"][k] - a * base["principals"][k]) > 2 * a * t_eig:
            raise Violation("principals(a S) != a principals(S): %r vs %r * %r" % (scl["principals"], a, base["principals"]), bucket="scale:principals")


# ---- tensors given by their components (whole numbers, simple fractions, cancelling shear), own eigen solver ---------
def jacobi_eigenvalues(c):
    """Eigenvalues of the symmetric tensor with Voigt components c by cyclic Jacobi rotations (plain Python, harness).
    Accurate to a few eps * norm also for repeated eigenvalues; independent of LAPACK."""
    a = [[float(c[0]), float(c[3]), float(c[4])], [float(c[3]), float(c[1]), float(c[5])], [float(c[4]), float(c[5]), float(c[2])]]
    for _ in range(60):
        off = a[0][1] ** 2 + a[0][2] ** 2 + a[1][2] ** 2
        if off == 0.0:
            break
        for p, q, r in ((0, 1, 2), (0, 2, 1), (1, 2, 0)):
            apq = a[p][q]
            if apq == 0.0:
                continue
            theta = (a[q][q] - a[p][p]) / (2.0 * apq)
            t = math.copysign(1.0, theta) / (abs(theta) + math.sqrt(theta * theta + 1.0)) if math.isfinite(theta * theta) else 0.5 / theta
            cs = 1.0 / math.sqrt(t * t + 1.0)
            sn = t * cs
            a[p][p] -= t * apq
            a[q][q] += t * apq
            a[p][q] = a[q][p] = 0.0
            arp, arq = a[r][p], a[r][q]
            a[r][p] = a[p][r] = cs * arp - sn * arq
            a[r][q] = a[q][r] = sn * arp + cs * arq
    return sorted([a[0][0], a[1][1], a[2][2]])


def _whole_numbers(lo, hi):
    return st.one_of(st.integers(lo, hi), st.sampled_from([0, 0, 1, -1, 100, -100]))


@st.composite
def _component_cases(draw, tier):
    pattern = draw(st.sampled_from(["int_full", "int_full", "int_small", "quarters", "shear_cancel", "shear_cancel", "plane", "shear_only",
                                    "near_diagonal", "pressure_offset", "pressure_offset"]))
    n = draw(st.integers(1, 4 if tier == "quick" else 12))
    rows = []
    for _ in range(n):
        if pattern in ("int_full", "shear_cancel", "plane", "shear_only"):
            c = [draw(_whole_numbers(-1000, 1000)) for _ in range(6)]
            if draw(st.integers(0, 3)) == 0:
                c = [x / 8.0 for x in c]                  # not whole, still exact
        elif pattern == "int_small":
            c = [draw(st.integers(-3, 3)) for _ in range(6)]
        elif pattern == "pressure_offset":
            # p I + a small deviator: a part under a superimposed pressure, p/dev = 1e3 .. 1e7, whole numbers or eighths
            p0 = draw(st.sampled_from([1, -1])) * draw(st.integers(1, 9)) * 10 ** draw(st.integers(4, 7))
            c = [p0 + draw(st.integers(-10, 10)) for _ in range(3)] + [draw(st.integers(-10, 10)) for _ in range(3)]
            if draw(st.booleans()):
                c = [x / 8.0 for x in c]
        elif pattern == "quarters":
            c = [draw(st.integers(-16, 16)) / 4.0 for _ in range(6)]
        else:                                             # shear far below the diagonal
            c = [float(draw(st.integers(-1000, 1000))) for _ in range(3)] + [draw(st.integers(-9, 9)) * 10.0 ** draw(st.integers(-9, -1)) for _ in range(3)]
        if pattern == "shear_cancel":                     # every row: s12 + s13 + s23 == 0 exactly, not all zero
            a, b = c[3], c[4]
            c[3:] = draw(st.sampled_from([[a, -a, 0], [a, 0, -a], [0, a, -a], [a, b, -(a + b)]]))
        elif pattern == "plane":
            c[2] = c[4] = c[5] = 0
        elif pattern == "shear_only":
            c[0] = c[1] = c[2] = 0
        rows.append(c)
    container = draw(st.sampled_from(["scalar", "column", "list", "series", "int_scalar", "npint_scalar", "int_column", "int_column",
                                      "int_list", "mixed_scalar"]))
    return {"rows": rows, "pattern": pattern, "container": container}


@subcheck("C17", "component_tensors", strategy=_component_cases, quick=4000, thorough=150000,
          doc="tensors given by components (whole numbers in int / numpy.int64 / int64 columns, eighths, cancelling shear components, "
              "plane and shear-only states): all definitions against the harness' own Jacobi eigenvalues")
def component_tensors(case, ctx):
    rows = case["rows"]
    eigs = [jacobi_eigenvalues(c) for c in rows]
    whole = all(_whole(x) for c in rows for x in c)
    ctx.label("pattern:" + case["pattern"], "container:" + case["container"], "whole_numbers" if whole else "fractions")
    if any(sum(1 for x in c[3:] if x != 0) >= 2 for c in rows) or any(_degenerate_spectrum(e) for e in eigs):
        ctx.nontrivial()
    diagonal = [all(x == 0 for x in c[3:]) for c in rows]
    # the diagonal of these tensors sums exactly (whole numbers / eighths below 2^53): a zero trace is exactly zero
    check_against_truth([[float(x) if not _whole(x) else x for x in c] for c in rows], eigs, diagonal, case["container"], ctx,
                        "pattern=%s container=%s" % (case["pattern"], case["container"]), exact_trace=[True] * len(rows))


def _degenerate_spectrum(e):
    sc = max(abs(x) for x in e)
    return sc == 0 or e[1] - e[0] <= 1e-12 * sc or e[2] - e[1] <= 1e-12 * sc or abs(e[0] + e[2]) <= 1e-12 * sc


# ---- small exhaustive tier: every diagonal from a small alphabet, optionally one shear component -------------
ALPHABET = [-2.0, -1.0, -0.5, 0.0, 0.5, 1.0, 2.0, 213.3]


def _grid(tier):
    shear = [None, (3, 1.0), (4, -0.5), (5, 2.0)]
    for d in itertools.product(ALPHABET, repeat=3):
        for sh in shear:
            for container in ("scalar", "column"):
                yield {"diag": list(d), "shear": list(sh) if sh else None, "container": container}


@subcheck("C17", "small_grid", enumerate_=_grid,
          doc="all diagonals over {-2,-1,-.5,0,.5,1,2,213.3}^3, with no or one shear component (spectrum from the 2x2 closed form): "
              "definitions, exact zero-indicator sign (+1), uniaxial / pure shear / hydrostatic / repeated / zero tensors exhaustively")
def small_grid(case, ctx):
    d, sh = case["diag"], case["shear"]
    c = [d[0], d[1], d[2], 0.0, 0.0, 0.0]
    if sh is None:
        eig = list(d)
        exact = True
    else:
        j, t = sh
        c[j] = t
        a, b, other = {3: (d[0], d[1], d[2]), 4: (d[0], d[2], d[1]), 5: (d[1], d[2], d[0])}[j]
        m, r = (a + b) / 2.0, math.hypot((a - b) / 2.0, t)
        eig = [m + r, m - r, other]
        exact = False
    ctx.label("diagonal" if sh is None else "one_shear")
    if _degenerate(eig):
        ctx.nontrivial()
    if all(x == 0 for x in c):
        ctx.label("zero_tensor")
    if sh is None and d[0] == d[1] == d[2] and d[0] != 0:
        ctx.label("hydrostatic")
    check_against_truth([c], [eig], [exact], case["container"], ctx, "grid")
    # sign of the trace for an exactly vanishing trace with shear (trace is computed from the diagonal only)
    if sh is not None and (c[0] + c[1]) + c[2] == 0.0:
        for name, base in (("signed_mises_trace", "mises"), ("signed_tresca_trace", "tresca")):
            v, u = call(name, [c], case["container"])[0], call(base, [c], case["container"])[0]
            if u > 0 and not v > 0:
                raise Violation("%s%r = %r: the trace is exactly 0, documented sign is +1 (%s = %r)" % (name, tuple(c), v, base, u),
                                bucket="signed:sign:%s" % name)


# ---- accessor --------------------------------------------------------------------------------------------------
COLS = ["S11", "S22", "S33", "S12", "S13", "S23"]
DERIVED = ["scale", "reverse", "swap_axes", "copy_update", "shift_inplace", "row_update", "take"]


@st.composite
def _accessor_cases(draw, tier):
    n = draw(st.integers(1, 6 if tier == "quick" else 30))
    if draw(st.integers(0, 3)) == 0:
        # whole-number components in int64 columns
        tensors = [{"comp": [draw(_whole_numbers(-1000, 1000)) for _ in range(6)]} for _ in range(n)]
        dtype = "int"
    else:
        tensors = [dict(draw(_eigs()), rot=draw(_rots())) for _ in range(n)]
        dtype = "float"
    return {"tensors": tensors, "dtype": dtype,
            "index": draw(st.sampled_from(["range", "shuffled", "offset", "multi", "string", "duplicate"])),
            "perm": list(draw(st.permutations(range(n)))),
            "colperm": list(draw(st.permutations(range(6)))),
            "extra": draw(st.booleans()),
            "drop": draw(st.one_of(st.none(), st.none(), st.integers(0, 5))),
            "first": draw(st.sampled_from(["all", "principals", "max_principal", "min_principal", "tresca", "none"])),
            "derived": draw(st.sampled_from(DERIVED)),
            "factor": draw(st.sampled_from([3.0, 0.125, 2.5, 2, 1000.0]))}


def _index(kind, perm):
    n = len(perm)
    if kind == "range":
        return pd.RangeIndex(n)
    if kind == "shuffled":
        return pd.Index(perm, name="element_id")
    if kind == "offset":
        return pd.Index([p + 101 for p in range(n)], name="node_id")
    if kind == "multi":
        return pd.MultiIndex.from_arrays([[p // 2 for p in perm], [p % 2 for p in perm]], names=["element_id", "node_id"])
    if kind == "string":
        return pd.Index(["n%02d" % p for p in perm])
    if kind == "duplicate":
        return pd.Index([p % 2 for p in range(n)], name="element_id")
    raise ValueError(kind)


def _same(a, b):
    # "the same numbers": up to 4 eps relative. numpy evaluates x ** 2 of a 0-d array through pow() and of a 1-d array
    # through a multiplication, sqrt of sums then differs in the last place between the scalar call and the column
    # (seen: mises row 8949.56580762955 vs scalar 8949.565807629548).
    return a == b or (a != a and b != b) or abs(a - b) <= 4 * EPS * max(abs(a), abs(b))


def _check_frame(df, what, methods=None):
    """Every accessor method of ``df`` against the plain function evaluated row by row (scalar calls on the frame's own
    numbers, python ints for integer columns)."""
    idx = df.index
    n = len(df)
    comps = [[df[c].iloc[i].item() for c in COLS] for i in range(n)]
    before = df.copy(deep=True)
    acc = df.equistress
    for name in (methods or FUNCS + ["principals"]):
        res = getattr(acc, name)()
        want = call(name, comps, "scalar")
        if name == "principals":
            if list(res.columns) != ["min_principal", "med_principal", "max_principal"] or not res.index.equals(idx) or len(res) != n:
                raise Violation("%s: df.equistress.principals(): unexpected columns/index %r" % (what, res), bucket="accessor:form:principals")
            for i in range(n):
                gotr = res.iloc[i].tolist()
                if not all(_same(x, y) for x, y in zip(gotr, want[i])):
                    raise Violation("%s: df.equistress.principals() row %d = %r, principals(row) = %r (row %r)" % (what, i, gotr, want[i], comps[i]),
                                    bucket="accessor:value:principals")
            continue
        if not isinstance(res, pd.Series) or res.name != name or not res.index.equals(idx) or len(res) != n:
            raise Violation("%s: df.equistress.%s(): expected a Series named %r on the frame's index, got %r" % (what, name, name, res),
                            bucket="accessor:form:%s" % name)
        gotv = res.to_numpy().tolist()
        for i in range(n):
            if not _same(gotv[i], want[i]):
                raise Violation("%s: df.equistress.%s() row %d = %r, %s(row) = %r (row %r)" % (what, name, i, gotv[i], name, want[i], comps[i]),
                                bucket="accessor:value:%s" % name)
    if not df.equals(before):
        raise Violation("%s: accessor modified the frame's data" % what, bucket="accessor:mutation")


def _derive(df, kind, factor):
    """A frame obtained from an already evaluated one by ordinary pandas operations."""
    if kind == "scale":
        return df * factor
    if kind == "reverse":
        return df.iloc[::-1]
    if kind == "take":
        return df.iloc[[(2 * i + 1) % len(df) for i in range(len(df))]]          # rows picked / repeated, same length
    if kind == "swap_axes":                                                     # axes 1 and 2 exchanged
        return df.rename(columns={"S11": "S22", "S22": "S11", "S13": "S23", "S23": "S13"})
    d = df.copy()
    if kind == "copy_update":
        d[COLS] = d[COLS] * factor
    elif kind == "shift_inplace":                                               # superpose a hydrostatic state
        for c in ("S11", "S22", "S33"):
            d[c] = d[c] - 50
    elif kind == "row_update":
        d.iloc[0, [d.columns.get_loc(c) for c in COLS]] = [10, 0, 0, 0, 0, 0]
    else:
        raise ValueError(kind)
    return d


@subcheck("C17", "accessor", strategy=_accessor_cases, quick=2000, thorough=60000,
          doc="df.equistress.<f>() == f(row) row by row (scalar calls), index and name preserved, independent of column order, extra columns "
              "and column dtype (float64 / int64); a missing component raises AttributeError; the same for a frame derived from an "
              "already evaluated one by pandas operations (df * k, reordering, renaming axes, copy + update)")
def accessor(case, ctx):
    if case.get("dtype") == "int":
        comps = [list(t["comp"]) for t in case["tensors"]]
    else:
        comps = [assemble(t["eig"], t["rot"])[0] for t in case["tensors"]]
    n = len(comps)
    idx = _index(case["index"], case["perm"])
    cols = [COLS[j] for j in case["colperm"]]
    data = {COLS[j]: [c[j] for c in comps] for j in range(6)}
    df = pd.DataFrame({k: data[k] for k in cols}, index=idx)
    if case.get("dtype") == "int" and not all(str(t) == "int64" for t in df.dtypes):
        raise RuntimeError("harness: integer frame expected, got %r" % (df.dtypes,))
    if case["extra"]:
        df.insert(int(case["colperm"][0]), "T", 20.0)
        df["S21"] = -1.0
    ctx.label("index:" + case["index"], "rows:%d" % min(n, 3), "dtype:" + case.get("dtype", "float"))
    if n >= 2:
        ctx.nontrivial()
    if case["drop"] is not None:
        ctx.label("missing_column")
        bad = df.drop(columns=COLS[case["drop"]])
        try:
            bad.equistress.mises()
        except AttributeError:
            ctx.tolerate("AttributeError for a missing component (documented)")
        else:
            raise Violation("accessor accepted a frame without column %s" % COLS[case["drop"]], bucket="accessor:missing_column")
    first = case.get("first", "all")
    if first == "all":
        _check_frame(df, "frame")
    elif first != "none":
        _check_frame(df, "frame", [first])
    # ---- call history: a frame derived from the (evaluated) frame is a frame like any other
    kind = case.get("derived")
    if kind:
        ctx.label("derived:" + kind, "first:" + first)
        d = _derive(df, kind, case.get("factor", 3.0))
        _check_frame(d, "frame derived by '%s' after evaluating %s" % (kind, first))
        _check_frame(df, "original frame after evaluating the derived one")
