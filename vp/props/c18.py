"""C18 - Woehler test-data analysis: equivariance under unit changes / row order, exact recovery."""

import math
import warnings

import numpy as np
import pandas as pd
from hypothesis import strategies as st
from scipy import stats as sps

from ..core import Violation, subcheck, nontrivial_rule, assumptions

from pylife.materialdata import woehler as W  # noqa: E402
from pylife.materialdata.woehler.likelihood import Likelihood  # noqa: E402

PROP = "C18"
PARAMS = ("k_1", "ND", "SD", "TN", "TS")
RTOL = 1e-9            # closed-form analysers: probe of 25 data sets shows 3e-14 (DESIGN C18)

nontrivial_rule(PROP, "Non-trivial: the data set has >= 3 load levels and >= 1 run-out, the analyser returned a finite "
                      "curve (no documented ValueError), and the transformation is not the identity (c != 1 / permutation != id).")


# =====================================================================================
# data sets
# =====================================================================================

def _round_sig(x, n):
    if x == 0:
        return 0.0
    return float(round(x, n - 1 - int(math.floor(math.log10(abs(x))))))


def _rot(seq, v):
    v %= len(seq)
    return list(seq[v:]) + list(seq[:v])


@st.composite
def _datasets(draw, tier, mode="any", exact=False, variant=0, force_runout=False, wide=False):
    """A fatigue test series as rows [load, cycles, fracture] around a Basquin line (k, ND, SD).

    mode: 'any'    the two highest levels hold fractures only (>= 2 finite-zone fracture levels), the rest is free
          'wild'   every level free (inadmissible sets included: the analysers' own guards decide)
          'mixed2' >= 2 mixed levels with >= 3 fractures among them (MaxLikeInf's guards), small
          'mixed1' exactly one mixed level (MaxLikeFull then fixes TS), small
    exact: cycles lie exactly on the line (no scatter, no rounding to integers).
    variant rotates the value lists, so that Hypothesis' simplest example differs between the ML lanes.
    wide: also loads that are small or large numbers (strain amplitudes 0.0032, stresses in GPa / in Pa) and steep slopes
          up to k = 40 (see the note on the admitted range at WIDE_SCALES).
    """
    ml = mode in ("mixed2", "mixed1")
    dyadic = exact and draw(st.booleans())
    if dyadic:
        SD, ND = 64.0, 2.0 ** 24
        k = float(draw(st.sampled_from([2, 3, 4])))
    else:
        sds, ks, kmax = [100.0, 250.0, 362.5, 37.3, 1.25, 820.0], [3.0, 5.0, 8.0, 2.0, 15.0], 15.0
        if wide:
            sds = sds + [0.0032, 0.25, 3.6e8, 4.2e-5]
            ks = ks + [38.0, 25.0]
            kmax = 40.0
        SD = draw(st.sampled_from(_rot(sds, variant)))
        k = draw(st.one_of(st.sampled_from(_rot(ks, variant)),
                           st.floats(2.0, kmax).map(lambda v: _round_sig(v, 4))))
        ND = draw(st.sampled_from(_rot([1.0e6, 2.0e5, 2.0e6, 5.0e6], variant)))
    sigma = 0.0 if exact else draw(st.sampled_from(_rot([0.1, 0.05, 0.02, 0.2, 0.3], variant)))
    sS = math.log10(draw(st.sampled_from(_rot([1.15, 1.05, 1.3, 1.6], variant)))) / 2.5631031311
    if ml:
        n_top = draw(st.integers(2, 3))
        n_mix = 1 if mode == "mixed1" else draw(st.integers(2, 3))
        n_low = draw(st.integers(0, 1))
        kinds = ["fracture"] * n_top + ["mixed"] * n_mix + ["runout"] * n_low
    else:
        n = draw(st.integers(3, 7))
        n_top = draw(st.integers(2, min(4, n))) if mode == "any" else 0
        no_runouts = (not force_runout) and draw(st.sampled_from([False] * 7 + [True]))
        kinds = []
        for i in range(n):
            if i < n_top or no_runouts:
                kinds.append("fracture")
            else:
                low = i >= n / 2.0          # lower levels are more likely to hold run-outs
                pool = ["fracture"] * (1 if low else 3) + ["mixed"] * 2 + ["runout"] * (3 if low else 1)
                kinds.append(draw(st.sampled_from(pool)))
        if (force_runout or (mode == "any" and not no_runouts)) and all(kd == "fracture" for kd in kinds):
            kinds[-1] = "runout"            # series without any run-out only when drawn explicitly (1 in 8)
    n = len(kinds)
    n_inf = sum(1 for kd in kinds if kd != "fracture")
    # loads, generated from the lowest level upwards; the infinite-zone levels straddle SD
    if dyadic:
        loads = [SD * 2.0 ** (n - 1 - i - min(n_inf, 2)) for i in range(n)]
    else:
        # steep curves are tested on narrow load ranges (otherwise the upper levels would break within a few cycles)
        step_pool = [0.05, 0.03, 0.08, 0.12, 0.2, 0.3] if k <= 15.0 else [0.05, 0.03, 0.04]
        steps = [draw(st.sampled_from(step_pool)) for _ in range(n - 1)]
        lo = SD * (0.96 ** n_inf) * draw(st.sampled_from([1.0, 0.9, 1.05]))
        loads = [lo]
        for s_ in steps:
            loads.append(loads[-1] * (1.0 + s_))
        loads = loads[::-1]
        if draw(st.booleans()):
            rl = [_round_sig(x, 3) for x in loads]          # test loads are usually round numbers
            if len(set(rl)) == len(rl):
                loads = rl
    # outcomes per level (True = fracture)
    per_level = []
    for i, kd in enumerate(kinds):
        m = draw(st.integers(2 if (kd == "mixed" or (ml and kd == "fracture")) else 1, 3 if ml else 5))
        if kd == "mixed":
            flags = [True, False]
            p_frac = float(sps.norm.cdf(math.log10(loads[i] / SD) / sS))
            for _ in range(m - 2):
                if ml:      # outcome follows the load: P(fracture) = Phi(lg(L/SD)/s_S)
                    flags.append(draw(st.floats(0.0, 1.0)) < p_frac)
                else:
                    flags.append(draw(st.booleans()))
        else:
            flags = [kd == "fracture"] * m
        per_level.append(flags)
    if mode == "mixed2":
        j = kinds.index("mixed")                       # the highest mixed level
        while sum(sum(f) for f, kd in zip(per_level, kinds) if kd == "mixed") < 3:
            per_level[j].append(True)       # MaxLikeInf wants >= 3 fractures in the infinite zone
    n_fr = sum(sum(f) for f in per_level)
    # residuals of the fractures in units of sigma
    if exact or n_fr == 0:
        resid = [0.0] * n_fr
    elif ml or draw(st.booleans()):
        # stratified: normal scores in a drawn order plus jitter, so that no generated series is (nearly) scatter-free
        order = draw(st.permutations(list(range(n_fr))))
        resid = [max(-2.5, min(2.5, float(sps.norm.ppf((order[j] + 0.5) / n_fr))))
                 + round(draw(st.floats(-0.25, 0.25)), 3) for j in range(n_fr)]
    else:
        resid = [round(draw(st.floats(-2.5, 2.5)), 3) for _ in range(n_fr)]
    rows, frac_cycles, q = [], [], 0
    for i, flags in enumerate(per_level):
        for fr in flags:
            if fr:
                cyc = ND * (loads[i] / SD) ** (-k) * 10.0 ** (sigma * resid[q])
                q += 1
                if not exact and cyc > 1e3 and draw(st.booleans()):
                    cyc = float(round(cyc))      # test machines report integer cycle counts
                frac_cycles.append(cyc)
                rows.append([loads[i], cyc, True])
            else:
                rows.append([loads[i], None, False])
    limit = max([ND * draw(st.sampled_from([5.0, 2.0, 10.0]))] + [1.05 * c for c in frac_cycles])
    if _round_sig(limit, 2) > max(frac_cycles + [0.0]):
        limit = _round_sig(limit, 2)
    for r in rows:
        if r[1] is None:
            r[1] = limit
    order = draw(st.permutations(list(range(len(rows)))))       # test series are not stored sorted
    rows = [rows[j] for j in order]
    return {"rows": rows, "truth": {"k": k, "ND": ND, "SD": SD, "sigma": sigma, "dyadic": dyadic}}


_pow2 = st.integers(-7, 10).filter(lambda e: e != 0).map(lambda e: 2.0 ** e)
_fscale = st.floats(1e-2, 1e3).map(lambda v: _round_sig(v, 6)).filter(lambda v: v != 1.0)
_scales = st.one_of(_pow2, _fscale)

# 'Every positive scale factor' is taken as every change between units in which fatigue data are actually written down:
# loads from strain amplitudes as absolute numbers (1e-5 .. 1e-2) over GPa, MPa, N to stresses in Pa (up to ~1e10), cycles from
# mega-cycles / blocks to single cycles.  That is a factor of 1e-6 .. 1e6 on a series whose loads are themselves between 4e-5
# and 4e8 (wide data sets), i.e. load magnitudes 1e-11 .. 1e15, combined with slopes up to k = 40.  k * |lg load| then reaches
# ~600, beyond the range (308) where powers of absolute loads leave double precision - a code path that takes such powers is
# wrong for Pa-data of flat curves and must show up.  Factors like 1e36 are outside: no unit system produces them.
_wpow2 = st.integers(-20, 20).filter(lambda e: e != 0).map(lambda e: 2.0 ** e)
_wfscale = st.floats(-6.0, 6.0).map(lambda e: _round_sig(10.0 ** e, 6)).filter(lambda v: v != 1.0)
_decades = st.sampled_from([1e-6, 1e-3, 1e-2, 1e3, 1e6])          # MPa -> TPa / GPa / 'percent -> absolute' / kPa / Pa
WIDE_SCALES = st.one_of(_wpow2, _wfscale, _decades)


def frame(rows, index=None, rid=None, cycles_dtype=None):
    cols = {"load": np.asarray([r[0] for r in rows], dtype=np.float64),
            "cycles": np.asarray([r[1] for r in rows], dtype=np.float64),
            "fracture": np.asarray([bool(r[2]) for r in rows], dtype=bool)}
    if cycles_dtype is not None:
        # how the cycle numbers are stored (a cycle counter, a CSV import or Python ints give integer columns) is not data
        cols["cycles"] = pd.array([int(r[1]) for r in rows], dtype=cycles_dtype)
    if rid is not None:
        cols["specimen"] = np.asarray(rid, dtype=np.int64)      # an extra column identifying the test, whatever its row label is
    df = pd.DataFrame(cols)
    if index is not None:
        df.index = pd.Index(index)
    return df


# Row labels are not part of the data.  Layouts a user's frame can have:
LAYOUTS = ("range", "sparse", "descending", "concat", "concat", "pairs", "constant", "str", "str_dup", "float")


def row_labels(n, layout, split):
    """Index labels for n rows.  'concat' is what pd.concat([campaign_1, campaign_2]) without ignore_index gives (both start
    at 0: repeated labels), 'pairs' / 'constant' / 'str_dup' repeat labels in other patterns, the rest are unique."""
    if layout == "range":
        return None
    if layout == "sparse":
        return [100 + 7 * i for i in range(n)]
    if layout == "descending":
        return [n - i for i in range(n)]
    if layout == "concat":
        m = max(1, min(n - 1, split)) if n > 1 else 1
        return list(range(m)) + list(range(n - m))
    if layout == "pairs":
        return [i // 2 for i in range(n)]
    if layout == "constant":
        return [0] * n
    if layout == "str":
        return ["t%02d" % i for i in range(n)]
    if layout == "str_dup":
        return ["batch-%d" % (i % 3) for i in range(n)]
    if layout == "float":
        return [0.5 * i for i in range(n)]
    raise ValueError(layout)


def transformed(rows, kind, c=None, perm=None):
    if kind == "load":
        return [[r[0] * c, r[1], r[2]] for r in rows]
    if kind == "cycles":
        return [[r[0], r[1] * c, r[2]] for r in rows]
    if kind == "perm":
        return [rows[j] for j in perm]
    raise ValueError(kind)


# ---- structure of a data set, derived in the harness (no pyLife) -------------------------------------------
def structure(rows):
    loads = sorted(set(r[0] for r in rows))
    ro = [r[0] for r in rows if not r[2]]
    fr = [r[0] for r in rows if r[2]]
    max_ro = max(ro) if ro else None
    finite = [i for i, r in enumerate(rows) if r[2] and (max_ro is None or r[0] > max_ro)]
    infinite = [i for i, r in enumerate(rows) if max_ro is not None and r[0] <= max_ro]
    mixed = sorted(set(ro) & set(fr))
    return {"levels": loads, "n_runouts": len(ro), "n_fractures": len(fr), "max_runout": max_ro,
            "finite": finite, "infinite": infinite, "mixed": mixed,
            "finite_levels": sorted(set(rows[i][0] for i in finite)),
            "infinite_levels": sorted(set(rows[i][0] for i in infinite))}


def relevant(rows):
    """The analysers work on the series with 'irrelevant' run-outs dropped (documented in FatigueData): if there are two or more
    pure run-out levels, all below the lowest level with a fracture, only the highest of them is kept."""
    fr = set(r[0] for r in rows if r[2])
    pure = sorted(set(r[0] for r in rows if not r[2]) - fr)
    if len(pure) <= 1 or not fr or not pure[-1] < min(fr):
        return rows
    return [r for r in rows if not r[0] < pure[-1]]


def label_structure(ctx, s):
    ctx.label("levels=%d" % min(len(s["levels"]), 7), "runouts=%s" % ("0" if s["n_runouts"] == 0 else "1-3" if s["n_runouts"] <= 3 else "4+"),
              "mixed_levels=%d" % min(len(s["mixed"]), 3), "finite_levels=%s" % (len(s["finite_levels"]) if len(s["finite_levels"]) < 3 else "3+"))


# =====================================================================================
# reference log-likelihood (the documented model, written here; used to judge the ML analysers)
# =====================================================================================
_Z90 = 2.5631031311          # T = 10**(2.5631 * s): scatter range between the 10 % and the 90 % quantile (DIN 50100)


def ref_ll_finite(rows, p, absum=None):
    """Every fracture contributes the normal log-density of lg N shifted along the slope k_1 to SD, around lg ND."""
    SD, k, ND, TN = (float(p[x]) for x in ("SD", "k_1", "ND", "TN"))
    if not (SD > 0 and ND > 0 and TN > 0):
        return -math.inf
    sN = abs(math.log10(TN) / _Z90)
    if sN == 0 or math.isnan(sN):
        return math.nan
    ll = 0.0
    for load, cyc, fr in rows:
        if fr:
            x = math.log10(cyc) + k * math.log10(load / SD)
            t = float(sps.norm.logpdf(x, math.log10(ND), sN))
            ll += t
            if absum is not None:
                absum[0] += abs(t)
    return ll


def ref_ll_infinite(rows, p, absum=None):
    """Every test of the infinite zone (load <= highest run-out load) contributes the log-probability of its outcome
    under a log-normal endurance limit (median SD, scatter TS)."""
    SD, TS = float(p["SD"]), float(p["TS"])
    if not (SD > 0 and TS > 0):
        return -math.inf
    sS = abs(math.log10(TS) / _Z90)
    if sS == 0 or math.isnan(sS):
        return math.nan
    ll = 0.0
    for i in structure(rows)["infinite"]:
        load, cyc, fr = rows[i]
        z = math.log10(load / SD) / sS
        t = float(sps.norm.logcdf(z if fr else -z))     # 1 - cdf(z) = cdf(-z), without cancellation
        ll += t
        if absum is not None:
            absum[0] += abs(t)
    return ll


def ref_loglike(rows, p):
    return ref_ll_finite(rows, p) + ref_ll_infinite(rows, p)


# =====================================================================================
# running an analyser
# =====================================================================================
ANALYSERS = {"Elementary": W.Elementary, "Probit": W.Probit, "MaxLikeInf": W.MaxLikeInf, "MaxLikeFull": W.MaxLikeFull}


def analyse(name, rows, index=None, want_estimator=False, cycles_dtype=None):
    """-> ('ok', {param: float}, [warning texts], extra)  or  ('ValueError', message, [], {}).
    ValueError is the documented reaction of FatigueData / the analysers to inadmissible data; nothing else is caught."""
    with warnings.catch_warnings(record=True) as wl:
        warnings.simplefilter("always")
        try:
            an = ANALYSERS[name](frame(rows, index, cycles_dtype=cycles_dtype))
            res = an.analyze()
        except ValueError as e:
            return "ValueError", str(e), [], {}
        extra = {}
        if want_estimator and hasattr(an, "_pearl_chain_estimator"):
            est = an.pearl_chain_estimator()
            extra = {"normed_load": float(est.normed_load), "normed_cycles": [float(x) for x in est.normed_cycles]}
    out = {k: float(res[k]) for k in PARAMS}
    out["failure_probability"] = float(res["failure_probability"])
    return "ok", out, [str(w.message)[:60] for w in wl if issubclass(w.category, UserWarning)], extra


def close(a, b, rtol):
    if math.isnan(a) or math.isnan(b):
        return math.isnan(a) and math.isnan(b)
    if math.isinf(a) or math.isinf(b):
        return a == b
    return abs(a - b) <= rtol * max(abs(a), abs(b))


def reldev(a, b):
    if a == b or (math.isnan(a) and math.isnan(b)):
        return 0.0
    if not (math.isfinite(a) and math.isfinite(b)):
        return math.inf
    return abs(a - b) / max(abs(a), abs(b))


def map_back(res, kind, c):
    """Result of the transformed series expressed in the units of the original series."""
    out = dict(res)
    if kind == "load":
        out["SD"] = res["SD"] / c
    elif kind == "cycles":
        out["ND"] = res["ND"] / c
    return out


# ---- classes with a known numerical / modelling reason, decided from the input alone ---------------------------
def finite_line(rows):
    """Least-squares line lg N = a + b lg L through the finite-zone fractures (harness arithmetic) and the largest
    residual; None if fewer than two levels."""
    s = structure(rows)
    pts = [(math.log10(rows[i][0]), math.log10(rows[i][1])) for i in s["finite"]]
    if len(set(x for x, _ in pts)) < 2:
        return None
    x = np.array([q[0] for q in pts])
    y = np.array([q[1] for q in pts])
    xm, ym = x.mean(), y.mean()
    b = float(((x - xm) * (y - ym)).sum() / ((x - xm) ** 2).sum())
    a = float(ym - b * xm)
    return {"a": a, "b": b, "maxres": float(np.abs(y - (a + b * x)).max()), "n": len(pts)}


def collinear(rows):
    """Finite-zone fractures lie on one straight line in the log-log plane up to rounding (exact synthetic data, or
    just two fractures): the pearl chain then has zero variance up to the last bits."""
    fl = finite_line(rows)
    return fl is not None and fl["maxres"] <= 1e-11


def probit_conditioning(rows):
    """|correlation| between the Rossow failure probabilities' normal scores and lg(load) over the infinite-zone levels.
    The Probit analyser regresses one on the other; for |r| ~ 0 the slope is rounding noise and TS = 10**(2.56/slope)
    is undefined.  Returns None if fewer than 2 levels.  Evaluated on the series the analysers work on (irrelevant run-out
    levels dropped): dropping a level can turn a well determined regression into an exactly symmetric one."""
    rows = relevant(rows)
    s = structure(rows)
    lv = s["infinite_levels"]
    if len(lv) < 2:
        return None
    xs, ys = [], []
    for L in lv:
        tests = [rows[i] for i in s["infinite"] if rows[i][0] == L]
        n, f = len(tests), sum(1 for t in tests if t[2])
        if f == 0:
            pr = 1.0 - 0.5 ** (1.0 / n)
        elif f == n:
            pr = 0.5 ** (1.0 / n)
        else:
            pr = (3.0 * f - 1.0) / (3.0 * n + 1.0)
        xs.append(math.log10(L))
        ys.append(float(sps.norm.ppf(pr)))
    x, y = np.array(xs), np.array(ys)
    sx, sy = x.std(), y.std()
    if sy == 0 or sx == 0:
        return 0.0
    return abs(float(((x - x.mean()) * (y - y.mean())).mean() / (sx * sy)))


def infinite_cov(rows):
    """Covariance between outcome (1 = fracture) and lg(load) over the tests of the infinite zone.  The probit
    log-likelihood is concave in (intercept, slope); its maximum has a positive slope (finite TS) iff this is > 0.
    For <= 0 the likelihood has no maximum in (SD, TS): sup is approached for TS -> infinity."""
    s = structure(rows)
    if not s["infinite"]:
        return None
    x = np.array([math.log10(rows[i][0]) for i in s["infinite"]])
    y = np.array([1.0 if rows[i][2] else 0.0 for i in s["infinite"]])
    return float(((x - x.mean()) * (y - y.mean())).mean())


# =====================================================================================
# closed-form analysers: Elementary, Probit
# =====================================================================================
assumptions(PROP, [
    "a data set is a DataFrame with columns load, cycles, fracture (explicit bool); run-outs carry the cycle limit of the series; "
    "loads of different levels differ by >= 3 % (so that the log-log regressions are well conditioned)",
    "ValueError raised by FatigueData / an analyser (their documented guards) marks the data set inadmissible for that analyser: "
    "counted as tolerated, and the transformed data set must raise ValueError as well",
    "Elementary/Probit parameters are compared with rtol 1e-9 (closed-form regressions; observed deviations are <= 1e-11); "
    "NaN == NaN and inf == inf count as equal",
    "Probit: TS, SD, ND are compared only if the probit regression is defined, i.e. |corr(normal score of the Rossow failure "
    "probabilities, lg load)| >= 0.01 over the infinite-zone levels (otherwise the slope is rounding noise; label probit_undetermined)",
    "TS of the Elementary analyser (TN**(1/k_1)) is compared only if |k_1| >= 0.05",
    "MaxLikeInf / MaxLikeFull: the reference log-likelihood is written in the harness (normal density of lg N along the slope for every "
    "fracture, normal cdf of lg(L/SD)/s for every test at or below the highest run-out level, irrelevant run-outs dropped as documented) and the "
    "library's own value at its estimate is checked against it; both runs' estimates are judged on the ORIGINAL data: |difference| <= 1e-6 "
    "(MaxLikeInf: plus the resolution of its absolute stop criterion xatol = 1e-4 in TS, 3e-6 at TS = 1.1), parameters rtol 1e-3 where the "
    "likelihood identifies them (SD/ND only if the infinite zone holds a fracture; k_1 with an absolute floor of 1e-3)",
    "ML sub-checks: series whose finite-zone fractures are collinear (likelihood unbounded for TN -> 1) and series without run-outs "
    "(MaxLikeFull is a no-op there) are outside their domain; 'ML >= start' compares with the Elementary estimate with k_1 folded to |k_1| "
    "for MaxLikeFull, because that analyser cannot represent a negative slope",
    "the supremum of the likelihood used to classify F14 is computed in the harness: least squares over all fractures (k_1 >= 0) plus a concave "
    "probit fit (BFGS, analytic gradient) over the infinite zone; it agrees with every converged library run to 1e-13",
])


def zero_variance_chain(extra):
    """F09 class, decided on the public pearl-chain estimator: the cycles shifted to the common load level agree to the
    last bits (relative spread <= 1e-12), i.e. the scatter regression runs on a (numerically) constant sample."""
    nc = extra.get("normed_cycles") if extra else None
    if not nc:
        return False
    lo, hi = min(nc), max(nc)
    return lo > 0 and (hi - lo) <= 1e-12 * hi


def _expected(base, kind, c):
    want = dict(base)
    if kind == "load":
        want["SD"] = base["SD"] * c
    elif kind == "cycles":
        want["ND"] = base["ND"] * c
    return want


def _compare_closed(name, rows, kind, c, perm, ctx, index=None, index2=None):
    """Run analyser ``name`` on the series and on its transformed copy and compare parameter-wise."""
    s = structure(rows)
    rows2 = transformed(rows, kind, c=c, perm=perm)
    a = analyse(name, rows, index, want_estimator=True)
    b = analyse(name, rows2, index2, want_estimator=True)
    if a[0] == "ValueError" or b[0] == "ValueError":
        if a[0] != b[0]:
            raise Violation("%s: %s of the series: original -> %s, transformed -> %s" % (
                name, kind, a[1] if a[0] == "ValueError" else "result", b[1] if b[0] == "ValueError" else "result"),
                bucket="%s:%s:guard_differs" % (name, kind))
        ctx.tolerate("%s: ValueError %s" % (name, a[1][:50]))
        return False
    ra, rb = a[1], b[1]
    for w in set(a[2]) | set(b[2]):
        ctx.label("warn:" + w[:40])
    if sorted(a[2]) != sorted(b[2]):
        raise Violation("%s: %s changes the warnings: %r vs %r" % (name, kind, a[2], b[2]), bucket="%s:%s:warnings_differ" % (name, kind))
    want = _expected(ra, kind, c)
    skip = set()
    if collinear(rows) and len(s["finite_levels"]) >= 2:
        ctx.label("collinear_finite_zone")
        bad = [r["TN"] for r in (ra, rb) if not abs(r["TN"] - 1.0) <= 1e-6]
        if bad:
            # F09: finite-zone fractures exactly on a line -> the pearl chain regresses on a zero-variance sample:
            # TN (and TS = TN**(1/k)) come out as NaN or as rounding garbage instead of 1
            if zero_variance_chain(a[3]) and zero_variance_chain(b[3]) and ctx.known("F09"):
                skip |= {"TN", "TS"}
            else:
                raise Violation("%s: TN = %r although the finite-zone fractures lie exactly on a line (no scatter: TN should be 1)"
                                % (name, bad[0]), bucket="collinear_TN")
    if s["n_runouts"] == 0 and (kind == "load" or math.isinf(ra["ND"]) or math.isinf(rb["ND"])):
        # FC18_a: without run-outs ND is the line evaluated at load 0.1 in the caller's unit.  Under a load unit change ND moves by
        # c**k_1; for steep curves with loads in Pa the extrapolation to 0.1 Pa overflows (ND = inf), so that even a cycle unit
        # change or a permutation compares inf with 1.6e308 - same root cause, same class (no run-outs), nothing else has ND = inf
        if not close(rb["ND"], want["ND"], RTOL):
            if ctx.known("FC18_a"):
                skip.add("ND")
            else:
                raise Violation("%s: no run-outs, %s x %r: ND %r -> %r (k_1 = %r); ND is the line read off at load 0.1 of the "
                                "current unit" % (name, kind, c, ra["ND"], rb["ND"], ra["k_1"]), bucket="norunout_ND_unit")
    if name == "Probit":
        pc = probit_conditioning(rows)
        if pc is not None and pc < 0.01 and s["n_runouts"] > 0:
            ctx.label("probit_undetermined")
            skip |= {"TS", "SD", "ND"}
    # Probit returns the Elementary TS when it falls back (fewer than two infinite-zone levels after dropping irrelevant run-outs)
    elementary_ts = name == "Elementary" or len(structure(relevant(rows))["infinite_levels"]) < 2
    if elementary_ts and math.isfinite(ra["k_1"]) and abs(ra["k_1"]) < 0.05:
        ctx.label("slope_near_zero")
        skip.add("TS")
    worst = 0.0
    for p in PARAMS:
        if p in skip:
            continue
        worst = max(worst, reldev(rb[p], want[p]))
        if not close(rb[p], want[p], RTOL):
            raise Violation("%s: %s%s: %s = %r, expected %r (original series: %r)" % (
                name, kind, "" if c is None else " x %r" % c, p, rb[p], want[p], ra[p]), bucket="%s:%s:%s" % (name, kind, p))
    ctx.label("dev<=1e-13" if worst <= 1e-13 else "dev<=1e-11" if worst <= 1e-11 else "dev<=1e-9")
    # pearl chain estimator (public): normalised load level and cycles
    ea, eb = a[3], b[3]
    if ea and eb and "TN" not in skip:
        wl = ea["normed_load"] * (c if kind == "load" else 1.0)
        if not close(eb["normed_load"], wl, RTOL):
            raise Violation("%s: pearl chain normed_load %r, expected %r" % (name, eb["normed_load"], wl), bucket="pearl:%s:normed_load" % kind)
        wc = [x * (c if kind == "cycles" else 1.0) for x in ea["normed_cycles"]]
        if len(wc) != len(eb["normed_cycles"]) or any(not close(x, y, 1e-9 * max(1.0, abs(ra["k_1"]))) for x, y in zip(eb["normed_cycles"], wc)):
            raise Violation("%s: pearl chain normed_cycles %r, expected %r" % (name, eb["normed_cycles"][:4], wc[:4]), bucket="pearl:%s:normed_cycles" % kind)
    return all(math.isfinite(ra[p]) for p in PARAMS)


@st.composite
def _closed_cases(draw, tier, kind):
    mode = draw(st.sampled_from(["any"] * 5 + ["wild"]))
    ds = draw(_datasets(tier, mode=mode, wide=True))
    n = len(ds["rows"])
    case = {"rows": ds["rows"], "mode": mode}
    if kind == "perm":
        case["perm"] = draw(st.permutations(list(range(n))))
        case["layout"] = draw(st.sampled_from(LAYOUTS))
        case["split"] = draw(st.integers(1, max(1, n - 1)))
    else:
        case["c"] = draw(WIDE_SCALES)
    return case


def _closed_run(kind):
    def run(case, ctx):
        rows = case["rows"]
        s = structure(rows)
        label_structure(ctx, s)
        c, perm = case.get("c"), case.get("perm")
        index = index2 = None
        if kind == "perm":
            # the original series has a fresh RangeIndex; the permuted copy carries row labels of the drawn layout
            # (unique, repeated as after pd.concat, strings ...): neither order nor labels are part of the data
            lab = row_labels(len(rows), case.get("layout", "range"), case.get("split", 1))
            index2 = None if lab is None else [lab[j] for j in perm]
            ident = list(perm) == list(range(len(rows))) and lab is None
            ctx.label("layout=" + case.get("layout", "range"))
            if lab is not None and len(set(lab)) < len(lab):
                inf_lab = set(lab[i] for i in s["infinite"])
                ctx.label("label_shared_across_zones" if any(lab[i] in inf_lab for i in s["finite"]) else "repeated_labels")
        else:
            ident = c == 1.0
            ctx.label("pow2" if math.log2(c) == int(math.log2(c)) else "float_factor")
        finite = True
        for name in ("Elementary", "Probit"):
            ok = _compare_closed(name, rows, kind, c, perm, ctx, index, index2)
            finite = finite and ok
        if finite and len(s["levels"]) >= 3 and s["n_runouts"] >= 1 and not ident:
            ctx.nontrivial()
    return run


subcheck(PROP, "closed_load_scale", strategy=lambda tier: _closed_cases(tier, "load"), quick=400, thorough=16000,
         doc="Elementary, Probit: loads x c -> SD x c, k_1/ND/TN/TS unchanged (rtol 1e-9)")(_closed_run("load"))
subcheck(PROP, "closed_cycle_scale", strategy=lambda tier: _closed_cases(tier, "cycles"), quick=400, thorough=16000,
         doc="Elementary, Probit: cycles x c -> ND x c, rest unchanged (rtol 1e-9)")(_closed_run("cycles"))
subcheck(PROP, "closed_permutation", strategy=lambda tier: _closed_cases(tier, "perm"), quick=400, thorough=16000,
         doc="Elementary, Probit: row permutation (fresh or carried index) -> same result (rtol 1e-9)")(_closed_run("perm"))


# ---- exact synthetic data ---------------------------------------------------------------------------------
@st.composite
def _exact_cases(draw, tier):
    ds = draw(_datasets(tier, mode="any", exact=True, wide=True))
    return {"rows": ds["rows"], "truth": ds["truth"]}


@subcheck(PROP, "exact_recovery", strategy=_exact_cases, quick=300, thorough=12000,
          doc="cycles exactly on N = ND (L/SD)^-k: k_1 == k (1e-9), TN == 1 and Elementary TS == 1 (1e-6), (SD, ND) on the line")
def exact_recovery(case, ctx):
    rows, tr = case["rows"], case["truth"]
    s = structure(rows)
    label_structure(ctx, s)
    ctx.label("dyadic" if tr["dyadic"] else "generic")
    for name in ("Elementary", "Probit"):
        st_, res, wl, est = analyse(name, rows, want_estimator=True)
        if st_ == "ValueError":
            ctx.tolerate("%s: ValueError %s" % (name, res[:50]))
            continue
        if len(s["finite_levels"]) < 2:
            ctx.label("no_finite_slope")
            continue
        # k: the regression of exact data is exact up to the conditioning of the load spacing (>= 3 %): 1e-9 is ample
        if not close(res["k_1"], tr["k"], 1e-9):
            raise Violation("%s: exact data with k = %r returned k_1 = %r" % (name, tr["k"], res["k_1"]), bucket="exact:%s:k_1" % name)
        bad_tn = not abs(res["TN"] - 1.0) <= 1e-6
        bad_ts = name == "Elementary" and not abs(res["TS"] - 1.0) <= 1e-6
        if bad_tn or bad_ts:
            if zero_variance_chain(est) and ctx.known("F09"):
                ctx.label("F09_class")
            else:
                raise Violation("%s: exact data (no scatter) returned TN = %r, TS = %r, expected 1" % (name, res["TN"], res["TS"]),
                                bucket="collinear_TN")
        # the reported knee point lies on the line: lg ND + k lg SD == lg ND0 + k lg SD0
        if s["n_runouts"] > 0 and res["SD"] > 0 and math.isfinite(res["ND"]) and res["ND"] > 0:
            if name == "Probit" and (probit_conditioning(rows) or 0.0) < 0.01:
                ctx.label("probit_undetermined")
                continue
            lhs = math.log10(res["ND"]) + tr["k"] * math.log10(res["SD"])
            rhs = math.log10(tr["ND"]) + tr["k"] * math.log10(tr["SD"])
            # both sides are sums of terms up to ~ k*lg(SD) ~ 50 in magnitude; Probit extrapolates SD by 10**(-b/a), so scale with lg SD
            tol = 1e-9 * (1.0 + abs(rhs) + tr["k"] * abs(math.log10(res["SD"])))
            if not abs(lhs - rhs) <= tol:
                raise Violation("%s: knee point (SD=%r, ND=%r) is not on the exact line k=%r, ND0=%r, SD0=%r (lg-distance %.3g)" % (
                    name, res["SD"], res["ND"], tr["k"], tr["ND"], tr["SD"], lhs - rhs), bucket="exact:%s:knee" % name)
    if len(s["levels"]) >= 3 and s["n_runouts"] >= 1 and len(s["finite_levels"]) >= 2:
        ctx.nontrivial()


# ---- zones ------------------------------------------------------------------------------------------------
@st.composite
def _zone_cases(draw, tier):
    mode = draw(st.sampled_from(["any", "wild", "wild"]))
    ds = draw(_datasets(tier, mode=mode, wide=True))
    n = len(ds["rows"])
    return {"rows": ds["rows"], "c": draw(WIDE_SCALES), "perm": draw(st.permutations(list(range(n)))),
            "layout": draw(st.sampled_from(LAYOUTS)), "split": draw(st.integers(1, max(1, n - 1)))}


def _zones(rows, index, rid):
    """-> message if FatigueData rejects the series, else for the series and for its irrelevant_runouts_dropped() variant:
    the tests (by the specimen column, not by row label) in the finite zone, in the infinite zone, in the series; the
    transition; the extreme loads of the zones."""
    df = frame(rows, index, rid=rid)
    try:
        fd = df.fatigue_data
    except ValueError as e:
        return str(e)
    except AttributeError as e:
        # pandas reports an exception raised while constructing an accessor as AttributeError in some versions
        if "fracture" in str(e) or "variance" in str(e):
            return str(e)
        raise
    out = []
    for f in (fd, fd.irrelevant_runouts_dropped()):
        fz, iz = f.finite_zone, f.infinite_zone
        kept = [int(q) for q, L in zip(rid, df.load) if L in set(f.load.tolist())] if f is not fd else [int(q) for q in rid]
        out.append({"finite": sorted(int(q) for q in fz["specimen"]), "infinite": sorted(int(q) for q in iz["specimen"]),
                    "t": float(f.finite_infinite_transition), "all": sorted(kept), "n": int(f.num_tests),
                    "fin_min": float(fz.load.min()) if len(fz) else None,
                    "inf_max": float(iz.load.max()) if len(iz) else None})
    return out


@subcheck(PROP, "zones", strategy=_zone_cases, quick=500, thorough=20000,
          doc="finite_zone / infinite_zone partition the tests, the transition lies between them; equivariant under scaling, "
              "permutation and relabelling of the rows (unique, repeated, string labels)")
def zones(case, ctx):
    rows, c, perm = case["rows"], case["c"], case["perm"]
    s = structure(rows)
    label_structure(ctx, s)
    n = len(rows)
    layout = case.get("layout", "sparse")
    index = row_labels(n, layout, case.get("split", 1))
    ctx.label("layout=" + layout)
    if index is not None and len(set(index)) < n:
        inf_lab = set(index[i] for i in s["infinite"])
        ctx.label("label_shared_across_zones" if any(index[i] in inf_lab for i in s["finite"]) else "repeated_labels")
    ids = list(range(n))
    z = _zones(rows, index, ids)
    zr = _zones(rows, None, ids)                                     # the same rows with a fresh RangeIndex
    zl = _zones(transformed(rows, "load", c=c), index, ids)
    zp = _zones(transformed(rows, "perm", perm=perm), None if index is None else [index[j] for j in perm], list(perm))
    alls = (z, zr, zl, zp)
    if any(isinstance(q, str) for q in alls):
        if not all(isinstance(q, str) for q in alls):
            raise Violation("FatigueData validation differs between a series and its relabelled / scaled / permuted copy: %r" % (
                [q if isinstance(q, str) else "ok" for q in alls],), bucket="zones:guard_differs")
        ctx.tolerate("FatigueData: ValueError %s" % z[:50])
        return
    for which, zz in (("", z[0]), (" (irrelevant run-outs dropped)", z[1])):
        fin, inf = zz["finite"], zz["infinite"]
        both = sorted(set(fin) & set(inf))
        if both or sorted(fin + inf) != zz["all"] or zz["n"] != len(zz["all"]):
            raise Violation("zones%s do not partition the tests (row labels %s): in both %r, in none %r, %d + %d tests in the zones, %d in the series"
                            % (which, layout, both, sorted(set(zz["all"]) - set(fin) - set(inf)), len(fin), len(inf), zz["n"]),
                            bucket="zones:partition")
        t = zz["t"]
        if (zz["inf_max"] is not None and not zz["inf_max"] <= t) or (zz["fin_min"] is not None and not t <= zz["fin_min"]):
            raise Violation("transition%s %r not between the largest infinite-zone load %r and the smallest finite-zone load %r" % (
                which, t, zz["inf_max"], zz["fin_min"]), bucket="zones:transition")
    # the split is at the highest run-out level (harness model)
    want_fin = sorted(s["finite"])
    want_inf = sorted(s["infinite"])
    if z[0]["finite"] != want_fin or z[0]["infinite"] != want_inf:
        raise Violation("zone split (row labels %s) differs from 'fractures above the highest run-out level': finite %r (expected %r)" % (
            layout, z[0]["finite"], want_fin), bucket="zones:split")
    for v in (0, 1):
        for name, other, f in (("fresh RangeIndex", zr, 1.0), ("loads x %r" % c, zl, c), ("permutation", zp, 1.0)):
            if other[v]["finite"] != z[v]["finite"] or other[v]["infinite"] != z[v]["infinite"] or other[v]["all"] != z[v]["all"]:
                raise Violation("%s changes the zones (row labels %s): finite %r -> %r" % (name, layout, z[v]["finite"], other[v]["finite"]),
                                bucket="zones:equivariance")
            if not close(other[v]["t"], z[v]["t"] * f, 1e-12):       # one addition and one halving: 1e-12 is generous
                raise Violation("%s: transition %r, expected %r" % (name, other[v]["t"], z[v]["t"] * f), bucket="zones:transition_equivariance")
    if len(s["levels"]) >= 3 and s["n_runouts"] >= 1:
        ctx.nontrivial()


# ---- likelihood function vs. the reference ------------------------------------------------------------------
@st.composite
def _ll_cases(draw, tier):
    ds = draw(_datasets(tier, mode=draw(st.sampled_from(["any", "mixed2"])), wide=True))
    t = ds["truth"]
    p = {"SD": t["SD"] * draw(st.floats(0.7, 1.4)), "k_1": t["k"] * draw(st.floats(0.5, 2.0)), "ND": t["ND"] * draw(st.floats(0.2, 5.0)),
         "TN": draw(st.floats(1.05, 20.0)), "TS": draw(st.floats(1.02, 3.0))}
    return {"rows": ds["rows"], "params": p, "c": draw(WIDE_SCALES)}


@subcheck(PROP, "likelihood_reference", strategy=_ll_cases, quick=300, thorough=12000,
          doc="Likelihood.likelihood_total/finite/infinite equal the reference log-likelihood; invariant under unit changes of data and curve")
def likelihood_reference(case, ctx):
    rows, p, c = case["rows"], case["params"], case["c"]
    s = structure(rows)
    label_structure(ctx, s)
    try:
        fd = frame(rows).fatigue_data
    except (ValueError, AttributeError) as e:
        ctx.tolerate("FatigueData: %s" % str(e)[:50])
        return
    lh = Likelihood(fd)
    # the analysers call the likelihood with numpy scalars (a Python float SD fails in `(SD > 0.0).all()`): do the same
    p = {k_: np.float64(v) for k_, v in p.items()}
    c = np.float64(c)
    cancel, qmin = 0.0, 1.0
    sS = abs(math.log10(float(p["TS"])) / _Z90)
    for i in s["infinite"]:
        if not rows[i][2]:
            q = float(sps.norm.cdf(-(math.log10(rows[i][0]) - math.log10(float(p["SD"]))) / sS))
            qmin = min(qmin, q)
            cancel += 4.0 * 2.2e-16 / max(q, 1e-300)
    if qmin < 1e-13:
        # the library forms 1 - cdf for a run-out: for an improbable run-out this cancels completely (-inf below 1e-16);
        # accuracy of the likelihood in the far tail is not what C18 is about
        ctx.label("runout_tail_region")
        return
    ab = [0.0]
    want_f, want_i = ref_ll_finite(rows, p, ab), ref_ll_infinite(rows, p, ab)
    for name, got, want in (("finite", lh.likelihood_finite(p["SD"], p["k_1"], p["ND"], p["TN"]), want_f),
                            ("infinite", lh.likelihood_infinite(p["SD"], p["TS"]), want_i),
                            ("total", lh.likelihood_total(p["SD"], p["TS"], p["k_1"], p["ND"], p["TN"]), want_f + want_i)):
        got = float(got)
        if want == -math.inf or want < -700.0:
            # the library takes log(pdf), which underflows to -inf below about -745: both must then be very small
            ctx.label("underflow_region")
            if not (got == -math.inf or got < -650.0):
                raise Violation("likelihood_%s = %r, reference %r" % (name, got, want), bucket="ll:%s" % name)
            return
        # sum of <= 60 log terms: 1e-9 relative to the sum of their magnitudes (the terms can cancel); the library forms
        # 1 - cdf for run-outs, which loses about eps/q absolutely per run-out of probability q: bounded by `cancel`
        if not abs(got - want) <= 1e-9 * (ab[0] + 1.0) + cancel:
            raise Violation("likelihood_%s = %r, reference %r" % (name, got, want), bucket="ll:%s" % name)
    # unit invariance of the likelihood itself (the reason why the ML estimates should be equivariant)
    base = float(lh.likelihood_total(p["SD"], p["TS"], p["k_1"], p["ND"], p["TN"]))
    if math.isfinite(base):
        l2 = Likelihood(frame(transformed(rows, "load", c=c)).fatigue_data)
        g2 = float(l2.likelihood_total(p["SD"] * c, p["TS"], p["k_1"], p["ND"], p["TN"]))
        l3 = Likelihood(frame(transformed(rows, "cycles", c=c)).fatigue_data)
        g3 = float(l3.likelihood_total(p["SD"], p["TS"], p["k_1"], p["ND"] * c, p["TN"]))
        for what, g in (("loads and SD", g2), ("cycles and ND", g3)):
            if not abs(g - base) <= 1e-9 * (ab[0] + 1.0) + 2 * cancel:
                raise Violation("likelihood_total changes from %r to %r when %s are multiplied by %r" % (base, g, what, c), bucket="ll:unit")
        if len(s["levels"]) >= 3 and s["n_runouts"] >= 1:
            ctx.nontrivial()


# =====================================================================================
# maximum-likelihood analysers
# =====================================================================================
# Decision recorded for expected finding F14 (DESIGN C18: "premature termination or flat ridge?").
# Evidence: 110 distinct small data sets (9-19 tests) analysed by MaxLikeFull and 500 by MaxLikeInf with every fmin call
# instrumented (warnflag, iterations), transformed runs (loads x 8, x 0.37, x 2^-7, x 0.01, x 1000; cycles x 1000, x 0.01, x 2^-7;
# row reversal), and the supremum of the likelihood computed independently in the harness (the model separates: least squares
# over all fractures for k_1 / line / TN, a concave two-parameter probit fit over the infinite zone for SD / TS).
#  (a) Whenever a run reaches the supremum it does so to <= 1e-13 (MaxLikeFull) / <= 3e-7 (MaxLikeInf), and the mapped-back
#      results of two such runs agree parameter-wise to <= 2e-6 / <= 8e-5.  There is no flat-ridge chaos among converged runs.
#  (b) MaxLikeFull misses the supremum in about 20 % of the data sets whose maximum is perfectly well defined (10 of 47; deficit
#      1e-2 .. 4.5 log-likelihood units; TS = 6e-16, 5e-35, 1.8e7, SD above every tested load ...).  In half of these runs fmin
#      reports warnflag = 0 after a few hundred iterations (Nelder-Mead stalls on five raw, badly scaled parameters from a start
#      with TS = TN**(1/k) ~ 1.005), in the other half maxfun = 1e4 is exhausted (warnflag = 1, ignored).  Which data sets fail
#      changes under row permutation and unit scaling: that is the 7.6 % / 30 % of the design probe.  -> PREMATURE TERMINATION,
#      genuine finding F14.  No input predicate separates the failing sets (it depends on the search path), so the class is
#      defined on the outcome: "the estimate's log-likelihood, evaluated by the library's own (verified) likelihood function,
#      is more than 1e-6 below the supremum".
#  (c) TS optimised although the outcomes in the infinite zone do not determine it (probit ML scatter > 1e4, or the failure
#      fraction does not increase with load, so that the likelihood has no maximum at all): MaxLikeInf exhausts its 400
#      evaluations, MaxLikeFull its 1e4, and the point where the budget ran out (TS = 1e6 .. 1e23) is returned without a warning.
#      Input predicate ts_undetermined().  Same root cause (convergence never checked): F14 for MaxLikeFull, FC18_b for MaxLikeInf
#      (for MaxLikeInf this input class is the only one in which it failed: 0 of 440 runs outside it).
#  (d) The infinite zone holds run-outs only: SD is not identified, the likelihood is flat (= 0 contribution) for every SD well
#      above the run-outs.  Equal likelihood, arbitrary SD/ND along the Basquin line: here the parameter level demands more than
#      an optimiser can give; only k_1, TN and the line lg ND + k lg SD are compared.
#  (e) Collinear finite-zone fractures (exact data, two fractures): likelihood unbounded for TN -> 1, no ML estimate exists;
#      outside the domain of the ML sub-checks (discarded).  MaxLikeFull without run-outs fixes SD = 0, for which the likelihood
#      is -inf everywhere: the search is a no-op that burns 1e4 evaluations and returns the Elementary values (covered there).
#  (f) The likelihood depends on TS only through |lg TS|, so TS and 1/TS are the same model; `__make_parameters` only removes the
#      sign, and MaxLikeFull does return TS < 1 (0.795 = 1/1.258 at an exact maximum).  In the probes a series and its transformed
#      twin always ended on the same side; should they ever differ, the parameter level reports it (bucket TS_mirror).
# Consequence: both levels stay asserted.  Level (1) |LL(mapped-back result) - LL(original result)| <= 1e-6 on the original data
# (MaxLikeInf: plus the resolution of its absolute stop criterion, see _ll_tol); level (2) rtol 1e-3 on the identified parameters.
LL_TOL = 1e-6
P_RTOL = 1e-3


def probit_fit(rows):
    """Maximum-likelihood fit of P(fracture) = Phi(a + b lg L) to the tests of the infinite zone - the harness' own fit
    (BFGS with analytic gradient on a concave function).  Returns {"b": slope per decade of load, "ll": sup of the
    log-likelihood, "ll_null": log-likelihood of the best constant probability}.  b <= 0 (failure fraction not increasing
    with load) means that the likelihood has no maximum in (SD, TS): the sup ll_null is approached for TS -> infinity.
    The ML scatter is TS = 10**(2.5631 / b)."""
    s = structure(rows)
    if not s["infinite"]:
        return None
    from scipy import optimize
    x = np.array([math.log10(rows[i][0]) for i in s["infinite"]])
    sg = np.array([1.0 if rows[i][2] else -1.0 for i in s["infinite"]])
    nf, n = int((sg > 0).sum()), len(sg)
    ll_null = sum(m * math.log(m / n) for m in (nf, n - nf) if m > 0)
    ic = infinite_cov(rows)
    if ic <= 1e-9 or x.std() == 0:
        return {"b": 0.0, "ll": ll_null, "ll_null": ll_null, "n": n}
    sd = x.std()
    xc = (x - x.mean()) / sd

    def nll(p):
        z = sg * (p[0] + p[1] * xc)
        lc = sps.norm.logcdf(z)
        g = -sg * np.exp(sps.norm.logpdf(z) - lc)
        return -lc.sum(), np.array([g.sum(), (g * xc).sum()])
    r = optimize.minimize(nll, [float(sps.norm.ppf(min(max(nf / n, 0.05), 0.95))), 0.5], jac=True, method="BFGS",
                          options={"gtol": 1e-10, "maxiter": 1000})
    return {"b": float(r.x[1] / sd), "ll": -float(r.fun), "ll_null": ll_null, "n": n}


def ref_sup_infinite(rows, ts_fixed=None):
    """sup over SD (and TS unless fixed) of the infinite-zone log-likelihood."""
    s = structure(rows)
    if not s["infinite"] or not sd_identified(rows):
        return 0.0                                   # run-outs only: every SD far above them gives probability 1
    if ts_fixed is None:
        return probit_fit(rows)["ll"]
    from scipy import optimize
    sS = abs(math.log10(ts_fixed) / _Z90)
    x = np.array([math.log10(rows[i][0]) for i in s["infinite"]])
    sg = np.array([1.0 if rows[i][2] else -1.0 for i in s["infinite"]])
    f = lambda m: -float(sps.norm.logcdf(sg * (x - m) / sS).sum())       # concave in m = lg SD
    r = optimize.minimize_scalar(f, bounds=(x.min() - 20 * sS - 1, x.max() + 20 * sS + 1), method="bounded", options={"xatol": 1e-13})
    return -float(r.fun)


def ref_sup_finite(rows):
    """sup over (k_1 >= 0, lg ND + k_1 lg SD, TN) of the finite-life log-likelihood: least squares of lg N on lg L over all
    fractures, ML variance RSS/n.  inf if the fractures are collinear."""
    pts = [(math.log10(r[0]), math.log10(r[1])) for r in rows if r[2]]
    x, y = np.array([q[0] for q in pts]), np.array([q[1] for q in pts])
    n = len(pts)
    xm, ym = x.mean(), y.mean()
    sxx = ((x - xm) ** 2).sum()
    beta = ((x - xm) * (y - ym)).sum() / sxx if sxx > 0 else 0.0
    if beta > 0:
        beta = 0.0                                   # the library folds k_1 to |k_1|: slopes of the wrong sign are not available
    rss = float(((y - ym - beta * (x - xm)) ** 2).sum())
    if rss <= 1e-20 * n:
        return math.inf
    return -0.5 * n * (math.log(2 * math.pi * rss / n) + 1.0)


TS_USABLE = 1e4


def ts_undetermined(rows, name):
    """F14 class: the analyser optimises TS, but the outcomes in the infinite zone do not determine a usable one: their probit
    ML scatter exceeds TS = 1e4, or (failure fraction not increasing with load) the likelihood has no maximum at all."""
    s = structure(rows)
    ts_free = name == "MaxLikeInf" or (s["n_runouts"] > 0 and len(s["mixed"]) >= 2)
    if not ts_free:
        return False
    pf = probit_fit(rows)
    return pf is not None and pf["b"] <= _Z90 / math.log10(TS_USABLE)


def sd_identified(rows):
    s = structure(rows)
    return any(rows[i][2] for i in s["infinite"])


def _bucket(x, edges=(1e-12, 1e-9, 1e-6, 1e-4, 1e-3, 1e-2, 1e-1)):
    if math.isnan(x):
        return "nan"
    for e in edges:
        if x <= e:
            return "<=%.0e" % e
    return ">%.0e" % edges[-1]


def _ll_tol(name, rows):
    """Likelihood-level tolerance.  1e-6 absolute (DESIGN).  MaxLikeInf's two-parameter search stops on scipy's default
    absolute criterion xatol = 1e-4 in TS itself; for a small scatter this is coarse in s = lg(TS)/2.56: relative resolution
    d = 1e-4 / (ln10 * TS * lg TS), and a relative error d in s costs up to about 2 n d^2 in log-likelihood (n tests, curvature
    of log Phi).  That resolution is added (1e-7 for TS = 1.3, 3e-6 for TS = 1.1); observed deficits are 10x smaller."""
    if name != "MaxLikeInf":
        return LL_TOL
    pf = probit_fit(rows)
    if pf is None or pf["b"] <= 0:
        return LL_TOL
    lg_ts = _Z90 / pf["b"]
    d = 1e-4 / (math.log(10.0) * 10.0 ** lg_ts * lg_ts)
    return LL_TOL + 2.0 * pf["n"] * d * d


def _fold(ts):
    return 1.0 / ts if 0 < ts < 1 else ts


def _ml_run(name, kind):
    inf_only = name == "MaxLikeInf"
    ll_of = ref_ll_infinite if inf_only else ref_loglike      # the function the analyser claims to maximise
    fid = "FC18_b" if inf_only else "F14"

    def run(case, ctx):
        full = case["rows"]
        c, perm = case.get("c"), case.get("perm")
        label_structure(ctx, structure(full))
        if collinear(full):
            ctx.skip("collinear finite zone: likelihood unbounded")
        index = index2 = None
        if kind == "perm" and case.get("keep_index"):
            index = [10 + 3 * i for i in range(len(full))]
            index2 = [index[j] for j in perm]
        rows2 = transformed(full, kind, c=c, perm=perm)
        a = analyse(name, full, index)
        rows = relevant(full)            # what the analysers maximise the likelihood of
        if len(rows) != len(full):
            ctx.label("irrelevant_runouts_dropped")
        s = structure(rows)
        if a[0] == "ValueError":
            b = analyse(name, rows2, index2)
            if b[0] != "ValueError":
                raise Violation("%s: original series rejected (%s), %s-transformed series accepted" % (name, a[1], kind), bucket="%s:guard_differs" % name)
            ctx.tolerate("%s: ValueError %s" % (name, a[1][:50]))
            return
        ra = a[1]
        # ---- the library's likelihood at its own estimate equals the reference (so that a deficit below is the search's fault)
        lh = Likelihood(frame(full, index).fatigue_data.irrelevant_runouts_dropped())
        npar = {k_: np.float64(v) for k_, v in ra.items()}
        own = float(lh.likelihood_infinite(npar["SD"], npar["TS"])) if inf_only else \
            float(lh.likelihood_total(npar["SD"], npar["TS"], npar["k_1"], npar["ND"], npar["TN"]))
        la = ll_of(rows, ra)
        if own == -math.inf and math.isfinite(la) and ra["SD"] > 0 and ra["TS"] > 0 and ra["TS"] != 1.0:
            # the library forms log(1 - cdf) for a run-out, which is -inf as soon as the run-out is > 8.2 standard deviations
            # above SD (cdf rounds to 1).  With a pearl-chain TS ~ 1.005 this already holds at the Elementary start: the
            # search cannot move and the start is returned.  Not a wrong likelihood value: an underflow of an improbable one.
            sS = abs(math.log10(ra["TS"]) / _Z90)
            zs = [((math.log10(rows[i][0]) - math.log10(ra["SD"])) / sS, rows[i][2]) for i in s["infinite"]]
            if any((z > 8.2 and not fr) or (z < -37.5 and fr) for z, fr in zs):      # ... or cdf itself underflows for a fracture
                ctx.label("library_likelihood_underflow")
                own = la
        cancel = 0.0
        if ra["SD"] > 0 and ra["TS"] > 0 and ra["TS"] != 1.0:
            # ... and loses about eps/q absolutely for a run-out of probability q = 1 - cdf (at q ~ 1e-16 the library's term is off
            # by ln 2): the same bound as in likelihood_reference; below q = 1e-13 the value cannot be verified at all
            sS_ = abs(math.log10(ra["TS"]) / _Z90)
            qs = [float(sps.norm.cdf(-math.log10(rows[i][0] / ra["SD"]) / sS_)) for i in s["infinite"] if not rows[i][2]]
            cancel = sum(4.0 * 2.2e-16 / max(q, 1e-300) for q in qs)
            if qs and min(qs) < 1e-13:
                ctx.label("runout_tail_region")
                own = la
        if math.isfinite(la) and not abs(own - la) <= 1e-6 * (1.0 + abs(la)) + cancel:
            raise Violation("%s: library likelihood %r at its estimate %r, reference %r" % (name, own, ra, la), bucket="%s:likelihood_value" % name)
        # ---- the ML estimate is not worse than the Elementary estimate it starts from --------------------------------
        el = analyse("Elementary", full, index)[1]
        start = dict(el)
        if el["k_1"] < 0 and not inf_only:
            # scatter can give the Elementary regression the wrong sign; MaxLikeFull only represents k_1 >= 0 (it folds every
            # parameter with abs()), so the point it really starts from is the Elementary estimate with |k_1|
            ctx.label("negative_elementary_slope")
            start["k_1"] = abs(el["k_1"])
        ll_start, ll_a = ref_loglike(rows, start), ref_loglike(rows, ra)
        if math.isfinite(ll_start):
            ctx.label("start_finite")
            # MaxLikeInf moves (SD, ND) along the fitted line, which leaves the finite part unchanged up to rounding
            # (|terms| ~ 10, n <= 40: 1e-9 relative is ample); Nelder-Mead never returns a point worse than its start
            if not ll_a >= ll_start - 1e-9 * (1.0 + abs(ll_start)):
                raise Violation("%s: log-likelihood of the estimate %.9g is below that of the Elementary estimate %.9g" % (name, ll_a, ll_start),
                                bucket="%s:worse_than_start" % name)
        if inf_only:
            for p in ("k_1", "TN"):
                if not close(ra[p], el[p], 1e-12):
                    raise Violation("MaxLikeInf: %s = %r differs from Elementary's %r" % (p, ra[p], el[p]), bucket="MaxLikeInf:%s" % p)
        # ---- equivariance -------------------------------------------------------------------------------------------------
        undet = ts_undetermined(rows, name)
        if undet:
            ctx.label("TS_undetermined")
            if ctx.known(fid):
                return
        tol = _ll_tol(name, rows)
        ts_free = inf_only or (s["n_runouts"] > 0 and len(s["mixed"]) >= 2)
        sup = ref_sup_infinite(rows, None if ts_free else ra["TS"]) + (0.0 if inf_only else ref_sup_finite(rows))
        ga = sup - la
        if not ga <= tol and not inf_only:
            ctx.label("supremum_missed", "deficit" + _bucket(max(ga, 0.0)))
            if ctx.known(fid):
                return              # (spares the second search, which typically burns all 1e4 evaluations)
        b = analyse(name, rows2, index2)
        if b[0] == "ValueError":
            raise Violation("%s: %s-transformed series rejected (%s), original accepted" % (name, kind, b[1]), bucket="%s:guard_differs" % name)
        back = map_back(b[1], kind, c)
        lb = ll_of(rows, back)
        gb = sup - lb
        missed = not (ga <= tol and gb <= tol)
        ctx.label("deficit" + _bucket(max(ga, gb, 0.0)))
        if missed and not inf_only:
            ctx.label("supremum_missed")
            if ctx.known(fid):
                return
        dll = abs(la - lb) if (math.isfinite(la) and math.isfinite(lb)) else (0.0 if la == lb else math.inf)
        if not dll <= tol:
            tag = "TS_undetermined" if undet else "supremum_missed" if missed else kind
            raise Violation("%s: %s%s: the result of the transformed series, mapped back, %r has log-likelihood %.9g on the original data; the "
                            "original run %r has %.9g; supremum (harness) %.9g" % (name, kind, "" if c is None else " x %r" % c,
                                                                                  {k_: back[k_] for k_ in PARAMS}, lb, {k_: ra[k_] for k_ in PARAMS}, la, sup),
                            bucket="%s:%s:likelihood" % (name, tag))
        # parameter level
        ident = sd_identified(rows)
        if not ident:
            ctx.label("SD_not_identified")
        devs = {p: (abs(back[p] - ra[p]) / max(abs(back[p]), abs(ra[p]), 1.0) if p == "k_1" else reldev(back[p], ra[p])) for p in PARAMS}
        if (ra["TS"] < 1.0) != (back["TS"] < 1.0) and close(_fold(ra["TS"]), _fold(back["TS"]), P_RTOL):
            # TS and 1/TS are the same model for the likelihood (only |lg TS| enters); the two runs ended on different sides
            ctx.label("TS_mirror")
            raise Violation("%s: %s: TS = %r for the original series but %r for the transformed one (mirror images, same likelihood)" % (
                name, kind, ra["TS"], back["TS"]), bucket="%s:TS_mirror" % name)
        if ident:
            compare = list(PARAMS)
        else:
            compare = ["k_1", "TN"]
            if ra["SD"] > 0 and back["SD"] > 0:
                # the Basquin line through the knee point stays identified
                l1 = math.log10(ra["ND"]) + ra["k_1"] * math.log10(ra["SD"])
                l2 = math.log10(back["ND"]) + back["k_1"] * math.log10(back["SD"])
                if not abs(l1 - l2) <= P_RTOL * (1.0 + abs(l1)):
                    raise Violation("%s: %s: knee points (SD=%r, ND=%r) and (SD=%r, ND=%r) are not on the same line" % (
                        name, kind, ra["SD"], ra["ND"], back["SD"], back["ND"]), bucket="%s:%s:line" % (name, kind))
        ctx.label("pdev" + _bucket(max(devs[p] for p in compare if not (inf_only and p == "ND"))))
        for p in compare:
            # MaxLikeInf reads ND off the fitted line at its SD: a relative error e in SD (its search resolves SD only through the
            # absolute xatol / ftol of fmin, 1e-4 observed in micro-units) is a relative error k_1 * e in ND
            ptol = P_RTOL * max(1.0, abs(ra["k_1"])) if (inf_only and p == "ND") else P_RTOL
            if not devs[p] <= ptol:
                raise Violation("%s: %s%s: %s = %r mapped back, original run %r (log-likelihoods agree to %.1e)" % (
                    name, kind, "" if c is None else " x %r" % c, p, back[p], ra[p], dll), bucket="%s:%s:%s" % (name, kind, p))
        if len(s["levels"]) >= 3 and s["n_runouts"] >= 1:
            ctx.nontrivial()
    return run


def _ml_cases(kind, scale, keep_index, modes, variant):
    @st.composite
    def strat(draw, tier):
        mode = draw(st.sampled_from(modes))
        ds = draw(_datasets(tier, mode=mode, variant=variant, force_runout=True))
        case = {"rows": ds["rows"], "mode": mode}
        if kind == "perm":
            n = len(ds["rows"])
            pm = draw(st.permutations(list(range(n))))
            case["perm"] = [n - 1 - j for j in pm]          # Hypothesis' simplest draw (identity) becomes the reversal
            case["keep_index"] = keep_index
        else:
            case["c"] = draw(scale)
        return case
    return strat


def _register_ml():
    v = 0
    lanes = (("load", _pow2, None, "load_pow2"), ("load", _fscale, None, "load_float"),
             ("cycles", _pow2, None, "cycles_pow2"), ("cycles", _fscale, None, "cycles_float"),
             ("perm", None, False, "perm_fresh_index"), ("perm", None, True, "perm_kept_index"))
    # MaxLikeFull costs 5-10 s per analyze(): one lane = one process, 2 cases each in the quick tier (24 cases, 48 analyses)
    for kind, scale, keep, tag in lanes:
        for modes, mtag in ((["mixed2"], "two_mixed"), (["mixed1", "any"], "other")):
            v += 1
            subcheck(PROP, "mlfull_%s_%s" % (tag, mtag), strategy=_ml_cases(kind, scale, keep, modes, v), quick=2, thorough=40,
                     doc="MaxLikeFull, %s, data class %s: likelihood level 1e-6, parameter level rtol 1e-3 where identified; ML >= Elementary start"
                         % (tag, mtag))(_ml_run("MaxLikeFull", kind))
    # MaxLikeInf: 0.2-0.5 s per analyze()
    for kind, scale, keep, tag in lanes:
        if tag in ("cycles_float", "perm_fresh_index"):
            continue        # cycles do not enter the infinite-zone likelihood; one cycle lane and one permutation lane suffice
        v += 1
        if kind == "load":
            scale = _wpow2 if scale is _pow2 else st.one_of(_wfscale, _decades)      # the wide unit range (see WIDE_SCALES)
        subcheck(PROP, "mlinf_%s" % tag, strategy=_ml_cases(kind, scale, keep, ["mixed2"], v), quick=12, thorough=300,
                 doc="MaxLikeInf, %s: infinite-zone likelihood level 1e-6, parameters rtol 1e-3; k_1, TN as Elementary; ML >= start" % tag)(
            _ml_run("MaxLikeInf", kind))


_register_ml()



# =====================================================================================
# call history: the result for a series does not depend on what was analysed before
# =====================================================================================
# The property quantifies over data sets, for each analyser: analyze() is a function of the data handed in.  State that
# survives a call (class attributes, mutable default arguments such as `fixed_parameters={}`, caches on the accessor) would
# make the result of series B depend on a series A analysed earlier in the same process.  The paths that write such state
# are the 'fixing' paths of MaxLikeFull: fewer than two mixed levels (TS pre-set from the pearl chain) and no run-outs
# (SD = 0, TS = 1 pre-set), so A is drawn from exactly these kinds.
def _same(a, b):
    if a[0] != b[0]:
        return False
    if a[0] == "ValueError":
        return a[1] == b[1]
    return all(a[1][k_] == b[1][k_] or (math.isnan(a[1][k_]) and math.isnan(b[1][k_])) for k_ in a[1]) and sorted(a[2]) == sorted(b[2])


def _history_run(names):
    def run(case, ctx):
        A, B = case["A"], case["B"]
        sB = structure(B)
        label_structure(ctx, sB)
        if "MaxLikeFull" in names and collinear(B):
            ctx.skip("collinear finite zone: likelihood unbounded")
        before = {nm: analyse(nm, B) for nm in names}
        took = False
        for nm in names:
            ra = analyse(nm, A)
            if ra[0] == "ValueError":
                ctx.tolerate("%s (series A): ValueError %s" % (nm, ra[1][:50]))
            else:
                for w in ra[2]:
                    if "less than two mixed" in w or "no runouts" in w:
                        took = True
                        ctx.label("A:" + ("TS_preset" if "less than two" in w else "SD_TS_preset"))
        after = {nm: analyse(nm, B) for nm in names}
        for nm in names:
            # same data, same process, deterministic arithmetic: the two results must be identical to the last bit
            if not _same(before[nm], after[nm]):
                raise Violation("%s: series B analysed before and after an unrelated series A gives different results: %r / %r" % (
                    nm, before[nm][1], after[nm][1]), bucket="history:%s" % nm)
            if before[nm][0] == "ValueError":
                ctx.tolerate("%s (series B): ValueError %s" % (nm, before[nm][1][:50]))
        if (took or "MaxLikeFull" not in names) and len(sB["levels"]) >= 3 and sB["n_runouts"] >= 1:
            ctx.nontrivial()
    return run


def _history_cases(a_kind, b_modes, variant):
    @st.composite
    def strat(draw, tier):
        if a_kind == "no_runouts":
            A = [r for r in draw(_datasets(tier, mode="mixed1", variant=variant))["rows"] if r[2]]
        elif a_kind == "one_mixed":
            A = draw(_datasets(tier, mode="mixed1", variant=variant, force_runout=True))["rows"]
        else:
            A = draw(_datasets(tier, mode=draw(st.sampled_from(["any", "wild", "mixed1"])), variant=variant))["rows"]
        B = draw(_datasets(tier, mode=draw(st.sampled_from(b_modes)), variant=variant + 3, force_runout=a_kind != "free"))["rows"]
        return {"A": A, "B": B}
    return strat


subcheck(PROP, "mlfull_history_one_mixed_level", strategy=_history_cases("one_mixed", ["mixed2"], 2), quick=2, thorough=30,
         doc="MaxLikeFull (and the other analysers): B, then A with one mixed level (TS pre-set path), then B again: identical results")(
    _history_run(["MaxLikeFull", "MaxLikeInf", "Elementary", "Probit"]))
subcheck(PROP, "mlfull_history_no_runouts", strategy=_history_cases("no_runouts", ["mixed2", "mixed1"], 4), quick=1, thorough=30,
         doc="MaxLikeFull (and the other analysers): B, then A without run-outs (SD, TS pre-set path), then B again: identical results")(
    _history_run(["MaxLikeFull", "MaxLikeInf", "Elementary", "Probit"]))
subcheck(PROP, "history_closed", strategy=_history_cases("free", ["any", "mixed2"], 0), quick=120, thorough=5000,
         doc="Elementary, Probit, MaxLikeInf: B, any A, B again: identical results")(
    _history_run(["Elementary", "Probit", "MaxLikeInf"]))



# =====================================================================================
# representation of the cycle numbers: integer storage == float storage
# =====================================================================================
@st.composite
def _int_cycle_cases(draw, tier):
    ds = draw(_datasets(tier, mode=draw(st.sampled_from(["any"] * 4 + ["wild", "mixed2"]))))
    # cycle counts as written down in low-cycle fatigue or in kilo-cycles / blocks: small integers
    unit = draw(st.sampled_from([1.0, 1e-3, 1e-3, 1e-4, 1e-2]))
    rows = [[r[0], float(max(1, int(round(r[1] * unit)))), r[2]] for r in ds["rows"]]
    dt = draw(st.sampled_from(["int64", "Int64", "int32", "uint32"]))
    c = 2.0 ** draw(st.integers(1, 9))
    if dt in ("int32", "uint32") and max(r[1] for r in rows) * c >= 2.0 ** 31:
        dt = "int64"                    # 32-bit counters cannot hold these numbers
    return {"rows": rows, "dtype": dt, "c": c, "unit": unit}


@subcheck(PROP, "closed_int_cycles", strategy=_int_cycle_cases, quick=300, thorough=12000,
          doc="Elementary, Probit, MaxLikeInf: integer-typed cycle column (int64, Int64, int32, uint32; small counts) gives the result of "
              "the same numbers stored as float64 (rtol 1e-9), and cycles x 2^e (still integers) -> ND x 2^e, rest unchanged")
def closed_int_cycles(case, ctx):
    rows, dt, c = case["rows"], case["dtype"], case["c"]
    s = structure(rows)
    label_structure(ctx, s)
    small = min(r[1] for r in rows if r[2]) if s["n_fractures"] else 0
    ctx.label("dtype=" + dt, "min_cycles" + ("<100" if small < 100 else "<1e4" if small < 1e4 else ">=1e4"))
    rows_c = transformed(rows, "cycles", c=c)
    names = ["Elementary", "Probit"] + (["MaxLikeInf"] if len(s["mixed"]) >= 2 and len(rows) <= 16 else [])
    ok_all = True
    # FC18_d: nullable Int64 cycles and an empty finite zone (every fracture at or below the highest run-out level):
    # Elementary._raise_if_no_cycle_variance_in_finite_zone compares max() == min() of an empty column, which is pd.NA for the
    # nullable dtype (NaN == NaN -> False for float64 / int64): TypeError instead of the documented warning + NaN curve
    if dt == "Int64" and not structure(relevant(rows))["finite"] and s["n_fractures"] > 0:
        ctx.label("FC18_d_class")
        if ctx.known("FC18_d"):
            return
    for name in names:
        fl = analyse(name, rows, want_estimator=True)
        it = analyse(name, rows, want_estimator=True, cycles_dtype=dt)
        ic = analyse(name, rows_c, want_estimator=True, cycles_dtype=dt)
        if fl[0] == "ValueError" or it[0] == "ValueError" or ic[0] == "ValueError":
            if not (fl[0] == it[0] == ic[0]):
                raise Violation("%s: float64 cycles -> %s, %s cycles -> %s, %s cycles x %r -> %s" % (
                    name, fl[1] if fl[0] == "ValueError" else "result", dt, it[1] if it[0] == "ValueError" else "result",
                    dt, c, ic[1] if ic[0] == "ValueError" else "result"), bucket="int_cycles:guard_differs")
            ctx.tolerate("%s: ValueError %s" % (name, fl[1][:50]))
            ok_all = False
            continue
        if sorted(fl[2]) != sorted(it[2]):
            raise Violation("%s: warnings differ between float64 and %s cycles: %r / %r" % (name, dt, fl[2], it[2]), bucket="int_cycles:warnings")
        # MaxLikeInf's SD/TS do not depend on the cycles at all, its k_1/TN are Elementary's: everything is closed-form in the cycles
        for p in PARAMS:
            if not close(it[1][p], fl[1][p], RTOL):
                raise Violation("%s: %s = %r with the cycles stored as %s, %r with the same numbers as float64" % (name, p, it[1][p], dt, fl[1][p]),
                                bucket="int_cycles:storage:%s" % p)
        if fl[3] and it[3]:
            a_, b_ = fl[3]["normed_cycles"], it[3]["normed_cycles"]
            if len(a_) != len(b_) or any(not close(x, y, 1e-9 * max(1.0, abs(fl[1]["k_1"]))) for x, y in zip(a_, b_)):
                raise Violation("%s: pearl chain normed_cycles %r with %s cycles, %r with float64" % (name, b_[:4], dt, a_[:4]),
                                bucket="int_cycles:storage:normed_cycles")
        want = _expected(it[1], "cycles", c)
        skip = set()
        if s["n_runouts"] == 0 and (math.isinf(it[1]["ND"]) or math.isinf(ic[1]["ND"])):
            skip.add("ND")          # FC18_a overflow class, see _compare_closed
        if name == "Probit" and s["n_runouts"] > 0 and (probit_conditioning(rows) or 1.0) < 0.01:
            skip |= {"TS", "SD", "ND"}
        if math.isfinite(it[1]["k_1"]) and abs(it[1]["k_1"]) < 0.05:
            skip.add("TS")
        if collinear(rows):
            skip |= {"TN", "TS"}    # zero-variance pearl chain: covered by exact_recovery / closed_cycle_scale
        for p in PARAMS:
            if p not in skip and not close(ic[1][p], want[p], RTOL):
                raise Violation("%s: %s cycles x %r: %s = %r, expected %r (original series: %r)" % (name, dt, c, p, ic[1][p], want[p], it[1][p]),
                                bucket="int_cycles:scale:%s" % p)
        ok_all = ok_all and all(math.isfinite(it[1][p]) for p in PARAMS)
    if ok_all and len(s["levels"]) >= 3 and s["n_runouts"] >= 1:
        ctx.nontrivial()


# =====================================================================================
# history on ONE FatigueData object: analyse, move the transition, analyse again == fresh object with that transition
# =====================================================================================
@st.composite
def _transition_cases(draw, tier):
    ds = draw(_datasets(tier, mode=draw(st.sampled_from(["any"] * 3 + ["wild", "mixed2"]))))
    lv = sorted(set(r[0] for r in ds["rows"]))
    i = draw(st.integers(0, len(lv) - 1))
    how = draw(st.sampled_from(["between", "between", "on_level", "below_all", "above_all"]))
    if how == "between" and i + 1 < len(lv):
        x = 0.5 * (lv[i] + lv[i + 1])
    elif how == "below_all":
        x = 0.5 * lv[0]
    elif how == "above_all":
        x = 1.5 * lv[-1]
    else:
        x = lv[i]
    return {"rows": ds["rows"], "x": x, "op": draw(st.sampled_from(["set", "set", "set", "conservative"])),
            "first": draw(st.sampled_from(["Elementary", "Probit", "zones_only"]))}


def _run_on(fd, name):
    with warnings.catch_warnings(record=True) as wl:
        warnings.simplefilter("always")
        try:
            res = ANALYSERS[name](fd).analyze()
        except ValueError as e:
            return "ValueError", str(e), []
    return "ok", {k_: float(res[k_]) for k_ in PARAMS}, sorted(str(w.message)[:60] for w in wl if issubclass(w.category, UserWarning))


def _zone_rows(fd):
    return (sorted(fd.finite_zone.index.tolist()), sorted(fd.infinite_zone.index.tolist()), float(fd.finite_infinite_transition))


@subcheck(PROP, "history_transition", strategy=_transition_cases, quick=300, thorough=12000,
          doc="one FatigueData object: analyse with the automatic transition, then set_finite_infinite_transition(x) / "
              "conservative_finite_infinite_transition(), analyse again: identical to a fresh object with the same transition")
def history_transition(case, ctx):
    rows, x, op = case["rows"], case["x"], case["op"]
    s = structure(rows)
    label_structure(ctx, s)
    ctx.label("op=" + op, "first=" + case["first"])

    def move(fd):
        return fd.set_finite_infinite_transition(x) if op == "set" else fd.conservative_finite_infinite_transition()
    try:
        used = frame(rows).fatigue_data
        fresh = frame(rows).fatigue_data
    except (ValueError, AttributeError) as e:
        ctx.tolerate("FatigueData: %s" % str(e)[:50])
        return
    # first look with the automatic transition
    z0 = _zone_rows(used)
    if case["first"] != "zones_only":
        _run_on(used, case["first"])
    move(used)
    move(fresh)
    zu, zf = _zone_rows(used), _zone_rows(fresh)
    if zu != zf:
        raise Violation("zones after %s on a FatigueData object that was used before differ from a fresh object: %r / %r" % (op, zu, zf),
                        bucket="history_transition:zones")
    changed = zu[0] != z0[0]
    ctx.label("finite_zone_changed" if changed else "finite_zone_same")
    # FC18_c: no run-outs and a user-set transition that leaves fewer than two fracture levels above it (but two or more
    # levels below): Probit.__probit_analysis calls _transition_cycles() although the slope fit was skipped -> AttributeError
    above = set(r[0] for r in rows if r[2] and r[0] > x)
    below = set(r[0] for r in rows if r[0] <= x)
    probit_crash = op == "set" and s["n_runouts"] == 0 and len(above) < 2 and len(below) >= 2
    for name in ("Elementary", "Probit"):
        if name == "Probit" and probit_crash:
            ctx.label("FC18_c_class")
            if ctx.known("FC18_c"):
                continue
        ru, rf = _run_on(used, name), _run_on(fresh, name)
        same = ru[0] == rf[0] and ru[2] == rf[2] and (ru[1] == rf[1] if ru[0] == "ValueError" else
                                                     all(ru[1][k_] == rf[1][k_] or (math.isnan(ru[1][k_]) and math.isnan(rf[1][k_])) for k_ in PARAMS))
        if not same:
            raise Violation("%s after %s(%r) on a FatigueData object that was analysed before: %r; fresh object with the same transition: %r" % (
                name, op, x, ru[1], rf[1]), bucket="history_transition:%s" % name)
        if ru[0] == "ValueError":
            ctx.tolerate("%s: ValueError %s" % (name, ru[1][:50]))
    if changed and len(s["levels"]) >= 3 and s["n_runouts"] >= 1:
        ctx.nontrivial()


# the expensive lanes are scheduled first (the framework starts tasks in registration order)
def _expensive_first():
    from ..core import REGISTRY
    subs = REGISTRY[PROP]
    for n in sorted(subs, key=lambda n: 0 if n.startswith("mlfull") else 1 if n.startswith("mlinf") else 2):
        subs[n] = subs.pop(n)


_expensive_first()
