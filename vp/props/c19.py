"""C19 - mesh operators are exact on linear fields and respect mesh connectivity.

Clauses (one sub-check each):
  gradient_3d_linear     df.gradient_3D.gradient_of : shape-function gradient of g.x + c is g at every node
  gradient_lsq_linear    df.gradient.gradient_of    : least-squares gradient of g.x + c is g at every node
  surface_block          df.surface_3D.is_at_surface: flags == nodes on the boundary of a brick block mesh
  mapping_same_points    df.meshmapper.process      : mapping a nodal field onto (a selection of) its own points returns it
  mapping_linear         df.meshmapper.process      : a linear field mapped onto interior points gives the linear values
  mapping_held_accessor  df.meshmapper (held)       : results do not depend on what the accessor object mapped before
  hotspot_components     df.hotspot.calc            : labelled set, connected components, numbering by descending peak

Oracles are closed forms (g, the grid index of a node, g.p + c) or the union-find model in vp/refs/hotspot_ref.py.
"""

import math
import os
import warnings

# OpenBLAS starts one spinning thread per core in every worker; on a loaded machine the tiny LAPACK calls behind
# scipy.interpolate.griddata / np.linalg then cost seconds instead of microseconds.  One thread is all these sizes need.
os.environ.setdefault("OPENBLAS_NUM_THREADS", "1")
os.environ.setdefault("OMP_NUM_THREADS", "1")

import numpy as np
import pandas as pd
from hypothesis import strategies as st

from ..core import Violation, subcheck, nontrivial_rule, assumptions
from ..gen import meshes as gm
from ..refs import hotspot_ref as href

PROP = "C19"

nontrivial_rule(PROP, "Non-trivial (gradients, surface, mesh mapping): the node/element numbering is not 1..N in row order "
                      "(offset, gaps, permuted ids, shuffled or interleaved rows) or the geometry is not the unit grid "
                      "(perturbed nodes or an affine map), or the source of a mapping is a point cloud; additionally for the surface clause the block has an interior node or "
                      ">= 2 cells, for the linear mapping clause >= 1 target point is no source point; every call-history case (two different sources) counts.  Hot spot: >= 2 table rows "
                      "and at least one row below the threshold or >= 2 hot spots.")
assumptions(PROP, [
    "block meshes of 1..3 cells per direction (bricks) resp. <= 8 cells split into 5 or 6 tetrahedra, or mixed (per cell a brick "
    "or its tetrahedra, both element types present, either type may carry the lowest element id; nodes are shared, faces between a "
    "brick and tetrahedra do not match, which neither gradient operator looks at); node displacement <= 0.15 cell "
    "sizes per component (0.2 admits singular corner Jacobians, which the property excludes as degenerate), affine maps with "
    "stretch ratio <= 16 and shear <= 0.25",
    "gradient tolerance 1e-11 * max|f| / (shortest node distance in an element): the operators difference nodal values, so the "
    "rounding of f (2e-16 max|f|) is amplified by 1/h and by the conditioning of the element (bounded by the generator); "
    "largest error observed over 500 generated meshes: 2.4e-15 of that scale",
    "gradient_3D is given element rows in the documented node order (bricks: bottom face counter-clockwise, then top face); "
    "rows of different elements may be interleaved as long as the relative order within an element is kept",
    "mesh mapping: the sources live on a grid of 1/64 cell size (node displacements and cloud offsets are exactly 0 or >= 1/64): "
    "barycentric interpolation in a simplex of flatness d has rounding error eps/d for any implementation, so nearly flat Delaunay "
    "simplices (a node 1e-9 off the plane of its neighbours gave 1.5e-8 max|v|) are a conditioning matter outside the clause; with "
    "the grid d >= ~1e-3",
    "surface: F19_b excuses only a missed surface flag at a node where the true corner angles leave the sphere open but the largest "
    "node triples of the bricks (Surface3D's stand-in for the corner angle, exact for convex corners only) fill it; computed "
    "independently with the Van Oosterom-Strackee formula",
    "mesh mapping: nodal fields only (one value per coordinate); tolerance 1e-9 * max|value| (barycentric weights carry the "
    "rounding error eps * cond(simplex); largest error observed over 3000 generated cases: 3e-14 of that scale); interior target points are convex combinations of all nodes of one element / of a spanning simplex plus further points, every weight >= 1/43",
    "call history (mapping_held_accessor): two sources with equal index, different coordinates and values, histories ab/aba/bab/aab "
    "through one accessor object; held result == fresh-accessor result (same NaN pattern, values within 1e-9 * max|value|) and the "
    "closed-form same-points oracle on the held result",
    "hot spot: the threshold is the float product limit_frac * max exactly as the docstring states it (>=); value rows are unique "
    "(node_id, element_id) pairs; artefact_threshold is not exercised",
])

warnings.filterwarnings("ignore")


_SINGLE_THREADED = set()


def _pylife():
    pid = os.getpid()
    if pid not in _SINGLE_THREADED:        # once per (forked) worker: numpy may have been loaded before this module
        _SINGLE_THREADED.add(pid)
        try:
            import threadpoolctl
            threadpoolctl.threadpool_limits(limits=1)
        except Exception:  # noqa  (performance aid only)
            pass
    import pylife.mesh  # noqa: F401  registers mesh / plain_mesh
    import pylife.mesh.gradient  # noqa: F401
    import pylife.mesh.hotspot  # noqa: F401
    import pylife.mesh.meshmapping  # noqa: F401
    import pylife.mesh.surface  # noqa: F401


def _index_names(levels):
    return ["node_id", "element_id"] if levels == "ne" else ["element_id", "node_id"]


def _frame(case, columns=None):
    """The mesh DataFrame of a mesh case plus the list of rows (dicts) it was built from."""
    rows = gm.mesh_rows(case)
    data = {"node_id": [r["node_id"] for r in rows], "element_id": [r["element_id"] for r in rows],
            "x": [r["x"] for r in rows], "y": [r["y"] for r in rows], "z": [r["z"] for r in rows]}
    for k, fn in (columns or {}).items():
        data[k] = [fn(r) for r in rows]
    df = pd.DataFrame(data).set_index(_index_names(case["levels"]))
    return df, rows


def _mesh_labels(case, ctx):
    ctx.label("kind:" + case["kind"], "rows:" + case["rows"]["mode"], "levels:" + case["levels"],
              "node_" + gm.id_class(case["nid"]), "elem_" + gm.id_class(case["eid"]),
              "cells:%d" % (case["n"][0] * case["n"][1] * case["n"][2]))
    if case["rows"]["mode"] != "blocks" and gm.is_interleaved(case):
        ctx.label("rows_really_interleaved")
    if case["kind"] == "mixed":
        con = gm.elements_of(case)
        first = min(range(len(con)), key=lambda e: case["eid"][e])
        ctx.label("mixed_lowest_element_id_is_" + ("brick" if len(con[first]) == 8 else "tetrahedron"))
    if case.get("pert"):
        ctx.label("perturbed")
    if case["A"] != [[1.0, 0.0, 0.0], [0.0, 1.0, 0.0], [0.0, 0.0, 1.0]]:
        ctx.label("affine_map")


def _field(case):
    """f(p) = g . p + c with c = c_rel * |g|_inf * (largest |coordinate|): c is of the size of g . x, so the
    field is not dominated by a constant that would cancel in every difference."""
    g = case["field"]["g"]
    xyz = gm.coordinates(case)
    size = max(max(abs(v) for v in p) for p in xyz)
    c = case["field"]["c_rel"] * max(abs(v) for v in g) * size
    return g, c


def _check_gradient(res, case, key, g, tol, what):
    cols = ["d%s_dx" % key, "d%s_dy" % key, "d%s_dz" % key]
    if not isinstance(res, pd.DataFrame) or list(res.columns) != cols:
        raise Violation("%s: result columns %r, documented %r" % (what, list(getattr(res, "columns", [])), cols), bucket=what + ":columns")
    if list(res.index.names) != ["node_id"]:
        raise Violation("%s: result index names %r, documented 'node_id'" % (what, list(res.index.names)), bucket=what + ":index_name")
    got_ids = [int(i) for i in res.index]
    if sorted(got_ids) != sorted(case["nid"]):
        raise Violation("%s: result index %r is not the set of node ids %r" % (what, sorted(got_ids)[:40], sorted(case["nid"])[:40]),
                        bucket=what + ":index_set")
    arr = res.to_numpy(dtype=float)
    worst, where = 0.0, None
    for i, nid in enumerate(got_ids):
        for k in range(3):
            e = abs(arr[i, k] - g[k])
            if not (e <= worst):        # also catches NaN
                worst, where = e, (nid, k, float(arr[i, k]))
    if not (worst <= tol):
        nid, k, val = where
        raise Violation("%s: d%s/d%s at node %d is %r, the field's constant gradient component is %r (error %.3g, tolerance %.3g)"
                        % (what, key, "xyz"[k], nid, val, g[k], worst, tol), bucket=what + ":value")


def _grad_tol(case, g, c):
    xyz = gm.coordinates(case)
    fmax = max(abs(g[0] * p[0] + g[1] * p[1] + g[2] * p[2] + c) for p in xyz)
    return 1e-11 * fmax / gm.min_edge(case)


@st.composite
def _gradient_cases(draw, tier, row_modes):
    big = tier != "quick"
    # "mixed": bricks and tetrahedra in one table (the gradient_3D docstring: "It also works for mixed meshes")
    kind = draw(st.sampled_from(["hex", "mixed", "tet5", "hex", "tet6", "mixed"]))
    mesh = draw(gm.block_meshes(kinds=(kind,), row_modes=row_modes,
                                max_cells=(27 if kind == "hex" else 8) if not big else (27 if kind == "hex" else 12)))
    g = draw(gm.linear_fields())
    mesh["field"] = {"g": g["g"], "c_rel": draw(st.sampled_from([0.0, 0.0, 0.5, -1.0, 2.0]))}
    mesh["key"] = draw(st.sampled_from(["f", "mises", "S11"]))
    return mesh


def _gradient_frame(case):
    g, c = _field(case)
    key = case["key"]
    df, rows = _frame(case, {key: lambda r: g[0] * r["x"] + g[1] * r["y"] + g[2] * r["z"] + c})
    return df, g, c, key


# ------------------------------------------------------------------------------------------ gradient_3D
@subcheck(PROP, "gradient_3d_linear", strategy=lambda tier: _gradient_cases(tier, ("blocks", "blocks", "interleaved")),
          quick=320, thorough=10000,
          doc="gradient_3D.gradient_of(linear field) == g at every node, result indexed by exactly the node ids")
def gradient_3d_linear(case, ctx):
    _pylife()
    _mesh_labels(case, ctx)
    df, g, c, key = _gradient_frame(case)
    if not (gm.geometry_is_plain(case) and gm.numbering_is_plain(case)):
        ctx.nontrivial()
    res = df.gradient_3D.gradient_of(key)
    _check_gradient(res, case, key, g, _grad_tol(case, g, c), "gradient_3D")


# ------------------------------------------------------------------------------------------ gradient (least squares)
def f10_class(case):
    """Input class of F10: the sorted node ids are not 1..N (Gradient._calc_lst_sqr looks a neighbour up at row id-1)."""
    return not gm.contiguous_from_one(case["nid"])


@subcheck(PROP, "gradient_lsq_linear", strategy=lambda tier: _gradient_cases(tier, ("blocks", "interleaved", "shuffled")),
          quick=640, thorough=20000,
          doc="gradient.gradient_of(linear field) == g at every node (plane fit through the neighbours is exact)")
def gradient_lsq_linear(case, ctx):
    _pylife()
    _mesh_labels(case, ctx)
    df, g, c, key = _gradient_frame(case)
    if f10_class(case) and ctx.known("F10"):
        return
    if not (gm.geometry_is_plain(case) and gm.numbering_is_plain(case)):
        ctx.nontrivial()
    res = df.gradient.gradient_of(key)
    _check_gradient(res, case, key, g, _grad_tol(case, g, c), "gradient")


# ------------------------------------------------------------------------------------------ surface
_HEX_EDGES = {0: (1, 3, 4), 1: (0, 2, 5), 2: (1, 3, 6), 3: (0, 2, 7), 4: (0, 5, 7), 5: (1, 4, 6), 6: (2, 5, 7), 7: (3, 4, 6)}


def _solid_angle(a, b, c):
    """Solid angle of the trihedral cone spanned by a, b, c (Van Oosterom / Strackee)."""
    na, nb, nc = (math.sqrt(sum(x * x for x in v)) for v in (a, b, c))
    dot = lambda u, v: sum(x * y for x, y in zip(u, v))     # noqa: E731
    det = (a[0] * (b[1] * c[2] - b[2] * c[1]) - a[1] * (b[0] * c[2] - b[2] * c[0]) + a[2] * (b[0] * c[1] - b[1] * c[0]))
    return 2.0 * math.atan2(abs(det), na * nb * nc + dot(a, b) * nc + dot(a, c) * nb + dot(b, c) * na)


def corner_angle_sums(case, g):
    """For grid node g: (sum over its bricks of the solid angle of the corner = cone of the three brick edges meeting there,
    sum over its bricks of the LARGEST solid angle any three other nodes of the brick span)."""
    import itertools
    xyz = gm.coordinates(case)
    s_edges = s_max = 0.0
    for el in gm.elements_of(case):
        if g not in el:
            continue
        a = el.index(g)
        vec = {k: [xyz[el[k]][d] - xyz[g][d] for d in range(3)] for k in range(8) if k != a}
        s_edges += _solid_angle(*[vec[k] for k in _HEX_EDGES[a]])
        s_max += max(_solid_angle(vec[i], vec[j], vec[k]) for i, j, k in itertools.combinations(sorted(vec), 3))
    return s_edges, s_max


def f19b_class(case, g):
    """Input class of F19_b: a boundary node whose true corner angles leave part of the sphere free (sum < 4 pi - 1e-5, so it
    is at the surface by Surface3D's own criterion), but some brick corner there is not convex (warped faces: another node of
    the brick lies outside the cone of the three edges) and the largest node triples - which Surface3D takes for the corner
    angle - add up to the full sphere."""
    s_edges, s_max = corner_angle_sums(case, g)
    full = 4.0 * math.pi - 1e-5
    return s_edges < full - 1e-6 and s_max >= full - 1e-6
@subcheck(PROP, "surface_block",
          strategy=lambda tier: gm.block_meshes(kinds=("hex",), row_modes=("blocks", "interleaved", "shuffled"),
                                                want_interior=True, nmax=3 if tier == "quick" else 4,
                                                max_cells=27 if tier == "quick" else 48),
          quick=480, thorough=10000,
          doc="surface_3D.is_at_surface() is True exactly for the rows whose node has a grid index on the block boundary")
def surface_block(case, ctx):
    _pylife()
    _mesh_labels(case, ctx)
    df, rows = _frame(case)
    bnd = gm.on_boundary(case["n"])
    n_int = sum(1 for b in bnd if not b)
    ctx.label("interior_nodes:%s" % (n_int if n_int < 2 else "2+"))
    cells = case["n"][0] * case["n"][1] * case["n"][2]
    if (n_int or cells >= 2) and not (gm.geometry_is_plain(case) and gm.numbering_is_plain(case)):
        ctx.nontrivial()
    res = df.surface_3D.is_at_surface()
    if not isinstance(res, pd.Series):
        raise Violation("is_at_surface returned %s, documented a Series" % type(res).__name__, bucket="surface:type")
    names = list(res.index.names)
    if sorted(names) != ["element_id", "node_id"]:
        raise Violation("is_at_surface index names %r" % names, bucket="surface:index_names")
    got = {}
    ni, ei = names.index("node_id"), names.index("element_id")
    for idx, v in zip(res.index, res.to_numpy()):
        k = (int(idx[ni]), int(idx[ei]))
        if k in got:
            raise Violation("is_at_surface has two rows for node %d / element %d" % k, bucket="surface:duplicate_row")
        got[k] = v
    want = {(r["node_id"], r["element_id"]): bnd[r["gnode"]] for r in rows}
    if set(got) != set(want):
        raise Violation("is_at_surface rows differ from the mesh rows: missing %r, extra %r"
                        % (sorted(set(want) - set(got))[:5], sorted(set(got) - set(want))[:5]), bucket="surface:index_set")
    for k in sorted(want):
        v = got[k]
        if isinstance(v, float) and math.isnan(v) or bool(v) != want[k]:
            g = next(r["gnode"] for r in rows if r["node_id"] == k[0])
            if want[k] and not (isinstance(v, float) and math.isnan(v)) and f19b_class(case, g):
                ctx.label("missed_surface_at_non_convex_corner")
                if ctx.known("F19_b"):
                    continue
            raise Violation("is_at_surface flags node %d (grid index %r of block %r) in element %d as %r, expected %r"
                            % (k[0], gm.grid_nodes(case["n"])[g], case["n"], k[1], v, want[k]),
                            bucket="surface:flag_%s" % ("missed_surface" if want[k] else "false_surface"))


# ------------------------------------------------------------------------------------------ mesh mapping
# Conditioning of the mapping clauses.  Linear interpolation evaluates barycentric weights in a Delaunay simplex; for a simplex
# of flatness d (height / extent) their rounding error is eps / d, whatever the implementation.  A node displaced by 1e-9 cell
# sizes out of the plane of its neighbours makes d ~ 1e-9 and an error of 1.5e-8 max|v| (seen in the first thorough run) - that
# is the conditioning of the input, not a property of the mapper.  The sources of the mapping clauses therefore live on a grid of
# 1/64 cell size: every displacement / offset component is exactly 0 or >= 1/64, so d >= 1/64 / (stretch ratio 16) ~ 1e-3 and
# the error stays below ~1e-12 max|v|, three orders under the stated tolerance 1e-9.
MAP_STEP = 1.0 / 64.0


@st.composite
def _clouds(draw, dim, extra=None):
    """Point cloud spanning the space: distinct cells of a 4^dim lattice, one point per cell at an offset in [0.1, 0.9]
    (minimum distance 0.2); the first dim+1 points sit in the corner cells (0,0,..), (3,0,..), (0,3,..), .. and therefore
    always form a proper simplex (a flat cloud is no mesh of that dimension: Qhull rejects it).  Then an affine map."""
    ncell = 4 ** dim
    anchors = [0] + [3 * 4 ** d for d in range(dim)]        # cells (0,..), (3,0,..), (0,3,..), ...: always a proper simplex
    rest = [c for c in range(ncell) if c not in anchors]
    m = draw(st.integers(1, min(20, len(rest)))) if extra is None else extra
    cells = anchors + draw(st.lists(st.sampled_from(rest), min_size=m, max_size=m, unique=True))
    pts = []
    for cidx in cells:
        p = []
        for d in range(dim):
            p.append((cidx // 4 ** d) % 4 + draw(st.integers(7, 57)) * MAP_STEP)      # offset 0.109 .. 0.891 in steps of 1/64
        pts.append(p)
    if dim == 3:
        aff = draw(gm.affine_maps())
        A, t = aff["A"], aff["t"]
    else:
        # 2-D: rotation by one angle times (positive diagonal + small shear), never singular
        s = draw(st.sampled_from([1.0, 1.0, 1e-3, 25.0]))
        d = [draw(st.floats(0.25, 4.0)) for _ in range(2)]
        e = [draw(st.floats(-0.25, 0.25)) * min(d) for _ in range(2)]
        a = draw(st.one_of(st.just(0.0), st.floats(-math.pi, math.pi)))
        M = [[d[0], e[0]], [e[1], d[1]]]
        R = [[math.cos(a), -math.sin(a)], [math.sin(a), math.cos(a)]]
        A = [[s * sum(R[r][k] * M[k][c] for k in range(2)) for c in range(2)] for r in range(2)]
        t = [s * draw(st.floats(-10.0, 10.0)) for _ in range(2)]
    return [[sum(A[r][k] * p[k] for k in range(dim)) + t[r] for r in range(dim)] for p in pts]


_values = st.one_of(st.integers(-1000, 1000).map(float), st.floats(-1e6, 1e6).map(lambda v: round(v, 4) + 0.0))


@st.composite
def _mapping_sources(draw, tier):
    """Either a block mesh (table with one row per node and element, so coordinates repeat) or a point cloud."""
    src = draw(st.sampled_from(["mesh", "mesh", "cloud3", "cloud2"]))
    if src == "mesh":
        mesh = draw(gm.block_meshes(kinds=("hex", "tet5", "tet6"), row_modes=("blocks", "shuffled"), max_cells=12,
                                    pert_step=MAP_STEP))
        return {"src": "mesh", "mesh": mesh, "npoints": gm.node_count(mesh["n"])}
    dim = 3 if src == "cloud3" else 2
    pts = draw(_clouds(dim))
    ids = draw(gm.id_maps(len(pts)))
    return {"src": src, "points": pts, "ids": ids, "npoints": len(pts)}


def _source_frame(case, value_of_point):
    """(from_df, list of source rows as (point number, coords))."""
    if case["src"] == "mesh":
        mesh = case["mesh"]
        df, rows = _frame(mesh, {"val": lambda r: value_of_point(r["gnode"], [r["x"], r["y"], r["z"]])})
        return df, [(r["gnode"], [r["x"], r["y"], r["z"]]) for r in rows]
    pts = case["points"]
    dim = len(pts[0])
    data = {"x": [p[0] for p in pts], "y": [p[1] for p in pts]}
    if dim == 3:
        data["z"] = [p[2] for p in pts]
    data["val"] = [value_of_point(i, p) for i, p in enumerate(pts)]
    df = pd.DataFrame(data, index=pd.Index(case["ids"], name="node_id"))
    return df, [(i, p) for i, p in enumerate(pts)]


def _target_frame(points, index_kind):
    dim = len(points[0])
    data = {"x": [p[0] for p in points], "y": [p[1] for p in points]}
    if dim == 3:
        data["z"] = [p[2] for p in points]
    m = len(points)
    if index_kind == "range":
        idx = pd.RangeIndex(m)
    elif index_kind == "ids":
        idx = pd.Index([1000 + 7 * i for i in range(m)][::-1], name="node_id")
    else:
        idx = pd.MultiIndex.from_arrays([[5 + i // 2 for i in range(m)], [900 - i for i in range(m)]], names=["element_id", "node_id"])
    return pd.DataFrame(data, index=idx)


def _on_hull_boundary(source_points):
    """Predicate of F19_a: which points lie on the boundary of the convex hull of the source points?
    (facet equations of scipy.spatial.ConvexHull; a point counts as on the boundary within 1e-9 of the cloud's extent.)"""
    from scipy.spatial import ConvexHull
    P = np.unique(np.asarray(source_points, dtype=float), axis=0)
    hull = ConvexHull(P)
    extent = float(np.max(P.max(axis=0) - P.min(axis=0)))
    normals, offsets = hull.equations[:, :-1], hull.equations[:, -1]

    def on_boundary(p):
        return float(np.max(normals @ np.asarray(p, dtype=float) + offsets)) >= -1e-9 * extent
    return on_boundary


def _check_mapped(res, target, want, tol, what, ctx, source_points):
    if not isinstance(res, pd.DataFrame) or list(res.columns) != ["val"]:
        raise Violation("%s: result columns %r, expected ['val']" % (what, list(getattr(res, "columns", []))), bucket=what + ":columns")
    if not res.index.equals(target.index):
        raise Violation("%s: result index differs from the index of the mesh mapped onto" % what, bucket=what + ":index")
    got = res["val"].to_numpy(dtype=float)
    on_boundary = None
    for i, (a, b) in enumerate(zip(got, want)):
        if not (abs(a - b) <= tol):
            p = [float(v) for v in target.iloc[i].to_numpy()]
            if a != a:
                # F19_a: a target that coincides with a source point on the hull boundary comes back as NaN ("outside")
                on_boundary = on_boundary or _on_hull_boundary(source_points)
                if on_boundary(p):
                    ctx.label("nan_at_hull_boundary_point")
                    if ctx.known("F19_a"):
                        continue
            raise Violation("%s: target point %d (%r) got %r, expected %r (tolerance %.3g)" % (what, i, p, float(a), b, tol),
                            bucket=what + (":nan" if a != a else ":value"))


@st.composite
def _same_point_cases(draw, tier):
    case = draw(_mapping_sources(tier))
    npts = case["npoints"]
    case["values"] = draw(st.lists(_values, min_size=npts, max_size=npts))
    case["select"] = draw(st.one_of(st.just("all"), st.lists(st.integers(0, 10 ** 6), min_size=1, max_size=30)))
    case["tindex"] = draw(st.sampled_from(["same", "range", "ids", "multi"]))
    return case


@subcheck(PROP, "mapping_same_points", strategy=_same_point_cases, quick=1200, thorough=30000,
          doc="meshmapper.process(from_df) onto (a selection of) the points of from_df returns the nodal field")
def mapping_same_points(case, ctx):
    _pylife()
    vals = case["values"]
    from_df, srows = _source_frame(case, lambda i, p: vals[i])
    ctx.label("src:" + case["src"], "target_index:" + case["tindex"], "select:" + ("all" if case["select"] == "all" else "subset"))
    if case["src"] == "mesh":
        _mesh_labels(case["mesh"], ctx)
    if case["select"] == "all" and case["tindex"] == "same":
        target = from_df.drop(columns=["val"])
        picked = list(range(len(srows)))
    else:
        picked = list(range(len(srows))) if case["select"] == "all" else [s % len(srows) for s in case["select"]]
        kind = case["tindex"] if case["tindex"] != "same" else "ids"
        target = _target_frame([srows[r][1] for r in picked], kind)
    want = [vals[srows[r][0]] for r in picked]
    if case["src"] != "mesh" or not (gm.geometry_is_plain(case["mesh"]) and gm.numbering_is_plain(case["mesh"])):
        ctx.nontrivial()
    scale = max(abs(v) for v in vals)
    res = target.meshmapper.process(from_df, "val")
    _check_mapped(res, target, want, 1e-9 * scale, "mapping_same_points", ctx, [r[1] for r in srows])


@st.composite
def _linear_cases(draw, tier):
    case = draw(_mapping_sources(tier))
    f = draw(gm.linear_fields())
    case["field"] = {"g": f["g"], "c": f["c"]}
    m = draw(st.integers(1, 12))
    targets = []
    for _ in range(m):
        if case["src"] == "mesh":
            mesh = case["mesh"]
            npe = gm.nodes_per_element(mesh["kind"])
            targets.append({"elem": draw(st.integers(0, gm.element_count(mesh["kind"], mesh["n"]) - 1)),
                            "w": draw(st.lists(st.integers(1, 6), min_size=npe, max_size=npe))})
        else:
            dim = len(case["points"][0])
            k = draw(st.integers(1, min(dim + 3, case["npoints"])))
            idx = draw(st.lists(st.integers(0, case["npoints"] - 1), min_size=k, max_size=k, unique=True))
            targets.append({"idx": idx, "w": draw(st.lists(st.integers(1, 6), min_size=k, max_size=k))})
    case["targets"] = targets
    case["also_sources"] = draw(st.lists(st.integers(0, case["npoints"] - 1), max_size=3))
    case["tindex"] = draw(st.sampled_from(["range", "ids", "multi"]))
    return case


@subcheck(PROP, "mapping_linear", strategy=_linear_cases, quick=1200, thorough=30000,
          doc="a linear field mapped onto strictly interior points (convex combinations of source points) gives g.p + c")
def mapping_linear(case, ctx):
    _pylife()
    g, c = case["field"]["g"], case["field"]["c"]
    if case["src"] == "mesh":
        coords = gm.coordinates(case["mesh"])
        con = gm.connectivity(case["mesh"]["kind"], case["mesh"]["n"])
        _mesh_labels(case["mesh"], ctx)
    else:
        coords = case["points"]
    dim = len(coords[0])

    def f(p):
        return sum(g[d] * p[d] for d in range(dim)) + c
    from_df, srows = _source_frame(case, lambda i, p: f(p))
    pts = []
    for t in case["targets"]:
        if case["src"] == "mesh":
            idx, w = con[t["elem"]], t["w"]          # all nodes of one element, every weight >= 1/48
        else:
            # the chosen points may be collinear on a shrunk cloud: weight 1 on each of the dim+1 anchor points
            # (a proper simplex by construction) keeps the target strictly inside the hull
            idx, w = list(t["idx"]) + list(range(dim + 1)), list(t["w"]) + [1] * (dim + 1)
        wsum = float(sum(w))
        pts.append([sum(wi * coords[i][d] for wi, i in zip(w, idx)) / wsum for d in range(dim)])
    for i in case["also_sources"]:
        pts.append(list(coords[i]))
    ctx.label("src:" + case["src"], "target_index:" + case["tindex"])
    ctx.nontrivial()
    target = _target_frame(pts, case["tindex"])
    want = [f(p) for p in pts]
    scale = max(abs(f(p)) for p in coords)
    res = target.meshmapper.process(from_df, "val")
    _check_mapped(res, target, want, 1e-9 * scale, "mapping_linear", ctx, coords)


# ------------------------------------------------------------------------------------------ mapping, call history
@st.composite
def _held_cases(draw, tier):
    """Two source meshes with the SAME index (same node / element ids, same row order) but different coordinates
    (a second set of node displacements and another affine map; a second cloud of as many points) and different
    nodal values, mapped one after the other through ONE held accessor of the target."""
    case = draw(_mapping_sources(tier))
    npts = case["npoints"]
    if case["src"] == "mesh":
        N = gm.node_count(case["mesh"]["n"])
        aff = draw(gm.affine_maps())
        case["geom_b"] = {"pert": draw(gm.displacements(N, MAP_STEP)), "A": aff["A"], "t": aff["t"]}
    else:
        dim = len(case["points"][0])
        case["points_b"] = draw(_clouds(dim, extra=npts - dim - 1))
    case["values_a"] = draw(st.lists(_values, min_size=npts, max_size=npts))
    case["values_b"] = draw(st.lists(_values, min_size=npts, max_size=npts))
    case["sequence"] = draw(st.sampled_from(["ab", "ab", "aba", "bab", "aab"]))
    case["target"] = draw(st.sampled_from(["points_of_b", "points_of_a", "points_of_both"]))
    case["tindex"] = draw(st.sampled_from(["range", "ids", "multi"]))
    return case


def _same_or_both_nan(x, y):
    return (x == y) or (x != x and y != y)


@subcheck(PROP, "mapping_held_accessor", strategy=_held_cases, quick=800, thorough=20000,
          doc="call history: one held target.meshmapper maps two source meshes with equal index but different coordinates in "
              "sequence; every result equals the result of a fresh accessor, and the own points of a source get its field back")
def mapping_held_accessor(case, ctx):
    _pylife()
    va, vb = case["values_a"], case["values_b"]
    if case["src"] == "mesh":
        case_a = dict(case, values=va)
        mesh_b = dict(case["mesh"], pert=case["geom_b"]["pert"], A=case["geom_b"]["A"], t=case["geom_b"]["t"])
        case_b = dict(case, mesh=mesh_b)
        _mesh_labels(case["mesh"], ctx)
    else:
        case_a = case
        case_b = dict(case, points=case["points_b"])
    src = {}
    src["a"], rows_a = _source_frame(case_a, lambda i, p: va[i])
    src["b"], rows_b = _source_frame(case_b, lambda i, p: vb[i])
    if not src["a"].index.equals(src["b"].index):
        raise AssertionError("harness: the two sources must carry the same index")
    rows = {"a": rows_a, "b": rows_b}
    vals = {"a": va, "b": vb}
    own = {"points_of_b": "b", "points_of_a": "a", "points_of_both": "ab"}[case["target"]]
    tpoints, origin = [], []            # origin: (source letter, point number) of every target point
    for letter in own:
        seen = set()
        for i, p in rows[letter]:
            if i not in seen:
                seen.add(i)
                tpoints.append(p)
                origin.append((letter, i))
    target = _target_frame(tpoints, case["tindex"])
    ctx.label("src:" + case["src"], "sequence:" + case["sequence"], "target:" + case["target"])
    ctx.nontrivial()
    scale = max(max(abs(v) for v in va), max(abs(v) for v in vb))
    mapper = target.meshmapper                       # held: the same accessor object for the whole history
    for step, letter in enumerate(case["sequence"]):
        held = mapper.process(src[letter], "val")
        fresh = target.copy().meshmapper.process(src[letter], "val")
        what = "mapping_held_accessor step %d (source %s of history %r)" % (step + 1, letter.upper(), case["sequence"])
        if not held.index.equals(target.index):
            raise Violation("%s: result index differs from the index of the mesh mapped onto" % what, bucket="held:index")
        h, f = held["val"].to_numpy(dtype=float), fresh["val"].to_numpy(dtype=float)
        for i in range(len(h)):
            if not (_same_or_both_nan(float(h[i]), float(f[i])) or abs(h[i] - f[i]) <= 1e-9 * scale):
                raise Violation("%s: target point %d (%r) got %r from the held accessor but %r from a fresh accessor"
                                % (what, i, tpoints[i], float(h[i]), float(f[i])), bucket="held:history_dependent")
        # closed form: the own points of this source get its nodal values back (F19_a: NaN at hull-boundary points)
        sel = [i for i, (l, _) in enumerate(origin) if l == letter]
        if sel:
            sub = held.iloc[sel]
            _check_mapped(sub, target.iloc[sel], [vals[letter][origin[i][1]] for i in sel], 1e-9 * scale,
                          "mapping_held_accessor", ctx, [p for _, p in rows[letter]])


# ------------------------------------------------------------------------------------------ hot spots
@st.composite
def _hotspot_cases(draw, tier):
    big = tier != "quick"
    nn = draw(st.integers(1, 14 if not big else 24))
    ne = draw(st.integers(1, 8 if not big else 14))
    nid = draw(gm.id_maps(nn))
    eid = draw(gm.id_maps(ne))
    style = draw(st.sampled_from(["sparse", "sparse", "dense"]))
    pairs = []
    if style == "sparse":
        for e in range(ne):
            k = draw(st.integers(1, min(4, nn)))
            for n in draw(st.lists(st.integers(0, nn - 1), min_size=k, max_size=k, unique=True)):
                pairs.append((n, e))
    else:
        m = draw(st.integers(1, min(30, nn * ne)))
        for p in draw(st.lists(st.integers(0, nn * ne - 1), min_size=m, max_size=m, unique=True)):
            pairs.append((p % nn, p // nn))
    pairs = list(draw(st.permutations(pairs)))
    vclass = draw(st.sampled_from(["distinct", "distinct", "ties", "nodal", "float", "nonpositive"]))
    m = len(pairs)
    if vclass == "distinct":
        vals = [float(v) for v in draw(st.lists(st.integers(1, 128), min_size=m, max_size=m, unique=True))]
    elif vclass == "ties":
        vals = [float(v) for v in draw(st.lists(st.integers(1, 6), min_size=m, max_size=m))]
    elif vclass == "nodal":
        per_node = draw(st.lists(st.integers(1, 24), min_size=nn, max_size=nn))
        vals = [float(per_node[n]) for n, _ in pairs]
    elif vclass == "float":
        vals = draw(st.lists(st.floats(1e-3, 1e3), min_size=m, max_size=m))
    else:
        vals = [float(v) for v in draw(st.lists(st.integers(-6, 0), min_size=m, max_size=m))]
    fclass = draw(st.sampled_from(["dyadic", "ratio", "ratio", "float", "one", "default"]))
    if fclass == "dyadic":
        frac = draw(st.integers(1, 16)) / 16.0
    elif fclass == "ratio":
        vmax = max(vals)
        v = vals[draw(st.integers(0, m - 1))]
        frac = v / vmax if vmax > 0 and v > 0 else 0.5
    elif fclass == "float":
        frac = draw(st.floats(0.01, 1.0))
    elif fclass == "one":
        frac = 1.0
    else:
        frac = None
    return {"rows": [[nid[n], eid[e], v] for (n, e), v in zip(pairs, vals)], "frac": frac,
            "levels": draw(st.sampled_from(["ne", "en"])), "vclass": vclass, "key": draw(st.sampled_from(["mises", "v"]))}


@subcheck(PROP, "hotspot_components", strategy=_hotspot_cases, quick=2400, thorough=80000,
          doc="hotspot.calc: labelled rows == rows >= limit_frac*max; label groups == connected components under shared node / "
              "shared element; labels 1..k by descending peak")
def hotspot_components(case, ctx):
    _pylife()
    nodes = [r[0] for r in case["rows"]]
    elems = [r[1] for r in case["rows"]]
    vals = [r[2] for r in case["rows"]]
    frac = 0.9 if case["frac"] is None else case["frac"]
    key = case["key"]
    # two-dimensional table (coordinates are required by the accessor but play no role)
    df = pd.DataFrame({"node_id": nodes, "element_id": elems, "x": [float(n % 7) for n in nodes],
                       "y": [float(n % 5) for n in nodes], key: vals}).set_index(_index_names(case["levels"]))
    comps = href.components(nodes, elems, vals, frac)
    nhot = sum(len(c[1]) for c in comps)
    ctx.label("values:" + case["vclass"], "frac:" + ("default" if case["frac"] is None else "given"),
              "hotspots:%s" % (len(comps) if len(comps) < 4 else "4+"), "levels:" + case["levels"])
    thr = href.threshold(vals, frac)
    if any(v == thr for v in vals) and frac < 1.0:
        ctx.label("row_exactly_at_threshold")
    if len(comps) >= 2 and len(set(c[0] for c in comps)) < len(comps):
        ctx.label("equal_peaks")
    # would node-only / element-only adjacency give a different partition?
    if sorted(c[1] for c in href.components(nodes, elems, vals, frac, by_elem=False)) != sorted(c[1] for c in comps):
        ctx.label("needs_element_adjacency")
    if sorted(c[1] for c in href.components(nodes, elems, vals, frac, by_node=False)) != sorted(c[1] for c in comps):
        ctx.label("needs_node_adjacency")
    if len(vals) >= 2 and (nhot < len(vals) or len(comps) >= 2):
        ctx.nontrivial()
    if case["frac"] is None:
        res = df.hotspot.calc(key)
    else:
        res = df.hotspot.calc(key, limit_frac=frac)
    if not isinstance(res, pd.Series):
        raise Violation("hotspot.calc returned %s, documented a Series" % type(res).__name__, bucket="hotspot:type")
    if not res.index.equals(df.index):
        raise Violation("hotspot.calc: result index differs from the index of the mesh", bucket="hotspot:index")
    labels = [int(v) for v in res.to_numpy()]
    bad = href.check_labels(nodes, elems, vals, frac, labels)
    if bad:
        raise Violation("hotspot.calc(limit_frac=%r): %s; labels %r" % (frac, bad[1], labels), bucket="hotspot:" + bad[0])
