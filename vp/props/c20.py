"""C20 - VMAP export followed by import returns the same mesh and fields; a failed export leaves nothing behind.

Model based: a case is a list of ``add_*`` operations (valid and failing ones) plus the mesh frames they
use, all as plain JSON.  ``run`` executes the history against a real ``VMAPExport`` on a temporary file and
against a plain-dict model; after EVERY step the file is re-opened with ``VMAPImport`` and compared with
the model (geometries, variables per state, mesh rows, coordinates, variable values, sets and set filters).

What an operation is expected to do is derived from (model state, operation) inside ``run`` - the
generator's own bookkeeping only steers the distribution.  So a history stays meaningful when a call has an
outcome the generator did not foresee (e.g. a valid mesh that is rejected because of a known defect).
"""

import os
import shutil
import tempfile

import numpy as np
import pandas as pd
from hypothesis import strategies as st

from ..core import Violation, subcheck, nontrivial_rule, assumptions

PROP = "C20"
INT32_MAX = 2 ** 31 - 1

nontrivial_rule(PROP, "Non-trivial: the history exports >= 2 geometries successfully, or has a failed call that is followed by a "
                      "successful one, or exports a mesh with mixed element types, or re-imports >= 1 variable and >= 1 set on a "
                      "mesh of >= 2 elements, or filters by a set of >= 20 members on a mesh with sparse ids and non-members.")
assumptions(PROP, [
    "a valid mesh frame is a DataFrame with a unique (element_id, node_id) MultiIndex (pylife.mesh.Mesh contract), columns x, y "
    "and optionally z, finite coordinates that are equal in all rows of one node, and element node counts from the exporter's "
    "element table: 2D 3/6/4/8, 3D 4/10/6/15/8/20; a mesh is 3D iff it has a z column that is not constant "
    "(PlainMesh.dimensions); 2D meshes come with a constant z column or without z column",
    "ids are integers in [1, 2^31-1]; a labelled class has node or element ids above int32, for which the accepted outcomes "
    "are an exception (VMAPExportError from add_geometry, ValueError from add_node_set/add_element_set) or an exact round trip",
    "columns exported at location NODE carry one value per node (equal in all rows of the node); ELEMENT_NODAL columns carry any "
    "value per row; values are any float64 incl. -0.0, subnormals, 1e300, inf and the canonical NaN, compared bit for bit "
    "(NaN == NaN)",
    "exception types of failing calls are taken from the repository's tests: duplicate geometry / variable, unknown geometry, "
    "unknown variable name without column names, not-a-subset -> KeyError; unknown name without location, location not a "
    "VariableLocations -> APIUseError; unsupported mesh, missing column -> VMAPExportError.  If several reasons apply any of their "
    "types is accepted",
    "set names are unique within a history (the importer returns sets by name); geometry / state / variable names contain no '/'",
    "VMAPImport has no close(): the harness closes the private h5py handle (imp._file.close()) after every verification, "
    "otherwise the next add_* call cannot open the file for writing",
    "an empty state / geometry group under /VMAP/VARIABLES that a failed add_variable leaves behind is NOT counted as a partial "
    "variable (the statement names geometries and variables only); it is counted as tolerated outcome",
    "the stored VMAP element type code is not observable through VMAPImport and is not asserted",
])

# documented in VMAPImport.join_variable; written down here, not imported from the code under test
KNOWN_VARS = {
    "DISPLACEMENT": (["dx", "dy", "dz"], "NODE"),
    "STRESS_CAUCHY": (["S11", "S22", "S33", "S12", "S13", "S23"], "ELEMENT_NODAL"),
    "E": (["E11", "E22", "E33", "E12", "E13", "E23"], "ELEMENT_NODAL"),
}
SUPPORTED = {2: (3, 6, 4, 8), 3: (4, 10, 6, 15, 8, 20)}
QUADRATIC = (6, 8, 10, 15, 20)


# =============================================================================================== mesh model
def _frame(ms):
    """The pandas frame of a mesh spec (None -> not a frame at all)."""
    if ms is None:
        return 5
    rows = ms["rows"]
    eids = np.array([r[0] for r in rows], dtype=np.int64)
    nids = np.array([r[1] for r in rows], dtype=np.int64)
    pos = {n: i for i, n in enumerate(ms["nodes"])}
    at = [pos[int(n)] for n in nids]
    data = {}
    for j, c in enumerate(ms["cols"]):
        data[c] = np.array([ms["xyz"][i][j] for i in at], dtype=np.float64)
    for c, vals in ms["nf"].items():
        data[c] = np.array([vals[i] for i in at], dtype=np.float64)
    for c, vals in ms["ef"].items():
        data[c] = np.array(vals, dtype=np.float64)
    idx = pd.MultiIndex.from_arrays([eids, nids], names=["element_id", "node_id"])
    df = pd.DataFrame(data, index=idx)
    if ms.get("text_col") in df.columns:
        df[ms["text_col"]] = np.array([repr(v) for v in df[ms["text_col"]]], dtype=object)   # not numeric: no valid mesh
    return df


class _Info:
    """What the harness itself knows about a mesh spec (independent of pyLife)."""

    def __init__(self, ms):
        self.is_frame = ms is not None
        self.valid, self.why = False, "not a DataFrame"
        self.mixed = self.above32 = self.z_varies = self.has_z = False
        self.contiguous = True
        self.dim = None
        self.counts = []
        if ms is None:
            return
        rows = ms["rows"]
        cols = ms["cols"]
        self.has_z = "z" in cols
        order, conn = [], {}
        blocks = 0
        for k, (e, n) in enumerate(rows):
            if e not in conn:
                conn[e] = []
                order.append(e)
            if k == 0 or rows[k - 1][0] != e:
                blocks += 1
            conn[e].append(n)
        self.conn = conn
        self.contiguous = blocks == len(order)
        self.element_ids = sorted(conn)
        self.node_ids = sorted(set(n for _, n in rows))
        self.counts = [len(conn[e]) for e in self.element_ids]
        self.mixed = len(set(self.counts)) > 1
        self.above32 = bool(rows) and (max(self.node_ids) > INT32_MAX or max(self.element_ids) > INT32_MAX)
        self.above32_nodes = bool(rows) and max(self.node_ids) > INT32_MAX
        if self.has_z:
            j = cols.index("z")
            zs = [p[j] for p in ms["xyz"]]
            self.z_varies = any(z != zs[0] for z in zs)
        self.dim = 3 if self.z_varies else 2
        self.coincident = len(set(tuple(_bits(p).tolist()) for p in ms["xyz"])) < len(ms["xyz"])
        if "x" not in cols or "y" not in cols:
            self.why = "coordinate column missing"
        elif ms.get("text_col") in cols:
            self.why = "coordinate column is not numeric"
        elif not rows:
            self.why = "empty mesh"
        elif any(c not in SUPPORTED[self.dim] for c in self.counts):
            self.why = "unsupported node count for a %dD mesh" % self.dim
        else:
            self.valid, self.why = True, ""
        # stable sort by element id: the order the importer promises (elements by id, node order kept)
        self.order = sorted(range(len(rows)), key=lambda k: rows[k][0])


def _bits(a):
    return np.ascontiguousarray(np.asarray(a, dtype=np.float64)).view(np.uint64)


def _same_values(a, b):
    a = np.asarray(a)
    b = np.asarray(b)
    if a.shape != b.shape or a.dtype != np.float64 or b.dtype != np.float64:
        return False
    return bool(np.all((_bits(a) == _bits(b)) | (np.isnan(a) & np.isnan(b))))


def _cmp_index(got, exp_e, exp_n, what):
    if list(got.names) != ["element_id", "node_id"]:
        raise Violation("%s: index names %r" % (what, list(got.names)), bucket="index-names")
    ge = np.asarray(got.get_level_values("element_id"))
    gn = np.asarray(got.get_level_values("node_id"))
    if len(ge) != len(exp_e) or (ge != exp_e).any() or (gn != exp_n).any():
        raise Violation("%s: (element_id, node_id) rows %r, expected %r" % (
            what, list(zip(ge.tolist(), gn.tolist()))[:40], list(zip(exp_e.tolist(), exp_n.tolist()))[:40]), bucket="mesh-rows")


def _cmp_frame(got, exp, what, bucket):
    _cmp_index(got.index, np.asarray(exp.index.get_level_values(0)), np.asarray(exp.index.get_level_values(1)), what)
    if list(got.columns) != list(exp.columns):
        raise Violation("%s: columns %r, expected %r" % (what, list(got.columns), list(exp.columns)), bucket=bucket + ":columns")
    for j, c in enumerate(exp.columns):
        g, e = got.iloc[:, j].to_numpy(), exp.iloc[:, j].to_numpy()
        if not _same_values(g, e):
            bad = [k for k in range(len(e)) if not _same_values(g[k:k + 1], e[k:k + 1])][:5]
            raise Violation("%s: column %r differs at rows %r: got %r, expected %r" % (
                what, c, [tuple(int(v) for v in exp.index[k]) for k in bad], [float(g[k]) for k in bad], [float(e[k]) for k in bad]),
                bucket=bucket + ":values")


# =============================================================================================== the run
class _Model:
    def __init__(self):
        self.geoms = {}       # name -> {"mesh": idx, "strict32": bool, "tainted": bool, "sets": [(type, name, ids)]}
        self.vars = {}        # (state, geom) -> {var: (columns, location)}
        self.sticky3d = False  # an earlier add_geometry call saw a mesh with a varying z column


def _run(case, ctx, check="every"):
    from pylife.vmap import VMAPExport, VMAPImport, VMAPExportError, APIUseError
    from pylife.vmap.vmap_structures import VariableLocations

    meshes = case["meshes"]
    infos = [_Info(ms) for ms in meshes]
    frames = [_frame(ms) for ms in meshes]
    ops = case["ops"]
    tmp = tempfile.mkdtemp(prefix="vp-c20-")
    try:
        path = os.path.join(tmp, "case.vmap")
        ex = VMAPExport(path)
        model = _Model()
        stats = {"ok_geoms": 0, "failed_then_ok": False, "seen_fail": False, "mixed_ok": False, "rich": False}
        for k, op in enumerate(ops):
            failed = _step(k, op, ex, model, meshes, infos, frames, ctx, stats,
                           (VMAPExportError, APIUseError, VariableLocations))
            if failed:
                stats["seen_fail"] = True
            elif stats["seen_fail"]:
                stats["failed_then_ok"] = True
            if check == "every" or k == len(ops) - 1 or failed:
                _verify(k, op, failed, path, model, infos, frames, ctx, stats, VMAPImport)
        if stats["ok_geoms"] >= 2 or stats["failed_then_ok"] or stats["mixed_ok"] or stats["rich"] or stats.get("sparse"):
            ctx.nontrivial()
    finally:
        shutil.rmtree(tmp, ignore_errors=True)


def _describe(k, op):
    d = {a: b for a, b in op.items() if a != "ids"}
    if "ids" in op:
        d["ids"] = op["ids"][:8]
    return "step %d %r" % (k, d)


def _expect_failure(k, op, exc, allowed, reason, ctx):
    if exc is None:
        raise Violation("%s: call succeeded although %s" % (_describe(k, op), reason), bucket="accepted:%s:%s" % (op["op"], reason.split(",")[0][:40]))
    if not isinstance(exc, allowed):
        raise Violation("%s: raised %s (%s) for '%s', expected %s" % (
            _describe(k, op), type(exc).__name__, str(exc)[:200], reason, "/".join(t.__name__ for t in allowed)),
            bucket="wrong-exception:%s:%s" % (op["op"], type(exc).__name__))
    ctx.tolerate("%s raised %s: %s" % (op["op"], type(exc).__name__, reason.split(",")[0]))


def _step(k, op, ex, model, meshes, infos, frames, ctx, stats, api):
    """Execute one operation on the exporter and on the model. Returns True if the call failed (as it had to)."""
    VMAPExportError, APIUseError, VariableLocations = api
    kind = op["op"]
    exc = None
    if kind == "geom":
        name, mi = op["name"], op["mesh"]
        info = infos[mi] if mi is not None else _Info(None)
        frame = frames[mi] if mi is not None else 5
        dup = name in model.geoms
        was_sticky = model.sticky3d
        try:
            ret = ex.add_geometry(name, frame)
        except Exception as e:  # noqa - classified below, never swallowed
            exc = e
        if not dup and info.is_frame and info.z_varies:
            model.sticky3d = True
        if info.is_frame:
            ctx.label("mesh:%dD" % info.dim + ("" if info.has_z else ":no_z"))
            if info.mixed:
                ctx.label("mesh:mixed_types")
                if info.valid and sum(info.counts) == len(info.counts) * info.counts[0]:
                    ctx.label("mesh:mixed_mean_count_equals_first")
            if not info.contiguous:
                ctx.label("mesh:interleaved_rows")
            if any(c in QUADRATIC for c in info.counts) and info.valid:
                ctx.label("mesh:quadratic")
            if info.above32:
                ctx.label("mesh:ids_above_int32")
            if info.valid and info.coincident:
                ctx.label("mesh:coincident_nodes_with_different_ids")
        if dup:
            ctx.label("op:geom_duplicate")
            _expect_failure(k, op, exc, (KeyError,), "duplicate geometry name", ctx)
            return True
        if not info.valid:
            ctx.label("op:geom_invalid", "geomfail:" + info.why.replace(" ", "_"))
            if (exc is None and was_sticky and info.is_frame and info.dim == 2 and info.counts
                    and info.why.startswith("unsupported node count") and all(c in SUPPORTED[3] for c in info.counts)):
                # the other face of F11c: the exporter still believes "3D" and types the flat elements as solids
                if ctx.known("F11c"):
                    ctx.label("known:F11c")
                    model.geoms[name] = {"mesh": mi, "strict32": info.above32, "tainted": False, "sets": []}
                    return False
                raise Violation("%s: flat (2D) mesh with node counts %r is no supported 2D mesh, but it is accepted because an "
                                "earlier mesh had a varying z (the same frame is rejected in a fresh exporter)" % (
                                    _describe(k, op), sorted(set(info.counts))), bucket="F11c:2d-mesh-typed-as-3d-after-3d-mesh")
            _expect_failure(k, op, exc, (VMAPExportError,), "invalid mesh, " + info.why, ctx)
            return True
        if exc is not None:
            if info.above32 and isinstance(exc, VMAPExportError):
                ctx.tolerate("add_geometry raised VMAPExportError: ids above int32")
                return True
            cands = []
            if info.mixed:
                cands.append(("F11a", "F11a:mixed-element-types-rejected"))
            if was_sticky and info.dim == 2 and 3 in info.counts:
                cands.append(("F11c", "F11c:2d-mesh-rejected-after-3d-mesh"))
            if cands and isinstance(exc, VMAPExportError):
                for fid, _ in cands:
                    if ctx.known(fid):
                        ctx.label("known:" + fid)
                        return True
                raise Violation("%s: valid mesh (%dD, node counts %r%s) rejected: %s" % (
                    _describe(k, op), info.dim, sorted(set(info.counts)),
                    ", after an earlier mesh with varying z" if was_sticky else "", str(exc)[:200]), bucket=cands[0][1])
            raise Violation("%s: valid mesh rejected with %s: %s" % (_describe(k, op), type(exc).__name__, str(exc)[:300]),
                            bucket="valid-geometry-rejected:%s" % type(exc).__name__)
        if ret is not ex:
            raise Violation("%s: add_geometry does not return self" % _describe(k, op), bucket="return-self")
        ctx.label("op:geom_ok")
        model.geoms[name] = {"mesh": mi, "strict32": info.above32, "tainted": False, "sets": []}
        stats["ok_geoms"] += 1
        if info.mixed:
            stats["mixed_ok"] = True
        return False

    if kind == "set":
        g, typ, ids, name = op["geom"], op["type"], op["ids"], op["name"]
        mi = model.geoms[g]["mesh"] if g in model.geoms else op["mesh"]
        info = infos[mi]
        members = set(info.node_ids if typ == "n" else info.element_ids)
        reasons, allowed = [], []
        if not set(ids) <= members:
            reasons.append("index set is not a subset")
            allowed.append(KeyError)
        if g not in model.geoms:
            reasons.append("unknown geometry")
            allowed.append(KeyError)
        fn = ex.add_node_set if typ == "n" else ex.add_element_set
        args = (g, pd.Index(np.array(ids, dtype=np.int64)), frames[mi]) + (() if name is None else (name,))
        try:
            ret = fn(*args)
        except Exception as e:  # noqa
            exc = e
        above = any(i > INT32_MAX for i in ids)
        if reasons:
            ctx.label("op:set_failing")
            _expect_failure(k, op, exc, tuple(allowed) + ((ValueError,) if above else ()), ", ".join(reasons), ctx)
            return True
        if above and isinstance(exc, ValueError):
            # accepted outcome for members that do not fit the VMAP int32 storage: an exception, nothing written
            ctx.tolerate("add_*_set raised ValueError: ids above int32")
            return True
        if exc is not None:
            raise Violation("%s: valid set rejected with %s: %s" % (_describe(k, op), type(exc).__name__, str(exc)[:300]),
                            bucket="valid-set-rejected:%s" % type(exc).__name__)
        if ret is not ex:
            raise Violation("%s: add_*_set does not return self" % _describe(k, op), bucket="return-self")
        ctx.label("op:set_ok", "set:empty" if not ids else "set:nonempty")
        model.geoms[g]["sets"].append((typ, "" if name is None else name, list(ids)))
        return False

    if kind == "var":
        s, g, v, columns, loc = op["state"], op["geom"], op["name"], op["columns"], op["location"]
        mi = model.geoms[g]["mesh"] if g in model.geoms else op["mesh"]
        frame = frames[mi]
        reasons, allowed = [], []
        if g not in model.geoms:
            reasons.append("unknown geometry")
            allowed.append(KeyError)
        if v in model.vars.get((s, g), {}):
            reasons.append("duplicate variable")
            allowed.append(KeyError)
        if columns is None and v not in KNOWN_VARS:
            reasons.append("unknown variable name without column names")
            allowed.append(KeyError)
        if loc is None and v not in KNOWN_VARS:
            reasons.append("unknown variable name without location")
            allowed.append(APIUseError)
        if isinstance(loc, int):
            reasons.append("location is not a VariableLocations")
            allowed.append(APIUseError)
        eff_cols = columns if columns is not None else KNOWN_VARS.get(v, (None,))[0]
        eff_loc = loc if isinstance(loc, str) else (KNOWN_VARS.get(v, (None, None))[1] if loc is None else None)
        if eff_cols is not None and any(c not in frame.columns for c in eff_cols):
            reasons.append("column missing in the mesh")
            allowed.append(VMAPExportError)
        if not reasons and eff_loc == "NODE":
            nid = frame.index.get_level_values("node_id")
            for c in eff_cols:
                col = pd.Series(_bits(frame[c].to_numpy()), index=nid)
                if (col.groupby(level=0).nunique() > 1).any():
                    ctx.skip("NODE variable from a column that is not constant per node")
        kw = {}
        if columns is not None:
            kw["column_names"] = list(columns)
        if loc is not None:
            kw["location"] = VariableLocations[loc] if isinstance(loc, str) else loc
        try:
            ret = ex.add_variable(s, g, v, frame, **kw)
        except Exception as e:  # noqa
            exc = e
        if reasons:
            ctx.label("op:var_failing", "varfail:" + reasons[0].replace(" ", "_"))
            _expect_failure(k, op, exc, tuple(allowed), ", ".join(reasons), ctx)
            return True
        if exc is not None:
            raise Violation("%s: valid variable rejected with %s: %s" % (_describe(k, op), type(exc).__name__, str(exc)[:300]),
                            bucket="valid-variable-rejected:%s" % type(exc).__name__)
        if ret is not ex:
            raise Violation("%s: add_variable does not return self" % _describe(k, op), bucket="return-self")
        ctx.label("op:var_ok", "var:" + eff_loc, "var:known_name" if v in KNOWN_VARS else "var:custom_name")
        model.vars.setdefault((s, g), {})[v] = (list(eff_cols), eff_loc)
        return False

    raise ValueError("unknown operation %r" % (op,))


def _expected_frame(info, frame, columns):
    return frame.iloc[info.order][list(columns)]


def _verify(k, op, failed, path, model, infos, frames, ctx, stats, VMAPImport):
    """The invariant: the re-imported file shows exactly the model."""
    where = "after " + _describe(k, op) + (" (failed call)" if failed else "")
    imp = VMAPImport(path)
    try:
        # ---- nothing but the model's geometries and variables
        geoms = sorted(imp.geometries())
        if geoms != sorted(model.geoms):
            extra = sorted(set(geoms) - set(model.geoms))
            raise Violation("%s: geometries() = %r, model has %r" % (where, geoms, sorted(model.geoms)),
                            bucket="partial-geometry-left" if failed and extra else "geometries-list")
        states = list(imp.states())
        for (s, g), vs in model.vars.items():
            if vs and s not in states:
                raise Violation("%s: state %r missing in states() %r" % (where, s, states), bucket="states-list")
        for s in states:
            any_var = False
            for g in geoms:
                want = sorted(model.vars.get((s, g), {}))
                try:
                    got = sorted(imp.variables(g, s))
                except KeyError:
                    got = None
                if got is None:
                    if want:
                        raise Violation("%s: variables(%r, %r) raises KeyError, model has %r" % (where, g, s, want), bucket="variables-list")
                    continue
                if got != want:
                    extra = sorted(set(got) - set(want))
                    raise Violation("%s: variables(%r, %r) = %r, model has %r" % (where, g, s, got, want),
                                    bucket="partial-variable-left" if failed and extra else "variables-list")
                if not got:
                    ctx.tolerate("empty geometry group under a state left by a failed add_variable")
                any_var = any_var or bool(got)
            if not any_var:
                ctx.tolerate("states() lists a state without any variable (left by a failed add_variable)")
                ctx.label("file:state_without_variables")

        # ---- every geometry: rows, coordinates, variables, sets
        for g in geoms:
            entry = model.geoms[g]
            if entry["tainted"]:
                continue
            info, frame = infos[entry["mesh"]], frames[entry["mesh"]]
            if entry["strict32"]:
                try:
                    _verify_geometry(where, imp, g, entry, info, frame, model, ctx, stats)
                except Exception as e:  # noqa - any deviation for ids above int32 is the same root cause
                    if info.above32_nodes and ctx.known("F11f"):
                        entry["tainted"] = True
                        ctx.label("known:F11f")
                        continue
                    raise Violation("%s: geometry %r has ids above int32 (max node id %d, max element id %d), add_geometry "
                                    "did not raise, but the file does not give the mesh back: %s: %s" % (
                                        where, g, max(info.node_ids), max(info.element_ids), type(e).__name__, str(e)[:300]),
                                    bucket="F11f:ids-above-int32-stored-silently-wrong")
            else:
                _verify_geometry(where, imp, g, entry, info, frame, model, ctx, stats)
    finally:
        imp._file.close()


def _verify_geometry(where, imp, g, entry, info, frame, model, ctx, stats):
    coord_cols = [c for c in ("x", "y", "z") if c in frame.columns]
    exp_idx = frame.index[info.order]
    exp_e = np.asarray(exp_idx.get_level_values(0))
    exp_n = np.asarray(exp_idx.get_level_values(1))

    got = imp.make_mesh(g).to_frame()
    _cmp_index(got.index, exp_e, exp_n, "%s: make_mesh(%r)" % (where, g))
    if len(got.columns):
        raise Violation("%s: make_mesh(%r) has columns %r" % (where, g, list(got.columns)), bucket="mesh-rows")

    # coordinates, read twice (repeatable)
    with_coords = True
    exp_coords = _expected_frame(info, frame, coord_cols)
    for rep in (1, 2):
        try:
            got = imp.make_mesh(g).join_coordinates().to_frame()
        except ValueError as e:
            if info.has_z:
                raise
            if ctx.known("F11e"):
                ctx.label("known:F11e")
                with_coords = False
                break
            raise Violation("%s: geometry %r is a 2D mesh without z column; add_geometry wrote it, join_coordinates() raises "
                            "ValueError: %s" % (where, g, str(e)[:200]), bucket="F11e:2d-mesh-without-z-not-importable")
        _cmp_frame(got, exp_coords, "%s: coordinates of %r (read %d)" % (where, g, rep), "coordinates")

    # variables: all of them joined in one chain (own column names, so that they cannot clash)
    chain_vars = []
    for (s, gg), vs in sorted(model.vars.items()):
        if gg != g:
            continue
        for v in sorted(vs):
            cols, loc = vs[v]
            if loc == "ELEMENT_NODAL" and not info.contiguous:
                # rows of an element are not contiguous in the exported frame: checked alone, so that the class is attributable
                names = ["%s@%s#%d" % (v, s, j) for j in range(len(cols))]
                got = imp.make_mesh(g).join_variable(v, s, column_names=names).to_frame()
                exp = _expected_frame(info, frame, cols)
                exp.columns = names
                try:
                    _cmp_frame(got, exp, "%s: ELEMENT_NODAL variable %r of state %r, geometry %r (rows of an element not contiguous "
                               "in the exported frame)" % (where, v, s, g), "F11b:interleaved-rows-element-nodal")
                except Violation:
                    if ctx.known("F11b"):
                        ctx.label("known:F11b")
                        continue
                    raise
                ctx.label("interleaved_element_nodal_ok")
                continue
            chain_vars.append((s, v, cols, loc))
    if chain_vars:
        used = set(coord_cols) if with_coords else set()
        chain = imp.make_mesh(g)
        if with_coords:
            chain = chain.join_coordinates()
        exp_parts = [exp_coords] if with_coords else []
        for s, v, cols, loc in chain_vars:
            default = KNOWN_VARS.get(v, (None,))[0]
            if default is not None and len(default) == len(cols) and not (set(default) & used):
                names, arg = list(default), None        # documented default column names
            else:
                names = ["%s@%s#%d" % (v, s, j) for j in range(len(cols))]
                arg = names
            used |= set(names)
            chain = chain.join_variable(v, s, column_names=arg)
            part = _expected_frame(info, frame, cols)
            part.columns = names
            exp_parts.append(part)
        got = chain.to_frame()
        exp = pd.concat(exp_parts, axis=1)
        _cmp_frame(got, exp, "%s: variables %r of geometry %r" % (where, [(s, v) for s, v, _, _ in chain_vars], g), "variables")
        if len(info.element_ids) >= 2 and entry["sets"]:
            stats["rich"] = True

    # sets
    sets = entry["sets"]
    by_type = {"n": {}, "e": {}}
    for typ, name, ids in sets:
        by_type[typ][name] = ids
    try:
        listed = {"n": list(imp.node_sets(g)), "e": list(imp.element_sets(g))}
    except AttributeError as e:
        if not sets or "decode" not in str(e):
            raise
        if not ctx.known("F11d"):
            raise Violation("%s: geometry %r has sets %r written by add_node_set/add_element_set; node_sets()/element_sets() raise "
                            "AttributeError: %s" % (where, g, [(t, n) for t, n, _ in sets], e), bucket="F11d:exported-sets-not-importable")
        ctx.label("known:F11d")
        # behind the finding: the stored members, by set number
        for j, (typ, name, ids) in enumerate(sets):
            got = imp.try_get_geometry_set(g, "%06d" % j)
            if got is None or [int(i) for i in got] != [int(i) for i in ids]:
                raise Violation("%s: set %06d (%r) of geometry %r holds %r, expected %r" % (
                    where, j, name, g, None if got is None else list(got), ids), bucket="set-members-stored")
        return
    for typ in ("n", "e"):
        if sorted(listed[typ]) != sorted(by_type[typ]):
            raise Violation("%s: %s of %r = %r, model has %r" % (where, "node_sets" if typ == "n" else "element_sets", g,
                                                                 listed[typ], sorted(by_type[typ])), bucket="set-list")
        for name, ids in by_type[typ].items():
            m = imp.make_mesh(g)
            got = (m.filter_node_set(name) if typ == "n" else m.filter_element_set(name)).to_frame()
            keep = np.isin(exp_n if typ == "n" else exp_e, np.array(ids, dtype=np.int64))
            _cmp_index(got.index, exp_e[keep], exp_n[keep], "%s: filter_%s_set(%r) on %r" % (where, "node" if typ == "n" else "element", name, g))
            uniq = set(ids)
            if len(uniq) >= 20 and not keep.all() and max(uniq) - min(uniq) > 6 * (len(keep) + len(ids)):
                ctx.label("sets:medium_on_sparse_ids")
                stats["sparse"] = True
    shared = sorted(set(by_type["n"]) & set(by_type["e"]))
    if shared:
        # a node set and an element set with the same name: both filters through ONE held importer, in both orders
        # (node -> element on the importer used so far, element -> node -> element on a second one)
        ctx.label("sets:same_name_node_and_element")

        def _filtered(im, typ, name):
            m = im.make_mesh(g)
            got = (m.filter_node_set(name) if typ == "n" else m.filter_element_set(name)).to_frame()
            keep = np.isin(exp_n if typ == "n" else exp_e, np.array(by_type[typ][name], dtype=np.int64))
            _cmp_index(got.index, exp_e[keep], exp_n[keep], "%s: filter_%s_set(%r) on %r after filtering by the %s set of the same "
                       "name through the same importer" % (where, "node" if typ == "n" else "element", name, g,
                                                           "element" if typ == "n" else "node"))
        imp2 = type(imp)(imp._file.filename)
        try:
            for name in shared:
                for typ in ("n", "e", "n"):
                    _filtered(imp, typ, name)
                for typ in ("e", "n", "e"):
                    _filtered(imp2, typ, name)
        finally:
            imp2._file.close()
    if sets and with_coords:
        # filter first, join afterwards: the last set
        typ, name, ids = sets[-1]
        m = imp.make_mesh(g)
        got = (m.filter_node_set(name) if typ == "n" else m.filter_element_set(name)).join_coordinates().to_frame()
        keep = np.isin(exp_n if typ == "n" else exp_e, np.array(ids, dtype=np.int64))
        _cmp_frame(got, exp_coords[keep], "%s: filter set %r of %r, then join_coordinates" % (where, name, g), "filter-then-join")


# =============================================================================================== generators
_SPECIAL_FINITE = [0.0, -0.0, 5e-324, -5e-324, 2.2250738585072014e-308, 1e300, -1e300, 1.7976931348623157e308, 1.0, -1.0]
_SPECIAL_ANY = _SPECIAL_FINITE + [float("inf"), float("-inf"), float("nan")]
_SCALES = [1.0, 1.0, 0.5, 1e-3, 1e6, 0.1, 1e-300, 1e290]


@st.composite
def _values(draw, n, special):
    """n float values; mostly all different (a misplaced value is then visible), some wild, some special."""
    mode = draw(st.sampled_from(["ramp", "ramp", "wild", "special", "constant"]))
    start = draw(st.integers(-40, 40))
    scale = draw(st.sampled_from(_SCALES))
    vals = [(start + 3 * i + (i * i) % 3) * scale for i in range(n)]
    if mode == "constant":
        vals = [start * scale] * n
    elif mode == "wild" and n <= 24:
        vals = draw(st.lists(st.floats(allow_nan=False, allow_infinity=False, width=64), min_size=n, max_size=n))
    elif mode == "special":
        for _ in range(draw(st.integers(1, 3))):
            vals[draw(st.integers(0, n - 1))] = draw(st.sampled_from(special))
    return [float(v) for v in vals]


def _ids(draw, n, style):
    if style == "small":
        return list(draw(st.permutations(list(range(1, n + 1)))))
    if style == "gaps":
        lo, hi = 1, 20000
    elif style == "large":
        lo, hi = INT32_MAX - 300, INT32_MAX
    else:  # above int32: at least one id above
        lo, hi = INT32_MAX - 3 - n, INT32_MAX + draw(st.sampled_from([2, 50, 2 ** 31, 2 ** 33]))
        ids = draw(st.lists(st.integers(lo, hi), min_size=n, max_size=n, unique=True))
        if max(ids) <= INT32_MAX:
            ids[draw(st.integers(0, n - 1))] = hi + 1
        return ids
    return draw(st.lists(st.integers(lo, hi), min_size=n, max_size=n, unique=True))


_BALANCED = {2: [(6, [4, 8]), (4, [3, 3, 6]), (6, [4, 8, 6])],
             3: [(6, [4, 8]), (8, [6, 10]), (15, [10, 20]), (6, [4, 4, 10]), (8, [6, 10, 8])]}


@st.composite
def _mesh(draw, tier, max_elements=None, broken=None):
    dim = draw(st.sampled_from([2, 2, 3]))
    types = SUPPORTED[dim]
    nmax = max_elements or (4 if tier == "quick" else 8)
    nel = draw(st.sampled_from([1] + list(range(2, nmax + 1)) * 2))
    balanced = None
    if draw(st.integers(0, 9)) < 4 and nel >= 2 and draw(st.integers(0, 2)) == 2:
        # mixed types whose mean node count equals the count of the element with the lowest id
        # (a reader that infers "one element type" from the total row count is wrong here)
        balanced = draw(st.sampled_from(_BALANCED[dim]))
        counts = [balanced[0]] + list(draw(st.permutations(balanced[1])))
        nel = len(counts)
    elif draw(st.integers(0, 9)) < 4 and nel >= 2:
        pool_t = draw(st.lists(st.sampled_from(types), min_size=2, max_size=3, unique=True))
        counts = [pool_t[i] if i < len(pool_t) else draw(st.sampled_from(pool_t)) for i in range(nel)]
    else:
        counts = [draw(st.sampled_from(types))] * nel
    if broken == "count":
        bad = (1, 2, 5, 7, 9, 10) if dim == 2 else (1, 2, 3, 5, 7, 9)
        counts[draw(st.integers(0, nel - 1))] = draw(st.sampled_from(bad))
    id_style = draw(st.sampled_from(["small"] * 7 + ["gaps"] * 6 + ["large"] * 4 + ["above"]))
    above_where = draw(st.sampled_from(["node", "node", "element"])) if id_style == "above" else None
    total = sum(counts)
    npool = draw(st.integers(max(counts), max(max(counts), (2 * total) // 3 + 1)))
    nodes = _ids(draw, npool, "above" if above_where == "node" else ("large" if id_style == "above" else id_style))
    eids = _ids(draw, nel, "above" if above_where == "element" else ("small" if id_style == "above" else
                                                                  draw(st.sampled_from([id_style, "small", "gaps"]))))
    if balanced is not None and broken != "count":
        k = eids.index(min(eids))
        eids[0], eids[k] = eids[k], eids[0]          # the element with the lowest id has the mean node count
    conn = []
    for c in counts:
        perm = draw(st.permutations(nodes))
        conn.append(list(perm[:c]))
    order = draw(st.sampled_from(["by_id", "shuffled", "shuffled", "interleaved", "interleaved"]))
    if order == "by_id":
        seq = sorted(range(nel), key=lambda i: eids[i])
        rows = [[eids[i], n] for i in seq for n in conn[i]]
    elif order == "shuffled" or nel == 1:
        seq = draw(st.permutations(list(range(nel))))
        rows = [[eids[i], n] for i in seq for n in conn[i]]
    else:
        slots = draw(st.permutations([i for i in range(nel) for _ in conn[i]]))
        nxt = [0] * nel
        rows = []
        for i in slots:
            rows.append([eids[i], conn[i][nxt[i]]])
            nxt[i] += 1
    used = sorted(set(n for _, n in rows))
    used = set(used)
    nodes = [n for n in nodes if n in used]
    nn = len(nodes)
    xs = draw(_values(nn, _SPECIAL_FINITE))
    ys = draw(_values(nn, _SPECIAL_FINITE))
    cols = ["x", "y", "z"]
    if dim == 3:
        zs = draw(_values(nn, _SPECIAL_FINITE))
        if all(z == zs[0] for z in zs):
            zs[-1] = 1.0 if zs[0] == 0 else 0.0
            if nn == 1:
                zs = zs  # a one-node mesh cannot be 3D; never generated (min count 4)
    elif draw(st.integers(0, 3)) == 3:
        cols, zs = ["x", "y"], None
    else:
        zs = [draw(st.sampled_from([0.0, 0.0, 1.5, -0.0, 1e300]))] * nn
    xyz = [[xs[i], ys[i]] + ([zs[i]] if zs is not None else []) for i in range(nn)]
    if nn >= 2 and draw(st.integers(0, 3)) == 3:
        # two (or three) different node ids at exactly the same position: tied contact, crack faces, interface nodes
        src = draw(st.integers(0, nn - 1))
        for _ in range(draw(st.integers(1, 2))):
            dst = draw(st.integers(0, nn - 1))
            if dst != src and not (dim == 3 and len(set(p[2] for k, p in enumerate(xyz) if k != dst) | {xyz[src][2]}) < 2):
                xyz[dst] = list(xyz[src])
    text_col = None
    if broken == "text":
        text_col = draw(st.sampled_from(cols))
    if broken in ("x", "y"):
        j = cols.index(broken)
        cols = cols[:j] + cols[j + 1:]
        xyz = [p[:j] + p[j + 1:] for p in xyz]
    nf, ef = {}, {}
    nrows = len(rows)
    if draw(st.integers(0, 9)) >= 2:
        for c in ("dx", "dy", "dz"):
            nf[c] = draw(_values(nn, _SPECIAL_ANY))
    if draw(st.integers(0, 9)) >= 4:
        nf["T"] = draw(_values(nn, _SPECIAL_ANY))
    if draw(st.integers(0, 9)) >= 3:
        for c in KNOWN_VARS["STRESS_CAUCHY"][0]:
            ef[c] = draw(_values(nrows, _SPECIAL_ANY))
    if draw(st.integers(0, 9)) >= 7:
        for c in KNOWN_VARS["E"][0]:
            ef[c] = draw(_values(nrows, _SPECIAL_ANY))
    if draw(st.integers(0, 9)) >= 3:
        ef["a"] = draw(_values(nrows, _SPECIAL_ANY))
        ef["b"] = draw(_values(nrows, _SPECIAL_ANY))
    ms = {"rows": rows, "nodes": nodes, "cols": cols, "xyz": xyz, "nf": nf, "ef": ef}
    if text_col is not None:
        ms["text_col"] = text_col
    return ms


_GEOM_NAMES = ["1", "2", "PART-1", "g 3", "Bär", "geometry_with_a_longer_name"]
_STATES = ["STATE-1", "STATE-2", "s"]
_CUSTOM_VARS = ["TEMP", "FOO_1", "my var", "σ"]


class _Belief:
    """The generator's own bookkeeping (steers the distribution only)."""

    def __init__(self):
        self.meshes = []
        self.geoms = {}      # name -> mesh idx
        self.vars = set()    # (state, geom, var)
        self.nset = 0
        self.unnamed = set()
        self.setnames = {}   # (geom, type) -> names of the sets added so far


def _draw_set(draw, b, ops, how):
    if how == "nogeom" or not b.geoms:
        g = draw(st.sampled_from([n for n in _GEOM_NAMES if n not in b.geoms] or ["nope"]))
        mi = draw(st.integers(0, len(b.meshes) - 1))
    else:
        g = draw(st.sampled_from(sorted(b.geoms)))
        mi = b.geoms[g]
    ms = b.meshes[mi]
    typ = draw(st.sampled_from(["n", "e"]))
    if draw(st.integers(0, 2)) and len(b.setnames.get((g, "n"), [])) != len(b.setnames.get((g, "e"), [])):
        # prefer the type the geometry has fewer sets of, so that name collisions across the types become possible
        typ = "n" if len(b.setnames.get((g, "n"), [])) < len(b.setnames.get((g, "e"), [])) else "e"
    members = sorted(set(r[1] for r in ms["rows"])) if typ == "n" else sorted(set(r[0] for r in ms["rows"]))
    pick = draw(st.integers(0, 9))
    if pick == 0:
        ids = []
    elif pick <= 2:
        ids = list(draw(st.permutations(members)))
    else:
        ids = [m for m in draw(st.permutations(members)) if draw(st.booleans())] or [members[0]]
    if how == "notsubset":
        ids = ids + [max(members) + draw(st.integers(1, 5))]
    elif ids and draw(st.integers(0, 9)) == 0:
        ids = ids + [ids[0]]        # a member named twice
    name = "%s%d%s" % (draw(st.sampled_from(["N", "set ", "ALL_", "Ü"])), b.nset, draw(st.sampled_from(["", "", "-x"])))
    b.nset += 1
    if draw(st.integers(0, 9)) == 0 and (g, typ) not in b.unnamed and how == "ok":
        name = None
        b.unnamed.add((g, typ))
    # on purpose: a node set and an element set of one geometry with the SAME name (separate name spaces in the file,
    # common in FE exports: 'ALL', 'LOAD'); about every third set that could collide does
    other = [n for n in b.setnames.get((g, "e" if typ == "n" else "n"), []) if n not in b.setnames.get((g, typ), [])]
    if how == "ok" and other and draw(st.integers(0, 2)) == 2:
        name = draw(st.sampled_from(other))
    if how == "ok":
        b.setnames.setdefault((g, typ), []).append(name)
    ops.append({"op": "set", "geom": g, "type": typ, "ids": ids, "name": name, "mesh": mi})


def _draw_var(draw, b, ops, how, triple=None):
    if how == "nogeom" or not b.geoms:
        g = draw(st.sampled_from([n for n in _GEOM_NAMES if n not in b.geoms] or ["nope"]))
        mi = draw(st.integers(0, len(b.meshes) - 1))
        how = "nogeom"
    else:
        g = triple[1] if triple else draw(st.sampled_from(sorted(b.geoms)))
        mi = b.geoms[g]
    s = triple[0] if triple else draw(st.sampled_from(_STATES))
    if how == "dup" and b.vars:
        s, g, _ = draw(st.sampled_from(sorted(b.vars)))
        mi = b.geoms[g]
    ms = b.meshes[mi]
    ncols = list(ms["nf"]) + list(ms["cols"])
    ecols = list(ms["ef"]) + ncols
    if how == "dup" and any(t[:2] == (s, g) for t in b.vars):
        v = draw(st.sampled_from(sorted(t[2] for t in b.vars if t[:2] == (s, g))))
        columns, loc = (None, None) if v in KNOWN_VARS else ([ms["cols"][0]], "NODE")
        ops.append({"op": "var", "state": s, "geom": g, "name": v, "columns": columns, "location": loc, "mesh": mi})
        return None
    known_ok = [v for v, (cs, _) in KNOWN_VARS.items() if all(c in ms["nf"] or c in ms["ef"] for c in cs)]
    known_missing = [v for v in KNOWN_VARS if v not in known_ok]
    free = lambda v: (s, g, v) not in b.vars  # noqa
    v = triple[2] if triple else None
    if how in ("ok", "nogeom", "dup"):
        form = draw(st.sampled_from(["known", "known", "known_explicit", "custom", "custom", "custom"]))
        cand = [x for x in known_ok if free(x)]
        if v is not None:
            form = "known" if v in known_ok else "custom"
        if form.startswith("known") and (cand or v is not None):
            v = v or draw(st.sampled_from(cand))
            if form == "known":
                columns, loc = None, None
            else:
                columns = list(KNOWN_VARS[v][0]) if draw(st.booleans()) else None
                loc = KNOWN_VARS[v][1] if (columns is None or draw(st.booleans())) else None
        else:
            cand = [x for x in _CUSTOM_VARS + known_missing if free(x)] or ["V%d" % len(ops)]
            v = v or draw(st.sampled_from(cand))
            loc = draw(st.sampled_from(["NODE", "ELEMENT_NODAL", "ELEMENT_NODAL"]))
            pool = ncols if loc == "NODE" else ecols
            columns = list(draw(st.permutations(pool)))[:draw(st.integers(1, min(3, len(pool))))]
        if how != "nogeom":
            b.vars.add((s, g, v))
        ops.append({"op": "var", "state": s, "geom": g, "name": v, "columns": columns, "location": loc, "mesh": mi})
        return None
    # failing forms; the triple is returned so that a valid twin can follow
    cand = [x for x in _CUSTOM_VARS if free(x)] or ["V%d" % len(ops)]
    if how == "missing_column":
        if known_missing and draw(st.booleans()) and any(free(x) for x in known_missing):
            v = draw(st.sampled_from([x for x in known_missing if free(x)]))
            columns, loc = None, None
        else:
            v = draw(st.sampled_from(cand))
            loc = draw(st.sampled_from(["NODE", "ELEMENT_NODAL"]))
            columns = [draw(st.sampled_from(ncols)), "nope"] if draw(st.booleans()) else ["nope"]
    elif how == "no_columns":
        v, columns, loc = draw(st.sampled_from(cand)), None, draw(st.sampled_from(["NODE", "ELEMENT_NODAL", None]))
    elif how == "no_location":
        v, columns, loc = draw(st.sampled_from(cand)), [draw(st.sampled_from(ncols))], None
    else:  # bad_location
        v = draw(st.sampled_from(cand + [x for x in known_ok if free(x)]))
        columns = list(KNOWN_VARS[v][0]) if v in KNOWN_VARS else [draw(st.sampled_from(ncols))]
        loc = draw(st.sampled_from([2, 6, 4]))
    ops.append({"op": "var", "state": s, "geom": g, "name": v, "columns": columns, "location": loc, "mesh": mi})
    return (s, g, v)


def _draw_geom(draw, tier, b, ops, how, name=None, max_elements=None):
    free_names = [n for n in _GEOM_NAMES if n not in b.geoms]
    if how == "dup" and b.geoms:
        name = draw(st.sampled_from(sorted(b.geoms)))
        mi = draw(st.integers(0, len(b.meshes) - 1))
        ops.append({"op": "geom", "name": name, "mesh": mi})
        return None
    name = name or (draw(st.sampled_from(free_names)) if free_names else "g%d" % len(ops))
    if how == "not_frame":
        ops.append({"op": "geom", "name": name, "mesh": None})
        return name
    if how in ("count", "x", "y", "text"):
        b.meshes.append(draw(_mesh(tier, max_elements=max_elements, broken=how)))
        ops.append({"op": "geom", "name": name, "mesh": len(b.meshes) - 1})
        return name
    if b.meshes and draw(st.integers(0, 9)) < 2:
        mi = draw(st.integers(0, len(b.meshes) - 1))      # the same frame under a second name
    else:
        b.meshes.append(draw(_mesh(tier, max_elements=max_elements)))
        mi = len(b.meshes) - 1
    b.geoms[name] = mi
    ops.append({"op": "geom", "name": name, "mesh": mi})
    return None


_WEIGHTS = {
    # (kind, how): weight
    "history": [("geom", "ok", 5), ("geom", "dup", 1), ("geom", "count", 1), ("geom", "x", 1), ("geom", "not_frame", 1), ("geom", "text", 1),
                ("set", "ok", 6), ("set", "notsubset", 1), ("set", "nogeom", 1),
                ("var", "ok", 8), ("var", "dup", 1), ("var", "missing_column", 2), ("var", "no_columns", 1),
                ("var", "no_location", 1), ("var", "bad_location", 1), ("var", "nogeom", 1)],
    "rollback": [("geom", "ok", 2), ("geom", "dup", 2), ("geom", "count", 3), ("geom", "y", 1), ("geom", "x", 1), ("geom", "not_frame", 1),
                 ("geom", "text", 2),
                 ("set", "ok", 1), ("set", "notsubset", 2), ("set", "nogeom", 1),
                 ("var", "ok", 2), ("var", "dup", 2), ("var", "missing_column", 4), ("var", "no_columns", 2),
                 ("var", "no_location", 2), ("var", "bad_location", 2), ("var", "nogeom", 1)],
}


@st.composite
def _history(draw, tier, focus):
    b = _Belief()
    ops = []
    nmax = 12 if tier == "quick" else 25
    n = draw(st.integers(2, nmax))
    table = [(k, h) for k, h, w in _WEIGHTS[focus] for _ in range(w)]
    _draw_geom(draw, tier, b, ops, "ok")
    while len(ops) < n:
        kind, how = draw(st.sampled_from(table))
        if kind == "geom":
            redo = _draw_geom(draw, tier, b, ops, how)
            if redo and len(ops) < n and draw(st.integers(0, 9)) < (7 if focus == "rollback" else 3):
                _draw_geom(draw, tier, b, ops, "ok", name=redo)          # the valid twin of the failed call
        elif kind == "set":
            _draw_set(draw, b, ops, how)
        else:
            redo = _draw_var(draw, b, ops, how)
            if redo and len(ops) < n and draw(st.integers(0, 9)) < (7 if focus == "rollback" else 3):
                _draw_var(draw, b, ops, "ok", triple=redo)
    return {"meshes": b.meshes, "ops": ops}


@st.composite
def _single(draw, tier):
    """One bigger mesh with several variables and sets (the 'for every valid mesh frame' part of the quantifier)."""
    b = _Belief()
    ops = []
    _draw_geom(draw, tier, b, ops, "ok", max_elements=6 if tier == "quick" else 14)
    for _ in range(draw(st.integers(1, 4))):
        _draw_var(draw, b, ops, "ok")
    for _ in range(draw(st.integers(0, 3))):
        _draw_set(draw, b, ops, "ok")
    if draw(st.booleans()):
        _draw_var(draw, b, ops, "ok")
    return {"meshes": b.meshes, "ops": ops}


# =============================================================================================== sub-checks
@subcheck(PROP, "history", strategy=lambda tier: _history(tier, "history"), quick=150, thorough=8000, crash_guard=True,
          doc="random histories of add_geometry / add_node_set / add_element_set / add_variable calls, valid and failing; after every "
              "step the re-imported file equals the model (geometries, variables, rows by element id with node order, coordinates "
              "and values bit for bit, sets and set filters, reading twice)")
def history(case, ctx):
    _run(case, ctx, "every")


@subcheck(PROP, "rollback", strategy=lambda tier: _history(tier, "rollback"), quick=110, thorough=5000, crash_guard=True,
          doc="histories dominated by failing calls, most of them followed by their valid twin (same geometry name / same state, "
              "geometry and variable name): the failing call raises the expected type, leaves no geometry or variable behind, and "
              "the twin succeeds and round-trips")
def rollback(case, ctx):
    _run(case, ctx, "every")


@subcheck(PROP, "mesh_roundtrip", strategy=_single, quick=200, thorough=8000, crash_guard=True,
          doc="one mesh (all element types, mixed, id classes, row orders, float classes) with 1-5 variables and 0-3 sets: exact "
              "round trip, checked after the last call")
def mesh_roundtrip(case, ctx):
    _run(case, ctx, "end")


# ----------------------------------------------------------------------------------------------- sparse ids, medium sets
def _spread(n, base, step):
    """n strictly increasing ids with irregular gaps of about ``step``."""
    return [base + k * step + (k * k) % step for k in range(n)]


def _scramble(draw, seq):
    """A cheap drawn permutation (affine map on the positions) - two draws instead of len(seq)."""
    n = len(seq)
    mult = [a for a in (1, 3, 7, 11, 13, 17, 19, 23, 29) if np.gcd(a, n) == 1]
    a, b = draw(st.sampled_from(mult)), draw(st.integers(0, n - 1))
    return [seq[(a * j + b) % n] for j in range(n)]


@st.composite
def _sparse(draw, tier):
    """A mesh of 80-320 rows with widely spread ids and shared nodes, and node / element sets of a few dozen members."""
    dim = draw(st.sampled_from([2, 3]))
    many = draw(st.booleans())
    if many:
        c = draw(st.sampled_from([3, 4] if dim == 2 else [4, 6]))
        nel = draw(st.integers(30, 48 if tier == "quick" else 90))
    else:
        c = draw(st.sampled_from([8, 6] if dim == 2 else [10, 15, 20]))
        nel = draw(st.integers(8, 16 if tier == "quick" else 40))
    total = nel * c
    npool = draw(st.integers(max(c + 1, total // 3), max(c + 2, (2 * total) // 3)))
    step = draw(st.sampled_from([211, 1009, 40009]))
    hi = INT32_MAX - (max(npool, nel) + 2) * step
    base = draw(st.sampled_from([draw(st.integers(1, 5000)), hi - draw(st.integers(0, 5000))]))
    pool = _scramble(draw, _spread(npool, base, step))
    estep = draw(st.sampled_from([1, 211, 1009, 40009]))
    ebase = draw(st.integers(1, 5000)) if estep == 1 else draw(st.sampled_from([draw(st.integers(1, 5000)), hi - draw(st.integers(0, 5000))]))
    eids = _scramble(draw, _spread(nel, ebase, estep) if estep > 1 else list(range(ebase, ebase + nel)))
    rows = []
    for e in eids:
        start = draw(st.integers(0, npool - 1))
        rows.extend([e, pool[(start + j) % npool]] for j in range(c))
    used = set(n for _, n in rows)
    nodes = [n for n in pool if n in used]
    nn = len(nodes)
    xs, ys = draw(_values(nn, _SPECIAL_FINITE)), draw(_values(nn, _SPECIAL_FINITE))
    if dim == 3:
        zs = draw(_values(nn, _SPECIAL_FINITE))
        if all(z == zs[0] for z in zs):
            zs[-1] = 1.0 if zs[0] == 0 else 0.0
    else:
        zs = [0.0] * nn
    ms = {"rows": rows, "nodes": nodes, "cols": ["x", "y", "z"], "xyz": [[xs[i], ys[i], zs[i]] for i in range(nn)],
          "nf": {"T": draw(_values(nn, _SPECIAL_ANY))}, "ef": {"a": draw(_values(len(rows), _SPECIAL_ANY))}}
    ops = [{"op": "geom", "name": "1", "mesh": 0}]
    if draw(st.booleans()):
        ops.append({"op": "var", "state": "STATE-1", "geom": "1", "name": "TEMP", "columns": ["T"], "location": "NODE", "mesh": 0})
    names = {"n": [], "e": []}
    for k in range(draw(st.integers(2, 4))):
        typ = draw(st.sampled_from(["n", "n", "e"])) if many else "n"
        members = sorted(used) if typ == "n" else sorted(eids)
        stride = draw(st.sampled_from([1, 2, 3]))
        cand = members[draw(st.integers(0, stride - 1))::stride]
        lo = min(24, len(cand))
        count = draw(st.integers(lo, max(lo, min(60, len(cand), len(members) - 3))))
        first = draw(st.integers(0, len(cand) - count))
        ids = _scramble(draw, cand[first:first + count])
        other = [n for n in names["e" if typ == "n" else "n"] if n not in names[typ]]
        name = draw(st.sampled_from(other)) if other and draw(st.integers(0, 2)) == 2 else "S%d" % k
        names[typ].append(name)
        ops.append({"op": "set", "geom": "1", "type": typ, "ids": ids, "name": name, "mesh": 0})
    if draw(st.booleans()):
        ops.append({"op": "var", "state": "STATE-1", "geom": "1", "name": "V", "columns": ["a"], "location": "ELEMENT_NODAL", "mesh": 0})
    return {"meshes": [ms], "ops": ops}


@subcheck(PROP, "sparse_sets", strategy=_sparse, quick=64, thorough=2000, crash_guard=True,
          doc="a mesh of 80-320 rows with widely spread node / element ids and shared nodes, node and element sets of 24-60 members "
              "(every, every second or every third id, stored in scrambled order): filter_*_set returns exactly the members' rows")
def sparse_sets(case, ctx):
    _run(case, ctx, "end")
