"""Reference model for mean stress transformation in a Haigh diagram (no pyLife import).

Everything is done in ``q = mean / amplitude`` space.  The stress ratio R = lower/upper of a
cycle with amplitude a > 0 and mean m is R = (m - a)/(m + a), hence

    q = (1 + R) / (1 - R),      R = -inf or +inf -> q = -1,   R = 0 -> q = 1,   R = -1 -> q = 0,
    R -> 1 from below -> q -> +inf,     R -> 1 from above -> q -> -inf.

q is increasing in R on R < 1 and on R > 1, so the R-segments of a gap-free diagram become
contiguous q-segments:  R in (1, inf) -> q in (-inf, -1);  R in (-inf, 0) -> q in (-1, 1);
R in (0, 1) -> q in (1, inf).

Inside a segment with mean stress sensitivity M the iso-damage line is the straight line
``amplitude + M * mean = const`` i.e. ``a * (1 + M q) = const``; lines of neighbouring segments join
continuously on the boundary ray.  The transformed amplitude is found by walking along that
polygon from the cycle's q to the target's q.

The walk also decides the *domain* of the statement ("cycles whose exact iso-damage amplitude stays
positive"): the amplitude stays positive iff every factor ``1 + M q`` met on the way is positive.
"""

import math

INF = float("inf")


def q_of_R(R):
    """mean/amplitude of the ray with stress ratio R (R = 1, the static ray, has no finite q)."""
    if R == -INF or R == INF:
        return -1.0
    if R == 1.0:
        raise ValueError("R = 1 is the static ray (amplitude 0)")
    return (1.0 + R) / (1.0 - R)


def q_segments(r_segments, require_full=True):
    """``r_segments``: iterable of (R_left, R_right, M), every segment inside R <= 1 or inside R >= 1.

    Returns the list of (q_left, q_right, M) sorted by q; raises ValueError if the segments
    are not contiguous in q (that is what gap-free means in q space) or - with ``require_full`` -
    do not tile the whole q axis."""
    out = []
    for (l, r, M) in r_segments:
        if not l < r:
            raise ValueError("empty segment")
        if l < 1.0 < r:
            raise ValueError("segment spans the static ray R = 1")
        ql = -INF if l == 1.0 else q_of_R(l)
        qr = INF if r == 1.0 else q_of_R(r)
        out.append((ql, qr, float(M)))
    out.sort()
    if require_full and (out[0][0] != -INF or out[-1][1] != INF):
        raise ValueError("diagram does not cover the whole Haigh plane")
    for a, b in zip(out[:-1], out[1:]):
        # borders are images of the same R value, so they are bit-identical
        if a[1] != b[0]:
            raise ValueError("gap or overlap between %r and %r" % (a, b))
    return out


def fkm_goodman_segments(M, M2):
    return [(1.0, INF, 0.0), (-INF, 0.0, M), (0.0, 1.0, M2)]


def five_segment_segments(M0, M1, M2, M3, M4, R12, R23):
    return [(1.0, INF, M4), (-INF, 0.0, M0), (0.0, R12, M1), (R12, R23, M2), (R23, 1.0, M3)]


def walk(amplitude, mean, qsegs, q_goal):
    """Follow the iso-damage polygon from (amplitude, mean) to the ray q_goal.

    Returns (amplitude at q_goal, smallest factor 1 + M q met on the way).  The result is
    meaningful (in the domain of the property) only if the second value is > 0."""
    if not amplitude > 0.0:
        raise ValueError("amplitude must be positive")
    q = mean / amplitude
    a = amplitude
    worst = INF
    if not (qsegs[0][0] <= q <= qsegs[-1][1] and qsegs[0][0] <= q_goal <= qsegs[-1][1]):
        raise ValueError("cycle or target outside the part of the plane covered by the diagram")
    if q == q_goal:
        return a, 1.0
    up = q_goal > q
    # index of the segment that contains q and extends towards the goal
    if up:
        i = max(k for k, s in enumerate(qsegs) if s[0] <= q)
        if qsegs[i][1] <= q:           # q sits exactly on the right border: start in the next one
            i += 1
    else:
        i = min(k for k, s in enumerate(qsegs) if q <= s[1])
        if qsegs[i][0] >= q:
            i -= 1
    while True:
        ql, qr, M = qsegs[i]
        nxt = min(qr, q_goal) if up else max(ql, q_goal)
        f0 = 1.0 + M * q
        f1 = 1.0 + M * nxt
        worst = min(worst, f0, f1)
        if not (f0 > 0.0 and f1 > 0.0):
            return float("nan"), worst
        a = a * f0 / f1
        q = nxt
        if q == q_goal:
            return a, worst
        i += 1 if up else -1


def transform(amplitude, mean, r_segments, R_goal):
    """Transformed amplitude, transformed mean and the domain margin (min factor on the way)."""
    qs = q_segments(r_segments)
    qg = q_of_R(R_goal)
    a, worst = walk(amplitude, mean, qs, qg)
    return a, a * qg, worst


def fkm_goodman_closed_form(amplitude, mean, M, M2, R_goal):
    """The FKM guideline formulas as used by pyLife's FKM-Goodman diagram (slope M for R <= 0,
    M2 for 0 < R < 1, no mean stress influence for R > 1), written via the equivalent amplitude
    at R = -1.  Independent of :func:`walk`."""
    a, m = amplitude, mean
    upper, lower = m + a, m - a
    if upper <= 0.0 and lower < 0.0 and not upper == 0.0:
        # R > 1: amplitude is constant down to the ray R = -inf (m = -a)
        a_eq = a * (1.0 - M)
    elif upper == 0.0:
        a_eq = a * (1.0 - M)             # on the ray R = +-inf
    elif lower <= 0.0:
        a_eq = a + M * m                 # -inf <= R <= 0
    else:
        a_eq = (1.0 + M) * (a + M2 * m) / (1.0 + M2)     # 0 < R < 1
    if R_goal == -INF or R_goal > 1.0:
        return a_eq / (1.0 - M)
    qg = (1.0 + R_goal) / (1.0 - R_goal)
    if R_goal <= 0.0:
        return a_eq / (1.0 + M * qg)
    return a_eq * (1.0 + M2) / ((1.0 + M) * (1.0 + M2 * qg))


def is_finite(x):
    return not (math.isnan(x) or math.isinf(x))
