"""Independent plain-float implementation of the FKM-nonlinear HCM procedure (guideline 2.9.7).

No pyLife import.  The notch approximation law is passed in as an object with the *scalar*
interface  stress(L), strain(sigma, L), stress_secondary_branch(dL), strain_secondary_branch(dsigma, dL).

Procedure (residue stack RES with IZ = len(RES); IR = number of residue points on the primary path,
initially 1; L_max = largest |load| seen so far):

  for each reversal L of the sequence:
    repeat
      IZ == IR:  a) i.  |L| > L_max:  Memory 3 - the branch from the last residue point P is a Masing
                        branch down to -P and primary curve beyond: a *half* hysteresis (-|P|, |P|) with
                        zero mean is recorded, the new point lies on the primary curve, IR += 1
                    ii. otherwise the new point lies on the Masing branch starting at P
      IZ <  IR:  b)  the new point lies on the primary curve (Memory 1)
      IZ >  IR:  c)  P0, P1 = the last two residue points
                    i.  |L-P1| <  |P1-P0|: new point on the Masing branch starting at P1
                    ii. otherwise the hysteresis (P0, P1) is closed and recorded, both points are removed
                        (IZ -= 2) and the comparison is repeated (Memory 2: the branch that P0 interrupted
                        is continued; Memory 1 if that leads to IZ < IR)
    until the new point is placed; it is pushed on RES.

Running strain extremes: smallest / largest strain of all points visited so far (starting from the
unloaded state, strain 0), as they stand when a hysteresis is recorded.
"""

import math


class Point:
    __slots__ = ("load", "stress", "strain")

    def __init__(self, load, stress, strain):
        self.load, self.stress, self.strain = load, stress, strain


class HCM:
    def __init__(self, law):
        self.law = law
        self.res = []
        self.ir = 1
        self.l_max = 0.0
        self.eps_min_lf = 0.0
        self.eps_max_lf = 0.0
        self.records = []
        self.strain_values = []
        self.n_first = 0
        self.run = 0
        self.events = []

    # -- branches ---------------------------------------------------------
    def primary(self, load):
        s = float(self.law.stress(load))
        e = float(self.law.strain(s, load))
        return Point(load, s, e)

    def secondary(self, start, load):
        dl = load - start.load
        ds = float(self.law.stress_secondary_branch(dl))
        de = float(self.law.strain_secondary_branch(ds, dl))
        return Point(load, start.stress + ds, start.strain + de)

    # -- one pass ---------------------------------------------------------
    def run_pass(self, reversals):
        self.run += 1
        carried = getattr(reversals, "carried", 0)
        this_run = self.run
        for number, load in enumerate(reversals):
            # hystereses closed by a reversal that was carried over from the previous pass belong to that pass
            booked = this_run - 1 if number < carried else this_run
            cur = None
            while cur is None:
                iz = len(self.res)
                if iz == self.ir:
                    p = self.res[-1]
                    if abs(load) > self.l_max:
                        self.records.append({
                            "loads_min": -abs(p.load), "loads_max": abs(p.load),
                            "S_min": -abs(p.stress), "S_max": abs(p.stress),
                            "epsilon_min": -abs(p.strain), "epsilon_max": abs(p.strain),
                            "epsilon_min_LF": self.eps_min_lf, "epsilon_max_LF": self.eps_max_lf,
                            "is_closed_hysteresis": False, "is_zero_mean_stress_and_strain": True,
                            "run_index": booked})
                        self.events.append("memory3")
                        cur = self.primary(load)
                        self.ir += 1
                    else:
                        cur = self.secondary(p, load)
                elif iz < self.ir:
                    cur = self.primary(load)
                    self.events.append("memory1")
                else:
                    p0, p1 = self.res[-2], self.res[-1]
                    if abs(load - p1.load) < abs(p1.load - p0.load):
                        cur = self.secondary(p1, load)
                    else:
                        lo, hi = (p0, p1) if p0.load < p1.load else (p1, p0)
                        slo, shi = (p0, p1) if p0.stress < p1.stress else (p1, p0)
                        elo, ehi = (p0, p1) if p0.strain < p1.strain else (p1, p0)
                        self.records.append({
                            "loads_min": lo.load, "loads_max": hi.load,
                            "S_min": slo.stress, "S_max": shi.stress,
                            "epsilon_min": elo.strain, "epsilon_max": ehi.strain,
                            "epsilon_min_LF": self.eps_min_lf, "epsilon_max_LF": self.eps_max_lf,
                            "is_closed_hysteresis": True, "is_zero_mean_stress_and_strain": False,
                            "run_index": booked})
                        del self.res[-2:]
                        self.events.append("memory2" if len(self.res) >= self.ir else "closed_to_primary")
                        self.depth = max(getattr(self, "depth", 0), iz - self.ir)
            if abs(load) > self.l_max:
                self.l_max = abs(load)
            self.res.append(cur)
            self.strain_values.append(cur.strain)
            if self.run == 1:
                self.n_first += 1
            self.eps_min_lf = min(self.eps_min_lf, cur.strain)
            self.eps_max_lf = max(self.eps_max_lf, cur.strain)

    def derived(self):
        out = []
        for r in self.records:
            d = dict(r)
            zero = r["is_zero_mean_stress_and_strain"]
            d["S_a"] = 0.5 * (r["S_max"] - r["S_min"])
            d["S_m"] = 0.0 if zero else 0.5 * (r["S_max"] + r["S_min"])
            d["epsilon_a"] = 0.5 * (r["epsilon_max"] - r["epsilon_min"])
            d["epsilon_m"] = 0.0 if zero else 0.5 * (r["epsilon_max"] + r["epsilon_min"])
            if zero:
                d["R"] = -1.0
            elif r["S_max"] == 0:
                d["R"] = math.copysign(math.inf, r["S_min"]) if r["S_min"] != 0 else math.nan
            else:
                d["R"] = r["S_min"] / r["S_max"]
            out.append(d)
        return out


def _run_is_reversal(ext, pos):
    v = ext[pos]
    i = pos
    while i > 0 and ext[i - 1] == v:
        i -= 1
    j = pos
    while j + 1 < len(ext) and ext[j + 1] == v:
        j += 1
    if i == 0 or j == len(ext) - 1:
        return False
    return (v - ext[i - 1]) * (ext[j + 1] - v) < 0


def reversal_schedule(seq, passes=2):
    """Which loads each pass works through (a list of lists).

    The history is 0, seq, seq, ...: its reversals (runs of equal values count once) are processed in
    order.  The last sample of a pass is processed at the end of that pass if it is a reversal both of
    the repeated sequence (.., last, first, ..) and of (.., last, 0, first ..) - pass 1 - resp. of the repeated
    sequence - every further pass; otherwise it is carried over to the next pass (where it is processed
    first if it is a reversal there).  The split only matters for the pass number a hysteresis is booked under.
    """
    n = len(seq)
    ext = [0.0] + list(seq) * (passes + 1)
    t_real = _run_is_reversal([0.0] + list(seq) + list(seq), n)
    t_zero = _run_is_reversal([0.0] + list(seq) + [0.0] + list(seq), n)
    rev = []
    for pos in range(1, passes * n + 1):
        first_of_run = ext[pos - 1] != ext[pos]
        if first_of_run and _run_is_reversal(ext, pos):
            rev.append((pos, ext[pos]))

    def run_start(pos):
        while pos > 1 and ext[pos - 1] == ext[pos]:
            pos -= 1
        return pos

    out = []
    lower, lower_incl = 0, False          # reversals after `lower` (or at it, if it was carried over)
    for k in range(1, passes + 1):
        last = run_start(k * n)
        flush = (t_real and t_zero) if k == 1 else t_real
        sel = [(pos, v) for pos, v in rev
               if (pos > lower or (pos == lower and lower_incl)) and (pos < last or (pos == last and flush))]
        # a reversal carried over from the previous pass is marked: what it closes is booked under that pass
        out.append(PassLoads([v for _, v in sel], carried=1 if (sel and lower_incl and sel[0][0] == lower) else 0))
        lower, lower_incl = last, not flush
    return out


class PassLoads(list):
    """The reversals one pass works through; the first ``carried`` of them stem from the previous pass."""

    def __init__(self, values, carried=0):
        super().__init__(values)
        self.carried = carried
