"""Reference model of hot-spot detection on a mesh table (plain Python, no pyLife, no pandas).

Input: the rows of the table as (node_id, element_id, value).  Entries whose value is >= frac * max(value) are
*hot*.  Two hot entries are adjacent if they share the node id or the element id; hot spots are the connected
components of that graph (union-find); they are ordered by descending peak value.
"""


class _UF:
    def __init__(self, n):
        self.p = list(range(n))

    def find(self, i):
        while self.p[i] != i:
            self.p[i] = self.p[self.p[i]]
            i = self.p[i]
        return i

    def union(self, i, j):
        ri, rj = self.find(i), self.find(j)
        if ri != rj:
            self.p[max(ri, rj)] = min(ri, rj)


def threshold(values, frac):
    return frac * max(values)


def hot_entries(values, frac):
    thr = threshold(values, frac)
    return [i for i, v in enumerate(values) if v >= thr]


def components(nodes, elems, values, frac, by_node=True, by_elem=True):
    """Connected components of the hot entries: list of (peak value, sorted list of row numbers),
    sorted by descending peak (order among equal peaks: by smallest row number, arbitrary for the caller)."""
    hot = hot_entries(values, frac)
    uf = _UF(len(values))
    first_n, first_e = {}, {}
    for i in hot:
        if by_node:
            j = first_n.setdefault(nodes[i], i)
            uf.union(i, j)
        if by_elem:
            j = first_e.setdefault(elems[i], i)
            uf.union(i, j)
    groups = {}
    for i in hot:
        groups.setdefault(uf.find(i), []).append(i)
    comps = [(max(values[i] for i in rows), sorted(rows)) for rows in groups.values()]
    comps.sort(key=lambda c: (-c[0], c[1][0]))
    return comps


def check_labels(nodes, elems, values, frac, labels):
    """Compare a labelling (0 = not hot, 1.. = hot spot number) with the reference.
    Returns None if it conforms, else (short key, message)."""
    n = len(values)
    if len(labels) != n:
        return "length", "%d labels for %d entries" % (len(labels), n)
    hot = set(hot_entries(values, frac))
    thr = threshold(values, frac)
    for i in range(n):
        if (labels[i] != 0) != (i in hot):
            return ("labelled_set",
                    "row %d (node %r, element %r, value %r) has label %r but threshold %r * max %r = %r"
                    % (i, nodes[i], elems[i], values[i], labels[i], frac, max(values), thr))
    comps = components(nodes, elems, values, frac)
    got = {}
    for i in hot:
        got.setdefault(labels[i], []).append(i)
    want_sets = sorted(c[1] for c in comps)
    got_sets = sorted(sorted(v) for v in got.values())
    if want_sets != got_sets:
        return "components", "labelled groups (row numbers) %r, connected components %r" % (got_sets, want_sets)
    if sorted(got) != list(range(1, len(comps) + 1)):
        return "numbering", "labels used %r, expected 1..%d" % (sorted(got), len(comps))
    peaks = [max(values[i] for i in got[k]) for k in range(1, len(comps) + 1)]
    if any(peaks[k] < peaks[k + 1] for k in range(len(peaks) - 1)):
        return "order", "peak values by label %r are not descending" % (peaks,)
    return None
