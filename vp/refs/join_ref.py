"""Reference model for index broadcasting (property C13): a dictionary join.

Plain Python only - no pandas, no numpy, no pyLife.  An *operand* is a table

    ids   : list of level identifiers (one per index level, unique inside the operand)
    rows  : list of key tuples (one entry per level, hashable keys, rows unique)
    table : dict  key tuple -> payload (whatever the caller stores, e.g. the list of column values)

Level identifiers: a named level is identified by its name (a ``str``); an unnamed
level (name ``None``) is *private* to its operand and is identified by ``(side, position)``
so that it can never be shared with a level of the other operand.

The join the broadcaster is documented to realise (class docstring of
``pylife.core.broadcaster.Broadcaster``):

* no shared level          -> cross join: every object row combined with every parameter row;
* all levels shared        -> outer join on the full key (rows missing on one side are NaN there);
* some levels shared       -> every object row is combined with every parameter row that carries the
                              same key on the shared levels.

The value a result row must carry for an operand is the payload stored under the row's key
*restricted to the operand's levels* - or "missing" (NaN) if the operand has no such key.
"""

MISSING = None


def level_ids(names, side):
    """Identifiers of the levels of one operand (``side`` is 'o' or 'p')."""
    out = []
    for pos, n in enumerate(names):
        out.append(n if n is not None else (side, pos))
    if len(set(out)) != len(out):
        raise ValueError("duplicate level names inside one operand: %r" % (names,))
    return out


def relation(obj_names, prm_names):
    """Relation class of two lists of level names (``None`` = unnamed, never shared)."""
    o = level_ids(obj_names, "o")
    p = level_ids(prm_names, "p")
    shared = [i for i in o if i in p]
    if not shared:
        return "disjoint"
    o_only = [i for i in o if i not in p]
    p_only = [i for i in p if i not in o]
    if not o_only and not p_only:
        return "equal"
    if not o_only:
        return "obj_in_prm"
    if not p_only:
        return "prm_in_obj"
    return "overlap"


def project(key, ids, onto):
    """Restrict ``key`` (aligned with ``ids``) to the levels ``onto`` (in the order of ``onto``)."""
    return tuple(key[ids.index(i)] for i in onto)


def join(obj_ids, obj_rows, prm_ids, prm_rows):
    """Dictionary join of two key lists.

    Returns a dict with

    ids            result level identifiers: the object's levels followed by the levels only the parameter has
    rows           list of result keys (tuples aligned with ``ids``) built from *matching* pairs, plus - when
                   every level is shared - the keys only one side has (outer join)
    unmatched_obj  object keys without a partner on the shared levels (only possible when something is shared)
    unmatched_prm  parameter keys without a partner
    shared         the shared level identifiers
    """
    shared = [i for i in obj_ids if i in prm_ids]
    p_only = [i for i in prm_ids if i not in obj_ids]
    ids = list(obj_ids) + p_only
    rows = []
    seen = set()
    unmatched_obj, unmatched_prm = [], []

    def emit(row):
        if row not in seen:
            seen.add(row)
            rows.append(row)

    if not shared:
        for ko in obj_rows:
            for kp in prm_rows:
                emit(tuple(ko) + tuple(kp))
        return {"ids": ids, "rows": rows, "unmatched_obj": [], "unmatched_prm": [], "shared": shared}

    by_shared = {}
    for kp in prm_rows:
        by_shared.setdefault(project(kp, prm_ids, shared), []).append(tuple(kp))
    matched_p = set()
    for ko in obj_rows:
        partners = by_shared.get(project(ko, obj_ids, shared))
        if not partners:
            unmatched_obj.append(tuple(ko))
            continue
        for kp in partners:
            matched_p.add(kp)
            emit(tuple(ko) + project(kp, prm_ids, p_only))
    for kp in prm_rows:
        if tuple(kp) not in matched_p:
            unmatched_prm.append(tuple(kp))
    if len(shared) == len(obj_ids) == len(prm_ids):
        # every level shared: documented outer join, a key one side lacks is a row of its own
        for ko in unmatched_obj:
            emit(ko)
        for kp in unmatched_prm:
            emit(project(kp, prm_ids, ids))
    return {"ids": ids, "rows": rows, "unmatched_obj": unmatched_obj, "unmatched_prm": unmatched_prm,
            "shared": shared}


def lookup(table, operand_ids, result_ids, row):
    """Payload the operand holds for result ``row`` (restricted to the operand's levels) or MISSING."""
    return table.get(project(row, result_ids, operand_ids), MISSING)


def positional_codes(obj_ids, obj_rows, prm_ids, prm_rows):
    """Integer re-coding of both key lists by first occurrence per level (object keys first, then the
    parameter's, for a shared level).  Used only to *classify* cases (coincidence regime), never as oracle."""
    levels = {}
    for ids, rows in ((obj_ids, obj_rows), (prm_ids, prm_rows)):
        for pos, i in enumerate(ids):
            seen = levels.setdefault(i, {})
            for r in rows:
                if r[pos] not in seen:
                    seen[r[pos]] = len(seen)
    oc = [tuple(levels[i][r[pos]] for pos, i in enumerate(obj_ids)) for r in obj_rows]
    pc = [tuple(levels[i][r[pos]] for pos, i in enumerate(prm_ids)) for r in prm_rows]
    return oc, pc
