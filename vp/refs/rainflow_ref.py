"""Reference rainflow models in plain Python (lists and floats; no pyLife, no numpy).

Written from the definitions:

* turning-point sequence of a signal = first sample, interior reversals (a run
  of equal values is one point, indexed at its *first* sample), last sample;
* four-point rule: with four consecutive points a,b,c,d on the residual stack the
  inner pair (b,c) is a cycle iff |b-c| <= |a-b| and |b-c| <= |c-d|;
* Clormann-Seeger HCM as printed in the FKM guideline (residue stack, counter IR of
  the points on the primary path, closing test |K-J| >= |J-I|).
"""


def collapse(signal):
    """Runs of equal values -> (first index, value)."""
    out = []
    for i, v in enumerate(signal):
        if not out or out[-1][1] != v:
            out.append((i, v))
    return out


def interior_reversals(signal):
    """[(index, value)] of the strict reversals, plateau indexed at its first sample."""
    pts = collapse(signal)
    res = []
    for j in range(1, len(pts) - 1):
        a, b, c = pts[j - 1][1], pts[j][1], pts[j + 1][1]
        if (b > a and b > c) or (b < a and b < c):
            res.append(pts[j])
    return res


def turning_points(signal):
    """first sample, interior reversals, last sample  (as (index, value))."""
    n = len(signal)
    if n == 0:
        return []
    return [(0, signal[0])] + interior_reversals(signal) + [(n - 1, signal[n - 1])]


def fourpoint(points, exact=False):
    """points: [(index, value)].  Returns (cycles, residual); a cycle is
    ((index_from, value_from), (index_to, value_to)) in closing order.
    exact=True: ranges are compared in exact rational arithmetic instead of rounded double differences."""
    from fractions import Fraction
    conv = Fraction if exact else (lambda x: x)
    stack = []
    cycles = []
    for p in points:
        while len(stack) >= 3:
            a, b, c = conv(stack[-3][1]), conv(stack[-2][1]), conv(stack[-1][1])
            d = conv(p[1])
            bc = abs(b - c)
            if bc <= abs(a - b) and bc <= abs(c - d):
                cycles.append((stack[-2], stack[-1]))
                del stack[-2:]
            else:
                break
        stack.append(p)
    return cycles, stack


def fourpoint_signal(signal):
    return fourpoint(turning_points(signal))


def hcm_clormann_seeger(reversals, exact=False):
    """HCM on a list of reversal values.  Returns (cycles [(from, to)], residue).

    Residue stack RES with IZ = len(RES) and IR = number of residue points that lie on
    the primary path (initially 1, as in the published flow chart).  For each new
    reversal K:
      1. if IZ > IR: I = RES[IZ-2], J = RES[IZ-1]; if |K-J| >= |J-I| the hysteresis
         (I,J) is closed, both are removed and step 1 repeats;
         otherwise K is pushed.
      2. if IZ == IR: if |K| > |RES[IZ-1]| the primary path is extended (IR += 1);
         K is pushed.
      (IZ < IR: K is pushed.)
    """
    from fractions import Fraction
    conv = Fraction if exact else (lambda x: x)
    res = []
    ir = 1
    cycles = []
    for k_ in reversals:
        k = k_
        while True:
            iz = len(res)
            if iz > ir:
                i, j = res[-2], res[-1]
                if abs(conv(k) - conv(j)) >= abs(conv(j) - conv(i)):
                    cycles.append((i, j))
                    del res[-2:]
                    continue
                break
            if iz == ir:
                if abs(k) > abs(res[-1]):
                    ir += 1
            break
        res.append(k)
    return cycles, res


def periodic_cycles(signal):
    """Closed cycles of the endlessly repeated signal.

    Reversals of the cyclic sequence (plateaus collapsed cyclically), rotated so that it
    starts at the first reversal of largest absolute value, start value appended, counted
    with the four-point rule: everything closes.  Returns a list of (lo, hi) pairs.
    """
    vals = [v for _, v in collapse(signal)]
    if len(vals) > 1 and vals[0] == vals[-1]:
        vals = vals[:-1]
    n = len(vals)
    if n < 2:
        return []
    rev = []
    for j in range(n):
        a, b, c = vals[j - 1], vals[j], vals[(j + 1) % n]
        if (b > a and b > c) or (b < a and b < c):
            rev.append(b)
    if len(rev) < 2:
        return []
    m = max(abs(v) for v in rev)
    s = next(j for j, v in enumerate(rev) if abs(v) == m)
    seq = rev[s:] + rev[:s] + [rev[s]]
    cycles, stack = fourpoint([(j, v) for j, v in enumerate(seq)])
    out = [(min(a[1], b[1]), max(a[1], b[1])) for a, b in cycles]
    # the remaining stack is start, (opposite extreme), start: one outer cycle
    vals_left = [v for _, v in stack]
    while len(vals_left) >= 3:
        # successive closing of what is left (global extreme pairs)
        a, b = vals_left[0], vals_left[1]
        out.append((min(a, b), max(a, b)))
        vals_left = vals_left[2:]
    return out
