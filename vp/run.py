"""CLI:  python -m vp.run --property C01 [--tier quick|thorough] [--replay FILE] [--only a,b]

exit 0  property held on everything explored (KNOWN-FINDING lines possible)
exit 1  at least one line  VIOLATION property=<id> replay=<path>
exit 2  harness error / inconclusive (never reported as a violation)
"""

import argparse
import os
import sys


def main(argv=None):
    if (os.environ.get("PYTHONHASHSEED") != "0" or os.environ.get("OPENBLAS_NUM_THREADS") != "1") and argv is None:
        # hash randomisation changes the iteration order of sets inside Hypothesis: pin it.
        # 16 worker processes x 16 spinning BLAS threads each would thrash the machine: one thread per worker.
        os.environ["PYTHONHASHSEED"] = "0"
        for var in ("OPENBLAS_NUM_THREADS", "OMP_NUM_THREADS", "MKL_NUM_THREADS"):
            os.environ[var] = "1"
        os.execv(sys.executable, [sys.executable, "-m", "vp.run"] + sys.argv[1:])
    ap = argparse.ArgumentParser()
    ap.add_argument("--property", required=True)
    ap.add_argument("--tier", default=os.environ.get("VERIF_TIER", "quick"), choices=["quick", "thorough"])
    ap.add_argument("--replay")
    ap.add_argument("--only")
    ap.add_argument("--scale", type=float, default=float(os.environ.get("VP_SCALE", "1")))
    ap.add_argument("--procs", type=int, default=None)
    args = ap.parse_args(argv)
    try:
        seed = int(os.environ.get("VERIF_SEED", "1") or "1")
    except ValueError:
        seed = 1

    import warnings
    warnings.filterwarnings("ignore")
    from . import build, core
    build.use_repo()
    prop = args.property.upper()

    if args.replay:
        core._import_prop(prop)
        status, info, doc = core.run_replay_file(prop, args.replay)
        if status == "violation":
            print("VIOLATION property=%s replay=%s" % (prop, os.path.abspath(args.replay)))
            print("  sub-check %s: %s" % (doc["subcheck"], info["msg"]))
            return 1
        if status == "error":
            print("HARNESS-ERROR:", info, file=sys.stderr)
            return 2
        print("replay %s: %s" % (args.replay, status))
        return 0

    only = set(args.only.split(",")) if args.only else None
    return core.run_property(prop, args.tier, seed, only=only, procs=args.procs, scale=args.scale)


if __name__ == "__main__":
    sys.exit(main())
