"""setup_cmd: make the framework runnable after a fresh restore, offline.

* hypothesis into /venv if it is missing (from the offline wheelhouse),
* atheris into /verif/.deps (optional: the fuzz tier degrades to Hypothesis-only if absent),
* both variants of the Cython kernel built from /repo's current extension.pyx.
"""
import os
import subprocess
import sys

VERIF = os.path.dirname(os.path.dirname(os.path.abspath(__file__)))
WHEELS = "/opt/veriftools/wheels"


def main():
    try:
        import hypothesis  # noqa
    except ImportError:
        subprocess.run([sys.executable, "-m", "pip", "install", "--no-index", "--find-links", WHEELS, "hypothesis"], check=True)
    deps = os.path.join(VERIF, ".deps")
    if not os.path.isdir(os.path.join(deps, "atheris")):
        r = subprocess.run([sys.executable, "-m", "pip", "install", "--no-index", "--find-links", WHEELS,
                            "--target", deps, "--no-deps", "atheris"], stdout=subprocess.PIPE, stderr=subprocess.STDOUT, text=True)
        if r.returncode != 0:
            print("note: atheris not installed (fuzz tier will be skipped):", r.stdout[-300:])
    from vp import build
    for v in ("plain", "checked"):
        print("kernel", v, build.kernel_path(v))
    return 0


if __name__ == "__main__":
    sys.exit(main())
